import json, sys
sys.path.insert(0, "/verif")
from sa.registry import PROPS, NA_REASONS, ALL, GUARD, NOT_IMPL

checks, na = [], []
for pid in ALL:
    p = PROPS.get(pid)
    if p and p.get("claimed"):
        checks.append({
            "property_id": pid,
            "quick_cmd": f"/venv/bin/python -m sa.check {pid} --tier quick",
            "thorough_cmd": f"/venv/bin/python -m sa.check {pid} --tier thorough",
            "evidence_file": f"/verif/evidence/{pid}.json",
            "replay_cmd_template": "cat {path}",
            "engine": "sa",
            "level_claimed": {"category": "other", "text": p["text"], "design_ref": p["design"]},
            "level_note": p["note"],
            "technique": "static analysis: " + p["technique"],
        })
    else:
        na.append({"property_id": pid, "reason": (p or {}).get("reason") or NA_REASONS.get(pid) or NOT_IMPL})
man = {
    "version": 1,
    "setup_cmd": "/venv/bin/python -c \"import ast, networkx; print('sa: stdlib ast + networkx from the repository environment; nothing to build')\"",
    "hooks": {"guard": GUARD, "enable": "no hooks: static analysis reads /repo's working tree and instruments nothing",
              "baseline_off_cmd": "cd /repo && /venv/bin/python -m pytest -ra -q -p no:cacheprovider --timeout=900 --continue-on-collection-errors",
              "source_commits": [], "add_only": True},
    "engines": [{"name": "sa", "path": "/verif/sa", "serves_properties": [c["property_id"] for c in checks],
                 "kind_free_text": "repository-specific static analysis in Python: ast-based program model (imports, class hierarchy, callee resolution, constant folding), statement CFG with exception edges, alias/effect analysis, SQL-skeleton and regex-language engines, code/docs table extraction, finite decision tables"}],
    "checks": checks,
    "notes": "All checks are static: they parse /repo's current working tree on every run (no vtlengine code is imported or executed). exit 0 = all rule instances hold (listed known findings print KNOWN-FINDING lines), exit 1 = VIOLATION, exit 2 = ANALYSIS-ERROR (vanished anchor / unmodelled construct / instance floor not met). Known findings: /verif/known_findings.txt.",
    "not_applicable": na,
}
json.dump(man, open("/verif/MANIFEST.json", "w"), indent=1)
print(f"MANIFEST: {len(checks)} checks, {len(na)} not_applicable")
