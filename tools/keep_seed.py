#!/venv/bin/python
"""usage: tools/keep_seed.py <dir with patch.diff demo.py notes.md> <PROP> [--name NAME] [--checks C01,C02]
Confirms a sub-agent's seeded change independently in a scratch worktree (outside /repo and /verif):
  demo passes on pristine HEAD, patch applies, demo fails with it, the 169 baseline tests still pass;
then runs the named static checks against the changed tree and stores everything under
/verif/seeded/<NAME>/ (patch.diff, demo.py, notes.md, meta.json).  The worktree is removed."""
import argparse, json, os, re, shutil, subprocess, sys, tempfile, time

ap = argparse.ArgumentParser()
ap.add_argument("dir"); ap.add_argument("prop"); ap.add_argument("--name"); ap.add_argument("--checks")
ap.add_argument("--needs", default="")
a = ap.parse_args()
name = a.name or os.path.basename(a.dir.rstrip("/"))
checks = (a.checks or a.prop).split(",")
patch = os.path.join(a.dir, "patch.diff"); demo = os.path.join(a.dir, "demo.py")
wt = tempfile.mkdtemp(prefix="seedverify.", dir="/tmp"); os.rmdir(wt)
def sh(cmd, **kw):
    return subprocess.run(cmd, shell=True, capture_output=True, text=True, **kw)
assert sh(f"git -C /repo worktree add -q --detach {wt} HEAD").returncode == 0
meta = {"property": a.prop, "name": name, "repo_head": sh("git -C /repo rev-parse --short HEAD").stdout.strip()}
try:
    env = dict(os.environ, VTL_SRC=f"{wt}/src", VTL_TEMP_DIRECTORY=tempfile.mkdtemp(prefix="seedtmp.", dir="/tmp"))
    r0 = subprocess.run(["/venv/bin/python", demo], capture_output=True, text=True, env=env, cwd="/tmp", timeout=1800)
    meta["demo_pristine_rc"] = r0.returncode
    ap_ = sh(f"git -C {wt} apply {patch}")
    meta["patch_applies"] = ap_.returncode == 0
    if ap_.returncode != 0:
        print("PATCH DOES NOT APPLY:", ap_.stderr); sys.exit(3)
    r1 = subprocess.run(["/venv/bin/python", demo], capture_output=True, text=True, env=env, cwd="/tmp", timeout=1800)
    meta["demo_patched_rc"] = r1.returncode
    meta["demo_patched_tail"] = (r1.stdout + r1.stderr).strip().splitlines()[-6:]
    t = sh(f"cd {wt} && /venv/bin/python -m pytest -q -p no:cacheprovider --timeout=900 --continue-on-collection-errors 2>&1 | tail -1")
    meta["baseline_line"] = t.stdout.strip()
    meta["baseline_169_passed"] = "169 passed" in t.stdout
    # compile check of every changed python file
    changed = sh(f"git -C {wt} diff --name-only").stdout.split()
    meta["files_changed"] = changed
    comp = [f for f in changed if f.endswith(".py") and sh(f"/venv/bin/python -m py_compile {wt}/{f}").returncode != 0]
    meta["compiles"] = not comp
    ev = tempfile.mkdtemp(prefix="seedev.", dir="/tmp")
    res = {}
    for c in checks:
        r = subprocess.run(["/venv/bin/python", "-m", "sa.check", c, "--tier", "quick"], capture_output=True, text=True,
                           cwd="/verif", env=dict(os.environ, VERIF_REPO=wt, VERIF_EVIDENCE_DIR=ev))
        lines = [l for l in r.stdout.splitlines() if "condarc" not in l]
        viol = [lines[i - 1].strip().replace(wt + "/", "") for i, l in enumerate(lines) if l.startswith("VIOLATION") and i > 0]
        res[c] = {"exit": r.returncode, "violations": viol[:6], "analysis_error": [l for l in lines if l.startswith("ANALYSIS-ERROR")][:2]}
    shutil.rmtree(ev, ignore_errors=True); shutil.rmtree(env["VTL_TEMP_DIRECTORY"], ignore_errors=True)
    meta["checks_run"] = res
    meta["caught_by"] = [c for c, v in res.items() if v["exit"] == 1]
    meta["needs_to_manifest"] = a.needs
    meta["confirmed"] = bool(meta["demo_pristine_rc"] == 0 and meta["demo_patched_rc"] != 0 and meta["baseline_169_passed"] and meta["compiles"])
    meta["what_i_ran"] = ["demo.py on pristine scratch worktree (expect exit 0)", "git apply patch.diff", "demo.py on changed worktree (expect non-zero)",
                          "baseline pytest command on changed worktree (expect 169 passed)", "sa.check for: " + ",".join(checks) + " with VERIF_REPO=<changed worktree>"]
    meta["when"] = time.strftime("%Y-%m-%d %H:%M")
finally:
    sh(f"git -C /repo worktree remove --force {wt}")
print(json.dumps({k: meta[k] for k in ("name", "confirmed", "demo_pristine_rc", "demo_patched_rc", "baseline_line", "caught_by")}, indent=0))
for c, v in meta.get("checks_run", {}).items():
    for x in v["violations"] + v["analysis_error"]:
        print("   ", c, x[:220])
if meta.get("confirmed"):
    out = f"/verif/seeded/{name}"; os.makedirs(out, exist_ok=True)
    for fn in ("patch.diff", "demo.py", "notes.md"):
        if os.path.exists(os.path.join(a.dir, fn)):
            shutil.copy(os.path.join(a.dir, fn), out)
    json.dump(meta, open(f"{out}/meta.json", "w"), indent=1)
    print("kept:", out)
else:
    print("NOT CONFIRMED - not kept")
