#!/venv/bin/python
"""Behaviour-preserving edit used by the self-test (N2): every function-local variable that is not captured by a nested scope is
renamed (suffix `_n2`).  Parameters, attributes, globals, imports and keyword names are untouched.
usage: tools/rename_locals.py <root with src/>   (rewrites the .py files in place; prints the number of renamed variables)"""
import ast
import sys
from pathlib import Path

SCOPES = (ast.FunctionDef, ast.AsyncFunctionDef, ast.Lambda, ast.ClassDef)


def own_nodes(fn):
    """nodes of fn's own scope (not inside nested function / lambda / class bodies)"""
    stack = list(ast.iter_child_nodes(fn))
    while stack:
        n = stack.pop()
        yield n
        if isinstance(n, SCOPES):
            # decorators / defaults / bases are evaluated in the outer scope, bodies are not
            for fld in ("decorator_list", "bases", "keywords"):
                for x in getattr(n, fld, []) or []:
                    stack.append(x)
            if isinstance(n, (ast.FunctionDef, ast.AsyncFunctionDef, ast.Lambda)):
                a = n.args
                stack.extend([d for d in a.defaults] + [d for d in a.kw_defaults if d is not None])
            continue
        stack.extend(ast.iter_child_nodes(n))


def nested_names(fn):
    out = set()
    for n in own_nodes(fn):
        if isinstance(n, SCOPES):
            body = n.body if isinstance(n.body, list) else [n.body]
            for b in body:
                for x in ast.walk(b):
                    if isinstance(x, ast.Name):
                        out.add(x.id)
                    elif isinstance(x, ast.arg):
                        out.add(x.arg)
    return out


def rename_in(fn, module_names):
    a = fn.args
    params = {x.arg for x in a.posonlyargs + a.args + a.kwonlyargs} | ({a.vararg.arg} if a.vararg else set()) | ({a.kwarg.arg} if a.kwarg else set())
    declared = set()
    uses_dyn = False
    stores = set()
    for n in own_nodes(fn):
        if isinstance(n, (ast.Global, ast.Nonlocal)):
            declared |= set(n.names)
        if isinstance(n, ast.Name):
            if isinstance(n.ctx, (ast.Store, ast.Del)):
                stores.add(n.id)
            if n.id in ("locals", "vars", "eval", "exec", "globals"):
                uses_dyn = True
        if isinstance(n, ast.ExceptHandler) and n.name:
            stores.add(n.name)  # handled separately below (string attribute)
        if isinstance(n, (ast.Import, ast.ImportFrom)):
            for al in n.names:
                declared.add((al.asname or al.name).split(".")[0])
    if uses_dyn:
        return 0
    captured = nested_names(fn)
    all_names = {n.id for n in ast.walk(fn) if isinstance(n, ast.Name)}
    targets = {s for s in stores if s not in params and s not in declared and s not in captured and not s.startswith("__") and s != "_"}
    mapping = {}
    for s in sorted(targets):
        new = s + "_n2"
        while new in all_names or new in module_names or new in params:
            new += "x"
        mapping[s] = new
    if not mapping:
        return 0
    for n in own_nodes(fn):
        if isinstance(n, ast.Name) and n.id in mapping:
            n.id = mapping[n.id]
        elif isinstance(n, ast.ExceptHandler) and n.name in mapping:
            n.name = mapping[n.name]
    return len(mapping)


def main(root):
    total = 0
    for p in sorted(Path(root, "src").rglob("*.py")):
        try:
            tree = ast.parse(p.read_text())
        except SyntaxError:
            continue
        module_names = {n.id for n in ast.walk(tree) if isinstance(n, ast.Name)}
        k = 0
        for fn in ast.walk(tree):
            if isinstance(fn, (ast.FunctionDef, ast.AsyncFunctionDef)):
                k += rename_in(fn, module_names)
        if k:
            p.write_text(ast.unparse(tree) + "\n")
            total += k
    print(total)


if __name__ == "__main__":
    main(sys.argv[1])
