#!/bin/bash
# usage: tools/run_all.sh [quick|thorough]   - runs every claimed check in parallel, prints one line per check
tier=${1:-quick}
cd /verif
ids=$(/venv/bin/python -c "import json;print(' '.join(c['property_id'] for c in json.load(open('MANIFEST.json'))['checks']))" 2>/dev/null)
for p in $ids; do
  ( out=$(/venv/bin/python -m sa.check $p --tier $tier 2>&1 | grep -v condarc); rc=$?
    echo "$p rc=$(echo "$out" | grep -c '^VIOLATION')v/$(echo "$out" | grep -c '^ANALYSIS-ERROR')e/$(echo "$out" | grep -c '^SELFTEST-FAILURE')s $(echo "$out" | grep "^$p \[" | cut -c1-110)" ) &
done | sort
wait
