#!/venv/bin/python
"""Behaviour-preserving edit used by the self-test (N4): call arguments that are themselves calls are hoisted into fresh temporaries.

    return g(a(x), k=b(y))        ->      _n4_1 = a(x); _n4_2 = b(y); return g(_n4_1, k=_n4_2)

Only statements whose whole value is one call are rewritten (`return <call>`, `<target> = <call>`, `<call>` as a statement), only the
call's own top-level arguments are hoisted (left to right, which is the order Python evaluates them in), never out of a lambda,
comprehension, conditional expression or boolean operator, never starred arguments, and never when the callee expression is itself
a call or the statement sits in a class body / module body.  The callee (a name or attribute chain) is evaluated before its arguments
in the original and after the hoisted ones here; that is unobservable unless evaluating an argument rebinds the callee (walrus
expressions are never hoisted; no argument call of this code base replaces a method of its receiver).
usage: tools/extract_temps.py <root with src/>   (rewrites files in place; prints the number of hoisted arguments)"""
import ast
import sys
from pathlib import Path


class Hoist(ast.NodeTransformer):
    def __init__(self):
        self.n = 0
        self.fn_depth = 0

    def visit_FunctionDef(self, node):
        self.fn_depth += 1
        stored = {x.id for x in ast.walk(node) if isinstance(x, ast.Name) and isinstance(x.ctx, ast.Store)}
        node.body = self._block(node.body, stored)
        self.fn_depth -= 1
        return node

    visit_AsyncFunctionDef = visit_FunctionDef

    def _block(self, body, stored):
        out = []
        for st in body:
            # recurse into compound statements first
            for fld in ("body", "orelse", "finalbody"):
                sub = getattr(st, fld, None)
                if isinstance(sub, list) and sub and isinstance(sub[0], ast.stmt) and not isinstance(st, (ast.FunctionDef, ast.AsyncFunctionDef, ast.ClassDef)):
                    setattr(st, fld, self._block(sub, stored))
            if isinstance(st, ast.Try):
                for h in st.handlers:
                    h.body = self._block(h.body, stored)
            if isinstance(st, (ast.FunctionDef, ast.AsyncFunctionDef)):
                out.append(self.visit_FunctionDef(st))
                continue
            if isinstance(st, ast.ClassDef):
                out.append(self.generic_visit(st))
                continue
            call = None
            if isinstance(st, ast.Return) and isinstance(st.value, ast.Call):
                call = st.value
            elif isinstance(st, ast.Assign) and isinstance(st.value, ast.Call) and len(st.targets) == 1 and isinstance(st.targets[0], ast.Name):
                call = st.value
            elif isinstance(st, ast.Expr) and isinstance(st.value, ast.Call):
                call = st.value
            if call is not None and self._callee_ok(call.func, stored):
                pre = []
                for i, a in enumerate(call.args):
                    if isinstance(a, ast.Call) and not any(isinstance(x, (ast.Yield, ast.YieldFrom, ast.Await, ast.NamedExpr)) for x in ast.walk(a)):
                        self.n += 1
                        nm = f"_n4_{self.n}"
                        pre.append(ast.Assign(targets=[ast.Name(id=nm, ctx=ast.Store())], value=a, lineno=st.lineno, col_offset=st.col_offset))
                        call.args[i] = ast.Name(id=nm, ctx=ast.Load())
                    elif isinstance(a, ast.Starred) or not isinstance(a, (ast.Constant, ast.Name, ast.Attribute)):
                        break  # keep left-to-right order: nothing after a non-trivial unhoisted argument is moved before it
                else:
                    for k in call.keywords:
                        if k.arg is None:
                            break
                        if isinstance(k.value, ast.Call) and not any(isinstance(x, (ast.Yield, ast.YieldFrom, ast.Await, ast.NamedExpr)) for x in ast.walk(k.value)):
                            self.n += 1
                            nm = f"_n4_{self.n}"
                            pre.append(ast.Assign(targets=[ast.Name(id=nm, ctx=ast.Store())], value=k.value, lineno=st.lineno, col_offset=st.col_offset))
                            k.value = ast.Name(id=nm, ctx=ast.Load())
                        elif not isinstance(k.value, (ast.Constant, ast.Name, ast.Attribute)):
                            break
                out.extend(pre)
            out.append(st)
        return out

    @staticmethod
    def _callee_ok(f, stored):
        root = f
        while isinstance(root, ast.Attribute):
            root = root.value
        if not isinstance(root, ast.Name):
            return False
        return True


def main(root):
    total = 0
    for p in sorted(Path(root, "src").rglob("*.py")):
        try:
            tree = ast.parse(p.read_text())
        except SyntaxError:
            continue
        h = Hoist()
        new_body = []
        for st in tree.body:
            if isinstance(st, (ast.FunctionDef, ast.AsyncFunctionDef)):
                new_body.append(h.visit_FunctionDef(st))
            elif isinstance(st, ast.ClassDef):
                for i, m in enumerate(st.body):
                    if isinstance(m, (ast.FunctionDef, ast.AsyncFunctionDef)):
                        st.body[i] = h.visit_FunctionDef(m)
                new_body.append(st)
            else:
                new_body.append(st)
        tree.body = new_body
        if h.n:
            ast.fix_missing_locations(tree)
            p.write_text(ast.unparse(tree) + "\n")
            total += h.n
    print(total)


if __name__ == "__main__":
    main(sys.argv[1])
