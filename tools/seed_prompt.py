"""Prints the prompt given to an independent sub-agent asked to seed a property-breaking change.
The agent gets ONLY the property text and sandbox facts - nothing about /verif's checks."""
import json, sys
props = {json.loads(l)["id"]: json.loads(l) for l in open("/verif/properties.jsonl")}
import os
pid = sys.argv[1]
n = int(sys.argv[2]) if len(sys.argv) > 2 else 2
p = props[pid]
RND = os.environ.get("SEED_ROUND", "")
DIVERSITY = ""
if os.environ.get("SEED_DIVERSE"):
    DIVERSITY = ("Placement: the two changes must live in two DIFFERENT files, and at most one of them may touch "
                 "src/vtlengine/duckdb_transpiler/Transpiler/__init__.py (prefer none). Look for places in Operators/, Interpreter/, AST/ (constructor, DAG, "
                 "ASTString), API/, files/, Model/, DataTypes/, duckdb_transpiler/io/, duckdb_transpiler/sql/*.sql, duckdb_transpiler/Config/, "
                 "duckdb_transpiler/Transpiler/structure_visitor.py / operators.py / sql_builder.py, ViralPropagation/ or Exceptions/ whose behaviour the property depends on.\n\n")  # "" -> /tmp/wt, /tmp/seed_out ; "2" -> /tmp/wt2, /tmp/seed_out2
AVOID = ""
if os.environ.get("SEED_AVOID"):
    import glob, re
    places = set()
    for d in glob.glob(f"/verif/seeded/{pid}_*/patch.diff"):
        cur = None
        for line in open(d):
            if line.startswith("+++ b/"):
                cur = line[6:].strip().replace("src/vtlengine/", "")
            m = re.match(r"@@ .* @@\s*(?:async\s+)?(?:def|class)\s+(\w+)", line)
            if m and cur:
                places.add(f"{cur}::{m.group(1)}")
            elif line.startswith("@@") and cur and cur.endswith(".sql"):
                places.add(cur)
    if places:
        AVOID = ("Earlier volunteers already made changes in these places for this property; choose DIFFERENT functions / files (a different mechanism, not a variation of the same edit): "
                 + ", ".join(sorted(places)) + ".\n\n")
print(f"""You are helping test a verification effort for the open-source Python project vtlengine (an interpreter for the SDMX Validation and Transformation Language, VTL; it analyses scripts semantically and executes them by generating DuckDB SQL). Your job is to play the part of a plausible but subtly wrong code change ("seeded bug").

## The property that your change must break

Title: {p['title']}

Statement: {p['statement']}

Scope it is meant to hold over: {p['quantifier']['text']}

## Your working copy

You have your own scratch git worktree of the repository at /tmp/wt{RND}/{pid} (source under /tmp/wt{RND}/{pid}/src/vtlengine). Work ONLY there. Never touch /repo or /verif, and do not read anything under /verif.

## What to produce

Produce {n} DIFFERENT, independent changes (each one a separate patch against the pristine worktree HEAD) to the vtlengine source (under src/vtlengine, which includes .py, .sql and docs-independent files) such that for each change:
1. The code still compiles/imports, and the existing test-suite result is unchanged: run `cd /tmp/wt{RND}/{pid} && /venv/bin/python -m pytest -q -p no:cacheprovider --timeout=900 --continue-on-collection-errors 2>&1 | tail -1` before and after; it must report the same `169 passed` (the many failed/errors in that line are pre-existing in this sandbox and expected: the compiled C++ parser is not built here).
2. The change BREAKS the property above in a real, observable way (wrong result, wrong error, leaked resource, mutated argument, ... as appropriate to the property).
3. The change looks like a realistic developer mistake or ill-advised refactor/optimisation (not sabotage with an obviously silly shape), and it needs something SPECIFIC to manifest: a particular unusual input, a multi-step sequence of operations, a fault at a particular point, a specific interleaving, or two cooperating sites that each look fine alone. Do NOT produce changes that any ordinary use would expose at once (e.g. breaking every script).
4. You provide a demonstration program (a small Python script) that FAILS (exit code non-zero, with a message explaining the observed vs expected behaviour) when run against the changed worktree and PASSES (exit 0) against the pristine worktree.

## Sandbox facts you need

- Python: /venv/bin/python (3.12, has pandas, duckdb, pysdmx, networkx, pytest). No network.
- `import vtlengine` FAILS in this sandbox because the compiled C++ parser extension (vtlengine.AST.Grammar._cpp_parser.vtl_cpp_parser) is not built. Therefore VTL *text* cannot be parsed. Workaround: a stub helper at /root/vtlstub/vtlstub.py: `import sys; sys.path.insert(0, "/root/vtlstub"); import vtlstub; vtlstub.install("/tmp/wt{RND}/{pid}/src")` and then `import vtlengine` works (everything except parsing text). Build ASTs by hand from the dataclasses in vtlengine.AST (every node needs line_start, column_start, line_stop, column_stop) and drive the real pipeline. /root/vtlstub/example_pipeline.py shows `run_ast(ast, data_structures, datapoints, ...)`, which performs exactly the steps of vtlengine.API.run() after parsing (DAG analysis, semantic analysis with InterpreterAnalyzer, SQL transpilation, DuckDB execution) - read and reuse it (set env VTL_SRC=/tmp/wt{RND}/{pid}/src when running it, and make your demo honour VTL_SRC the same way so that it can be pointed at another checkout). Public API functions that do not need to parse a script (validate_dataset, sdmx conversion helpers, config functions, exception classes, data-type classes, DAG/interpreter/transpiler classes, SQL macros through duckdb, etc.) can be called directly after installing the stub. To see how the AST for a given VTL construct looks, read src/vtlengine/AST/ASTConstructorModules/*.py and src/vtlengine/AST/__init__.py.
- Set VTL_TEMP_DIRECTORY to a scratch directory under /tmp if your demo needs the DuckDB session directory.
- Never use `git stash` (the stash is shared by all worktrees of the repository and other people work in sibling worktrees): switch between pristine and changed only with `git apply <patch>` and `git checkout -- .`.
- Do not install anything. Do not modify tests. Do not modify files under docs/ or tests/.

## Deliverables (write them to /tmp/seed_out{RND}/{pid}/)

For change k (k = 1..{n}):
- /tmp/seed_out{RND}/{pid}/{pid}_k/patch.diff  : `git diff` of the change against the pristine worktree HEAD (apply-able with `git apply`).
- /tmp/seed_out{RND}/{pid}/{pid}_k/demo.py     : the demonstration; must read the source dir from env var VTL_SRC (default /tmp/wt{RND}/{pid}/src); exit 0 = property holds, non-zero = broken.
- /tmp/seed_out{RND}/{pid}/{pid}_k/notes.md    : 5-15 lines: what the change is, why it is a plausible mistake, what specific circumstance is needed for it to manifest, what you ran and observed (pristine vs changed, and the test-suite line before/after).
After saving each patch, restore the worktree to pristine (`git -C /tmp/wt{RND}/{pid} checkout -- . && git -C /tmp/wt{RND}/{pid} clean -fdq`) and verify that the demo passes on pristine and fails after `git -C /tmp/wt{RND}/{pid} apply <patch>`; leave the worktree pristine at the end.

{DIVERSITY}{AVOID}Vary the changes: touch different files/functions/mechanisms for each one, and prefer subtle ones (an off-by-one, a dropped guard, a mis-ordered pair of operations, an "optimisation" that skips a step, a table entry changed in only one of two places that must agree, a cleanup moved out of a finally, ...). In your final answer give a 3-line summary per change.""")
