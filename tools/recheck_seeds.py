#!/venv/bin/python
"""Re-runs the static checks against every kept seeded change on /repo's CURRENT HEAD (scratch copy of src/ + docs/ under the
system temp dir, patch applied with `patch -p1`), and refreshes caught_by / checks_run in seeded/*/meta.json.
usage: tools/recheck_seeds.py [NAME ...]"""
import json, os, re, shutil, subprocess, sys, tempfile, glob
from concurrent.futures import ThreadPoolExecutor
sel = set(sys.argv[1:])
head = subprocess.run("git -C /repo rev-parse --short HEAD", shell=True, capture_output=True, text=True).stdout.strip()
def one(d):
    meta = json.load(open(f"{d}/meta.json")); name = meta["name"]
    checks = list((meta.get("checks_run") or {}).keys()) or [meta["property"]]
    if meta["property"] not in checks: checks.insert(0, meta["property"])
    root = tempfile.mkdtemp(prefix=f"recheck_{name}_")
    try:
        for sub in ("src", "docs"):
            shutil.copytree(f"/repo/{sub}", f"{root}/{sub}", ignore=shutil.ignore_patterns("__pycache__"))
        r = subprocess.run(["patch", "-p1", "-s", "-f", "--no-backup-if-mismatch", "-d", root], input=open(f"{d}/patch.diff").read(), capture_output=True, text=True)
        if r.returncode != 0:
            meta["applies_at_head"] = False; meta["rechecked_at_head"] = head
            json.dump(meta, open(f"{d}/meta.json", "w"), indent=1); return name, "DOES NOT APPLY", []
        res = {}
        for c in checks:
            ev = tempfile.mkdtemp(prefix="recheck_ev_")
            rr = subprocess.run(["/venv/bin/python", "-m", "sa.check", c, "--tier", "quick"], capture_output=True, text=True, cwd="/verif", env=dict(os.environ, VERIF_REPO=root, VERIF_EVIDENCE_DIR=ev))
            shutil.rmtree(ev, ignore_errors=True)
            lines = [l for l in rr.stdout.splitlines() if "condarc" not in l]
            viol = [lines[i - 1].strip().replace(root + "/", "") for i, l in enumerate(lines) if l.startswith("VIOLATION") and i > 0]
            res[c] = {"exit": rr.returncode, "violations": viol[:6], "analysis_error": [l for l in lines if l.startswith("ANALYSIS-ERROR")][:2]}
        meta["checks_run"] = res; meta["caught_by"] = [c for c, v in res.items() if v["exit"] == 1]
        meta["applies_at_head"] = True; meta["rechecked_at_head"] = head
        json.dump(meta, open(f"{d}/meta.json", "w"), indent=1)
        return name, ",".join(meta["caught_by"]) or "MISSED", [c for c, v in res.items() if v["exit"] == 2]
    finally:
        shutil.rmtree(root, ignore_errors=True)
dirs = [os.path.dirname(p) for p in sorted(glob.glob("/verif/seeded/*/meta.json")) if not sel or os.path.basename(os.path.dirname(p)) in sel]
with ThreadPoolExecutor(max_workers=12) as ex:
    for name, verdict, errs in ex.map(one, dirs):
        print(f"{name:8s} {verdict}" + (f"   ANALYSIS-ERROR in {errs}" if errs else ""))
