#!/venv/bin/python
"""Behaviour-preserving edit used by the self-test (N3): the ORDER of definitions is changed.
  * inside every class, each maximal run of consecutive plain methods (no decorator other than classmethod / staticmethod) is reversed;
  * at module level, each maximal run of consecutive plain functions (no decorators) is reversed;
  * in every .sql file, a comment line is inserted before every CREATE statement and leading indentation is changed.
Python resolves methods and module functions by name at call time, so the order of such definitions inside a run cannot matter
(a run never crosses an assignment, a decorated definition, or any other statement).
usage: tools/reorder_defs.py <root with src/>   (rewrites files in place; prints the number of runs reversed)"""
import ast
import sys
from pathlib import Path

PLAIN_DECOS = {"classmethod", "staticmethod"}


def plain(n):
    if not isinstance(n, (ast.FunctionDef, ast.AsyncFunctionDef)):
        return False
    for d in n.decorator_list:
        if not (isinstance(d, ast.Name) and d.id in PLAIN_DECOS):
            return False
    return True


def reverse_runs(body, allow_decos):
    out, run, k = [], [], 0
    seen = set()
    for st in body + [None]:
        ok = st is not None and plain(st) and (allow_decos or not st.decorator_list) and st.name not in seen
        if ok:
            run.append(st)
            seen.add(st.name)
        else:
            if len(run) > 1:
                k += 1
                run.reverse()
            out.extend(run)
            run, seen = [], set()
            if st is not None:
                out.append(st)
    return out, k


def main(root):
    total = 0
    for p in sorted(Path(root, "src").rglob("*.py")):
        try:
            tree = ast.parse(p.read_text())
        except SyntaxError:
            continue
        k = 0
        tree.body, kk = reverse_runs(tree.body, allow_decos=False)
        k += kk
        for c in ast.walk(tree):
            if isinstance(c, ast.ClassDef):
                c.body, kk = reverse_runs(c.body, allow_decos=True)
                k += kk
        if k:
            p.write_text(ast.unparse(tree) + "\n")
            total += k
    for p in sorted(Path(root, "src").rglob("*.sql")):
        lines = p.read_text().splitlines()
        out = []
        for ln in lines:
            if ln.lstrip().upper().startswith("CREATE "):
                out.append("-- (definition follows)")
                total += 1
            out.append(("  " + ln) if ln.startswith((" ", "\t")) else ln)
        p.write_text("\n".join(out) + "\n")
    print(total)


if __name__ == "__main__":
    main(sys.argv[1])
