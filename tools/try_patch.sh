#!/bin/bash
# usage: tools/try_patch.sh <patch.diff> <PROP> [<PROP>...]
# Applies the patch to a scratch worktree of /repo HEAD (outside /repo and /verif), runs the named checks
# against it (VERIF_REPO), prints their verdicts, removes the worktree.  Never touches /repo.
set -u
patch="$1"; shift
wt=$(mktemp -d /tmp/seedtest.XXXXXX); rmdir "$wt"
git -C /repo worktree add -q --detach "$wt" HEAD || exit 3
ev=$(mktemp -d /tmp/seedev.XXXXXX)
if ! git -C "$wt" apply "$patch"; then echo "PATCH DOES NOT APPLY"; git -C /repo worktree remove --force "$wt"; rm -rf "$ev"; exit 3; fi
for p in "$@"; do
  out=$(cd /verif && VERIF_REPO="$wt" VERIF_EVIDENCE_DIR="$ev" /venv/bin/python -m sa.check "$p" --tier quick 2>&1 | grep -v condarc)
  rc=$?
  echo "== $p: $(echo "$out" | grep -c '^VIOLATION') violation(s), $(echo "$out" | grep -c '^ANALYSIS-ERROR') analysis-error(s)"
  echo "$out" | grep -B1 '^VIOLATION' | grep -v '^VIOLATION' | grep -v '^--' | sed "s|$wt/||" | head -8
  echo "$out" | grep '^ANALYSIS-ERROR' | head -3
done
git -C /repo worktree remove --force "$wt"; rm -rf "$ev"
