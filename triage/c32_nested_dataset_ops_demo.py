"""C32 triage (R32.5): dataset-level analytic / time_agg used as operands of another operator: raw TypeError / DuckDB ParserException
escape run().  Lines after "---- control" use the AST shape the parser produces (VarID inside clauses)."""
import sys, os, tempfile, traceback
sys.path.insert(0, "/verif/triage"); import vtlstub; vtlstub.install(os.environ.get("VTL_SRC", "/repo/src"))
os.environ.setdefault("VTL_TEMP_DIRECTORY", tempfile.mkdtemp(prefix="cn."))
import pandas as pd
from example_pipeline import run_ast, P
from vtlengine import AST
V=lambda n: AST.VarID(value=n, **P)
I=lambda n: AST.Identifier(value=n, kind="ComponentID", **P)
C=lambda v: AST.Constant(type_="INTEGER_CONSTANT", value=v, **P)
def comp(n,t,r,nl=True): return {"name": n, "type": t, "role": r, "nullable": nl}
st = {"datasets": [{"name": "DS_1", "DataStructure": [comp("Id_1","Integer","Identifier",False), comp("Id_2","Integer","Identifier",False), comp("Me_1","Number","Measure")]}]}
d1 = pd.DataFrame([(1,1,10.0),(1,2,-20.0),(2,1,-3.0)], columns=["Id_1","Id_2","Me_1"])
def run(expr, label, tb=False):
    ast=AST.Start(children=[AST.PersistentAssignment(left=V("DS_r"), op="<-", right=expr, **P)], **P)
    try:
        r=run_ast(ast, st, {"DS_1": d1})["DS_r"]
        print(label, "->", list(r.components), r.data.to_dict("records")[:3])
    except Exception as e:
        print(label, "FAIL", type(e).__module__+"."+type(e).__name__, str(e).splitlines()[0][:200])
        if tb: traceback.print_exc(limit=-6)
cmp_=lambda: AST.BinOp(left=V("DS_1"), op=">", right=C(0), **P)
chk=lambda: AST.Validation(op="check", validation=cmp_(), error_code=None, error_level=None, imbalance=None, invalid=False, **P)
flt=lambda ds: AST.RegularAggregation(op="filter", dataset=ds, children=[AST.BinOp(left=I("Id_1"), op="=", right=C(1), **P)], **P)
run(flt(chk()), "check(DS_1 > 0)[filter Id_1 = 1]", tb=True)
an=lambda: AST.Analytic(op="sum", operand=V("DS_1"), window=None, params=None, partition_by=["Id_1"], order_by=None, **P)
run(an(), "sum(DS_1 over (partition by Id_1))")
run(AST.UnaryOp(op="abs", operand=an(), **P), "abs(sum(DS_1 over (partition by Id_1)))", tb=True)
run(flt(an()), "sum(DS_1 over (partition by Id_1))[filter Id_1 = 1]")
print("---- time_agg")
st2 = {"datasets": [{"name": "DS_T", "DataStructure": [comp("Id_1","Integer","Identifier",False), comp("Me_T","Time_Period","Measure")]}]}
dT = pd.DataFrame([(1,"2020-M03"),(2,"2021-Q2")], columns=["Id_1","Me_T"])
def runT(expr, label, tb=False):
    ast=AST.Start(children=[AST.PersistentAssignment(left=V("DS_r"), op="<-", right=expr, **P)], **P)
    try:
        r=run_ast(ast, st2, {"DS_T": dT})["DS_r"]
        print(label, "->", list(r.components), r.data.to_dict("records")[:3])
    except Exception as e:
        print(label, "FAIL", type(e).__module__+"."+type(e).__name__, str(e).splitlines()[0][:200])
        if tb: traceback.print_exc(limit=-3)
ta=lambda: AST.TimeAggregation(op="time_agg", operand=V("DS_T"), period_to="A", period_from=None, conf=None, **P)
runT(ta(), "time_agg(\"A\", DS_T)")
runT(AST.RegularAggregation(op="filter", dataset=ta(), children=[AST.BinOp(left=I("Id_1"), op="=", right=C(1), **P)], **P), "time_agg(\"A\", DS_T)[filter Id_1 = 1]", tb=True)
runT(AST.BinOp(left=ta(), op="=", right=ta(), **P), "time_agg(..) = time_agg(..)", tb=True)
print("---- control")
run(flt(V("DS_1")), "DS_1[filter Id_1 = 1]")
flt2=lambda ds: AST.RegularAggregation(op="filter", dataset=ds, children=[AST.BinOp(left=V("Id_1"), op="=", right=C(1), **P)], **P)
run(flt2(V("DS_1")), "DS_1[filter Id_1 = 1] (VarID)")
run(flt2(chk()), "check(DS_1 > 0)[filter Id_1 = 1] (VarID)", tb=True)
run(flt2(an()), "sum(DS_1 over (partition by Id_1))[filter Id_1 = 1] (VarID)", tb=True)
runT(AST.RegularAggregation(op="filter", dataset=ta(), children=[AST.BinOp(left=V("Id_1"), op="=", right=C(1), **P)], **P), "time_agg(\"A\", DS_T)[filter Id_1 = 1] (VarID)", tb=True)
