"""sc_r <- exp(1000);  /  sc_r <- power(10, 400);  The value overflows to infinity; before the repair the rounding of the fetched scalar raised a raw
Python OverflowError out of run().  Exit 0 = a scalar is returned, 1 = not."""
import os, sys
os.environ.setdefault("VTL_TEMP_DIRECTORY", "/tmp/tri/tmpdir"); os.makedirs("/tmp/tri/tmpdir", exist_ok=True)
os.environ.setdefault("VTL_SRC","/repo/src")
sys.path.insert(0, "/root/vtlstub")
from example_pipeline import run_ast, P
from vtlengine import AST
def V(n): return AST.VarID(value=n, **P)
for lab, expr in (("exp(1000)", AST.UnaryOp(op="exp", operand=AST.Constant(type_="INTEGER_CONSTANT", value=1000, **P), **P)),
                  ("power(10, 400)", AST.BinOp(left=AST.Constant(type_="INTEGER_CONSTANT", value=10, **P), op="power", right=AST.Constant(type_="INTEGER_CONSTANT", value=400, **P), **P))):
    ast_=AST.Start(children=[AST.PersistentAssignment(left=V("sc_r"), op="<-", right=expr, **P)], **P)
    try:
        r=run_ast(ast_, {"datasets":[]}, {})
        print("OK", lab, r["sc_r"].value)
    except Exception as e:
        print("ERR", lab, type(e).__module__, type(e).__name__, str(e)[:200]); sys.exit(1)
