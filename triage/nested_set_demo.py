import sys, os
sys.path.insert(0,"/verif/triage"); import vtlstub; vtlstub.install(os.environ.get("VTL_SRC","/repo/src"))
sys.argv=['x']
import importlib.util
spec=importlib.util.spec_from_file_location("ex","/root/vtlstub/example_pipeline.py"); ex=importlib.util.module_from_spec(spec); spec.loader.exec_module(ex)
from vtlengine import AST; import pandas as pd
P=ex.P
V=lambda n: AST.VarID(value=n, **P)
inner=AST.MulOp(op="symdiff", children=[V("DS_1"),V("DS_2")], **P)
for outer in ("union","intersect","setdiff"):
    ast = AST.Start(children=[AST.PersistentAssignment(left=V("DS_r"), op="<-", right=AST.MulOp(op=outer, children=[inner, V("DS_3")], **P), **P)], **P)
    mk=lambda ids: pd.DataFrame({"Id_1":ids,"Me_1":[float(i) for i in ids]})
    try:
        res=ex.run_ast(ast, {"datasets":[ex.ds_struct(n) for n in ("DS_1","DS_2","DS_3")]}, {"DS_1":mk([1,2]),"DS_2":mk([2,3]),"DS_3":mk([3,4])})
        print(outer, sorted(res["DS_r"].data.Id_1.tolist()))
    except Exception as e: print(outer,"ERROR",type(e).__name__,str(e)[:120].replace("\n"," "))
