"""C24 triage: names the constructor stores WITHOUT their quotes and that prettify writes back unquoted (reserved words)."""
import sys, os
sys.path.insert(0,"/verif/triage"); import vtlstub; vtlstub.install(os.environ.get("VTL_SRC","/repo/src"))
from vtlengine import AST
from vtlengine.AST.ASTString import ASTString, RESERVED_WORDS
P=dict(line_start=1,column_start=0,line_stop=1,column_stop=0)
V=lambda n: AST.VarID(value=n, **P)
bad=0
def show(label, ast_, must_contain):
    global bad
    for pretty in (False, True):
        out=ASTString(pretty=pretty).render(AST.Start(children=[ast_], **P))
        ok = all(m in out for m in must_contain)
        bad += (not ok)
        print(("ok  " if ok else "FAIL"), label, "pretty" if pretty else "plain ", repr(out))
# DS_r := DS_1[rename 'date' to 'time'];   (constructor: RenameNode(old_name="date", new_name="time"))
show("rename", AST.Assignment(left=V("DS_r"), op=":=", right=AST.RegularAggregation(op="rename", dataset=V("DS_1"),
     children=[AST.RenameNode(old_name="date", new_name="time", **P)], **P), **P), ["'date'", "'time'"])
# define datapoint ruleset dpr (variable 'date' as d) is d > 0 end datapoint ruleset;
show("dpr signature", AST.DPRuleset(name="dpr", signature_type="variable", params=[AST.DPRIdentifier(value="date", kind="ComponentID", alias="d", **P)],
     rules=[AST.DPRule(name=None, rule=AST.HRBinOp(left=AST.DefIdentifier(value="d", kind="x", **P), op=">", right=AST.DefIdentifier(value="0", kind="x", **P), **P), erCode=None, erLevel=None, **P)], **P), ["'date'"])
# DS_r := check_datapoint(DS_1, dpr components 'date');
show("check_datapoint components", AST.Assignment(left=V("DS_r"), op=":=", right=AST.DPValidation(dataset=V("DS_1"), ruleset_name="dpr", components=["date"], output=None, **P), **P), ["'date'"])
# define viral propagation 'time' (variable 'value') is aggregate max end viral propagation;
show("viral propagation", AST.ViralPropagationDef(name="time", signature_type="variable", target="value", enumerated_clauses=[], aggregate_clause=AST.AggregateVpClause(function="max", **P), default_value=None, **P), ["'time'"])
# keywords of the current grammar missing from the reserved-word table
for kw in ("aggregate","propagation","string_distance","levenshtein","damerau_levenshtein","hamming","jaro_winkler"):
    out=ASTString().render(AST.Start(children=[AST.Assignment(left=V("DS_r"), op=":=", right=V(kw), **P)], **P))
    ok = f"'{kw}'" in out; bad += (not ok)
    print(("ok  " if ok else "FAIL"), "keyword name", repr(out), "in table:", kw in RESERVED_WORDS)
sys.exit(1 if bad else 0)
