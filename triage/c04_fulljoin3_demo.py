"""C04 triage: full_join of three datasets.  The ON clause of the third operand compares its key with ONE earlier alias
(the first that exposes the component), which is NULL for datapoints that came only from the second operand: such datapoints do not
match the third operand's datapoint with the same key and the key appears twice in the result."""
import sys, os, tempfile
sys.path.insert(0, "/verif/triage"); import vtlstub; vtlstub.install(os.environ.get("VTL_SRC", "/repo/src"))
os.environ.setdefault("VTL_TEMP_DIRECTORY", tempfile.mkdtemp(prefix="c04."))
import pandas as pd
from example_pipeline import run_ast, P
from vtlengine import AST
V=lambda n: AST.VarID(value=n, **P)
def ds(name, me): return {"name": name, "DataStructure": [
    {"name": "Id_1", "type": "Integer", "role": "Identifier", "nullable": False},
    {"name": me, "type": "Number", "role": "Measure", "nullable": True}]}
st={"datasets":[ds("DS_1","Me_1"), ds("DS_2","Me_2"), ds("DS_3","Me_3")]}
data={"DS_1": pd.DataFrame({"Id_1":[1],"Me_1":[10.0]}), "DS_2": pd.DataFrame({"Id_1":[2],"Me_2":[20.0]}), "DS_3": pd.DataFrame({"Id_1":[2],"Me_3":[30.0]})}
join=AST.JoinOp(op="full_join", clauses=[V("DS_1"),V("DS_2"),V("DS_3")], using=None, nvl=None, isLast=True, **P)
ast=AST.Start(children=[AST.PersistentAssignment(left=V("DS_r"), op="<-", right=join, **P)], **P)
out=run_ast(ast, st, data)["DS_r"].data
rows=sorted(map(tuple, out[["Id_1","Me_1","Me_2","Me_3"]].astype(object).where(out.notna(), None).itertuples(index=False)), key=str)
print(rows)
ids=[r[0] for r in rows]
ok = sorted(ids)==[1,2]
print("PASS" if ok else f"FAIL: full_join(DS_1, DS_2, DS_3) returns identifier values {ids}; the relational full join on Id_1 has exactly one datapoint per key (1 and 2), with Me_2=20 and Me_3=30 together for key 2")
sys.exit(0 if ok else 1)
