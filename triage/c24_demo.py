"""C24 triage: prettify renderings that change a literal (hand-built AST = what the parser builds for the quoted script)."""
import sys, os
sys.path.insert(0,"/verif/triage"); import vtlstub; vtlstub.install(os.environ.get("VTL_SRC","/repo/src"))
from vtlengine import AST
from vtlengine.AST.ASTString import ASTString, _handle_literal
P=dict(line_start=1,column_start=0,line_stop=1,column_stop=0)
V=lambda n: AST.VarID(value=n, **P)
C=lambda t,v: AST.Constant(type_=t, value=v, **P)
print("number constants:")
for v in (0.12345678, 725.8526, 1234567.5, 0.00001, 3.0):
    try: print("  ", repr(v), "->", _handle_literal(v))
    except Exception as e: print("  ", repr(v), "->", type(e).__name__, e)
# DS_r := DS_1[filter Me_1 = "salt and pepper"];
ast=AST.Start(children=[AST.Assignment(left=V("DS_r"), op=":=", right=AST.RegularAggregation(op="filter", dataset=V("DS_1"),
      children=[AST.BinOp(left=V("Me_1"), op="=", right=C("STRING_CONSTANT","salt and pepper"), **P)], **P), **P)], **P)
print("plain :", repr(ASTString(pretty=False).render(ast)))
print("pretty:", repr(ASTString(pretty=True).render(ast)))
# define operator tag(x string) returns string is x || "(a)" end operator;
from vtlengine.DataTypes import String
op=AST.Operator(op="tag", parameters=[AST.Argument(name="x", type_=String, default=None, **P)], output_type="String",
                expression=AST.BinOp(left=V("x"), op="||", right=C("STRING_CONSTANT","(a)"), **P), **P)
print("plain :", repr(ASTString(pretty=False).render(AST.Start(children=[op], **P))))
print("pretty:", repr(ASTString(pretty=True).render(AST.Start(children=[op], **P))))
# names that need quotes but are not reserved words:  DS_r := 'my ds';
ast=AST.Start(children=[AST.Assignment(left=V("DS_r"), op=":=", right=V("my ds"), **P)], **P)
print("name  :", repr(ASTString(pretty=False).render(ast)))
