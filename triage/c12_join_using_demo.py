"""C12 triage: Join.merge_components rewrites the role of a `using` key on the OPERAND's component (comp.role = …): after
inner_join(DS_1, DS_2 using K) - K a measure in DS_1, the identifier of DS_2 - the stored structure of DS_2 has K as a measure, and a
later statement that reads DS_2 is analysed against that edited structure.  The outcome of the second statement depends on whether the
first one is in the script."""
import sys, os, tempfile
sys.path.insert(0, "/verif/triage"); import vtlstub; vtlstub.install(os.environ.get("VTL_SRC", "/repo/src"))
os.environ.setdefault("VTL_TEMP_DIRECTORY", tempfile.mkdtemp(prefix="c12j."))
import pandas as pd
from example_pipeline import run_ast, P
from vtlengine import AST
V=lambda n: AST.VarID(value=n, **P)
def comp(n,t,r,nl=True): return {"name": n, "type": t, "role": r, "nullable": nl}
st = {"datasets": [
 {"name": "DS_1", "DataStructure": [comp("Id_1","Integer","Identifier",False), comp("K","Integer","Measure"), comp("Me_1","Number","Measure")]},
 {"name": "DS_2", "DataStructure": [comp("K","Integer","Identifier",False), comp("Me_2","Number","Measure")]},
 {"name": "DS_4", "DataStructure": [comp("K","Integer","Identifier",False), comp("Me_4","Number","Measure")]}]}
dp={"DS_1": pd.DataFrame({"Id_1":[1,2],"K":[10,20],"Me_1":[1.0,2.0]}), "DS_2": pd.DataFrame({"K":[10,20],"Me_2":[5.0,6.0]}), "DS_4": pd.DataFrame({"K":[10,30],"Me_4":[7.0,8.0]})}
j1=lambda: AST.JoinOp(op="inner_join", clauses=[V("DS_1"), V("DS_2")], using=["K"], nvl=None, isLast=True, **P)
j2=lambda: AST.JoinOp(op="full_join", clauses=[V("DS_2"), V("DS_4")], using=None, nvl=None, isLast=True, **P)
def run(stmts, label):
    ast=AST.Start(children=[AST.PersistentAssignment(left=V(n), op="<-", right=e, **P) for n,e in stmts], **P)
    try:
        r=run_ast(ast, st, dp); print(label, "->", {k: sorted(v.components) for k,v in r.items()}); return True
    except Exception as e:
        print(label, "FAIL", type(e).__module__+"."+type(e).__name__, str(e).splitlines()[0][:200]); return False
a=run([("B", j2())], "B <- full_join(DS_2, DS_4) alone")
b=run([("A", j1()), ("B", j2())], "A <- inner_join(DS_1, DS_2 using K); B <- full_join(DS_2, DS_4)")
sys.exit(0 if a==b else 1)
