import sys, os
sys.path.insert(0,"/verif/triage"); import vtlstub; vtlstub.install(os.environ.get("VTL_SRC","/repo/src"))
import duckdb
from vtlengine.duckdb_transpiler.sql import initialize_time_types
c=duckdb.connect(); initialize_time_types(c)
for p,n in [("2020-W53",0),("2020-W52",1),("2020-D366",0),("2020-D365",1),("2021-W01",-1),("2021-D001",-1),("2020-M12",1)]:
    print(p,n,"->",c.execute(f"select vtl_tp_shift(vtl_period_parse('{p}'), {n})").fetchone()[0])
