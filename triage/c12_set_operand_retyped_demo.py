"""DS_a <- union(DS_1, DS_2); DS_b <- DS_1;  with DS_1.Me_1 Integer not nullable and DS_2.Me_1 Number nullable: before the repair Set.validate wrote the
promoted type and nullability into DS_1's own Component objects, so DS_b was declared Number / nullable in both statement orders.  Exit 0 = DS_b keeps
DS_1's declared structure, 1 = not."""
import os, sys, copy
os.environ.setdefault("VTL_TEMP_DIRECTORY", "/tmp/tri/tmpdir"); os.makedirs("/tmp/tri/tmpdir", exist_ok=True)
os.environ.setdefault("VTL_SRC","/repo/src")
sys.path.insert(0, "/root/vtlstub")
from example_pipeline import run_ast, P
import pandas as pd
from vtlengine import AST
def V(n): return AST.VarID(value=n, **P)
def st(n, mt, nl): return {"name":n,"DataStructure":[{"name":"Id_1","type":"Integer","role":"Identifier","nullable":False},{"name":"Me_1","type":mt,"role":"Measure","nullable":nl}]}
S={"datasets":[st("DS_1","Integer",False), st("DS_2","Number",True)]}
d1=pd.DataFrame({"Id_1":[1,2],"Me_1":[1,2]}); d2=pd.DataFrame({"Id_1":[3,4],"Me_1":[2.5,None]})
un=lambda: AST.PersistentAssignment(left=V("DS_a"), op="<-", right=AST.MulOp(op="union", children=[V("DS_1"), V("DS_2")], **P), **P)
cp=lambda: AST.PersistentAssignment(left=V("DS_b"), op="<-", right=V("DS_1"), **P)
for lab, kids in (("union first", [un(), cp()]), ("copy first", [cp(), un()])):
    r=run_ast(AST.Start(children=kids, **P), S, {"DS_1": d1.copy(), "DS_2": d2.copy()})
    c=r["DS_b"].components["Me_1"]; print(lab, "DS_b.Me_1:", c.data_type.__name__, "nullable", c.nullable)
    if (c.data_type.__name__, c.nullable) != ("Integer", False):
        sys.exit(1)
