import sys, os, copy
sys.path.insert(0,"/verif/triage"); import vtlstub; vtlstub.install(os.environ.get("VTL_SRC","/repo/src"))
sys.argv=['x']
import importlib.util
spec=importlib.util.spec_from_file_location("ex","/root/vtlstub/example_pipeline.py"); ex=importlib.util.module_from_spec(spec); spec.loader.exec_module(ex)
from vtlengine import AST; import pandas as pd
from vtlengine.API._InternalApi import load_datasets
from vtlengine.Interpreter import InterpreterAnalyzer
P=ex.P
V=lambda n: AST.VarID(value=n, **P)
C=lambda t,v: AST.Constant(type_=t, value=v, **P)
st={"datasets":[{"name":"DS_1","DataStructure":[{"name":"Id_1","type":"Integer","role":"Identifier","nullable":False},{"name":"Me_1","type":"Time_Period","role":"Measure","nullable":True}]}]}
ast=AST.Start(children=[AST.PersistentAssignment(left=V("DS_r"), op="<-", right=AST.ParamOp(op="dateadd", children=[V("DS_1")], params=[C("INTEGER_CONSTANT",1), C("STRING_CONSTANT","M")], **P), **P)], **P)
ds, sc = load_datasets(st)
sem = InterpreterAnalyzer(datasets=copy.deepcopy(ds), value_domains=None, external_routines=None, scalars=copy.deepcopy(sc)).visit(copy.deepcopy(ast))
print("semantic_analysis:", {k: c.data_type.__name__ for k, c in sem["DS_r"].components.items()})
r=ex.run_ast(ast, st, {"DS_1": pd.DataFrame({"Id_1":[1],"Me_1":["2020-M01"]})})
print("run():            ", {k: c.data_type.__name__ for k, c in r["DS_r"].components.items()}, r["DS_r"].data.to_dict("records"))
# Null scalar: sc_r <- nvl(null, 3)
ast2=AST.Start(children=[AST.PersistentAssignment(left=V("sc_r"), op="<-", right=AST.BinOp(left=C("NULL_CONSTANT",None), op="nvl", right=C("INTEGER_CONSTANT",3), **P), **P)], **P)
sem2 = InterpreterAnalyzer(datasets={}, value_domains=None, external_routines=None, scalars={}).visit(copy.deepcopy(ast2))
print("semantic_analysis scalar:", sem2["sc_r"].data_type.__name__)
r2=ex.run_ast(ast2, {"datasets":[]}, {})
print("run() scalar:            ", r2["sc_r"].data_type.__name__, r2["sc_r"].value)
# calc variant
ast3=AST.Start(children=[AST.PersistentAssignment(left=V("DS_r"), op="<-", right=AST.RegularAggregation(op="calc", dataset=V("DS_1"), children=[AST.UnaryOp(op="measure", operand=AST.Assignment(left=V("Me_1"), op=":=", right=AST.ParamOp(op="dateadd", children=[V("Me_1")], params=[C("INTEGER_CONSTANT",1), C("STRING_CONSTANT","M")], **P), **P), **P)], **P), **P)], **P)
try:
    sem3 = InterpreterAnalyzer(datasets=copy.deepcopy(ds), value_domains=None, external_routines=None, scalars={}).visit(copy.deepcopy(ast3))
    print("semantic_analysis calc:", {k: c.data_type.__name__ for k, c in sem3["DS_r"].components.items()})
    r3=ex.run_ast(ast3, st, {"DS_1": pd.DataFrame({"Id_1":[1],"Me_1":["2020-M01"]})})
    print("run() calc:            ", {k: c.data_type.__name__ for k, c in r3["DS_r"].components.items()}, r3["DS_r"].data.to_dict("records"))
except Exception as e:
    import traceback; traceback.print_exc()
