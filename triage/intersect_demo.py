import sys, os
sys.path.insert(0,"/verif/triage"); import vtlstub; vtlstub.install(os.environ.get("VTL_SRC","/repo/src"))
sys.argv=['x']
import importlib.util
spec=importlib.util.spec_from_file_location("ex","/root/vtlstub/example_pipeline.py"); ex=importlib.util.module_from_spec(spec); spec.loader.exec_module(ex)
from vtlengine import AST; import pandas as pd
P=ex.P
ast = AST.Start(children=[AST.PersistentAssignment(left=AST.VarID(value="DS_r", **P), op="<-", right=AST.MulOp(op="intersect", children=[AST.VarID(value=n, **P) for n in ("DS_1","DS_2","DS_3")], **P), **P)], **P)
mk=lambda ids: pd.DataFrame({"Id_1":ids,"Me_1":[float(i) for i in ids]})
res=ex.run_ast(ast, {"datasets":[ex.ds_struct(n) for n in ("DS_1","DS_2","DS_3")]}, {"DS_1":mk([1,2,3]),"DS_2":mk([2,3,4]),"DS_3":mk([3,5])})
print(sorted(res["DS_r"].data.Id_1.tolist()))
