"""count(DS_1 over (partition by Id_1)) on a dataset with TWO measures: semantic analysis declares Me_1 and Me_2 (Integer); before the
repair run() returned the identifiers only (every measure was aliased int_var; the fetch projects the declared components).
Exit 0 = the declared measures are returned, 1 = not.   VTL_SRC=/path/to/src selects the tree."""
import os, sys
os.environ.setdefault("VTL_TEMP_DIRECTORY", "/tmp/tri/tmpdir"); os.makedirs(os.environ["VTL_TEMP_DIRECTORY"], exist_ok=True)
os.environ.setdefault("VTL_SRC", "/repo/src")
sys.path.insert(0, "/root/vtlstub")
from example_pipeline import run_ast, P  # noqa: E402
import pandas as pd  # noqa: E402
from vtlengine import AST  # noqa: E402


def V(n):
    return AST.VarID(value=n, **P)


an = AST.Analytic(op="count", operand=V("DS_1"), window=None, params=None, partition_by=["Id_1"], order_by=None, **P)
ast_ = AST.Start(children=[AST.PersistentAssignment(left=V("DS_r"), op="<-", right=an, **P)], **P)
S = {"datasets": [{"name": "DS_1", "DataStructure": [{"name": "Id_1", "type": "Integer", "role": "Identifier", "nullable": False},
                                                     {"name": "Id_2", "type": "Integer", "role": "Identifier", "nullable": False},
                                                     {"name": "Me_1", "type": "String", "role": "Measure", "nullable": True},
                                                     {"name": "Me_2", "type": "Number", "role": "Measure", "nullable": True}]}]}
d = pd.DataFrame({"Id_1": [1, 1, 2], "Id_2": [1, 2, 1], "Me_1": ["x", "y", "z"], "Me_2": [1.5, 2.25, 3.75]})
r = run_ast(ast_, S, {"DS_1": d})["DS_r"]
declared = list(r.components)
print("declared:", declared, "returned:", list(r.data.columns))
sys.exit(0 if sorted(declared) == sorted(r.data.columns) and list(r.data["Me_1"]) == [2, 2, 1] else 1)
