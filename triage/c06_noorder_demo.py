"""C06/C15 triage: analytic with a partition but NO order by.  The AST constructor inserts the default window
(data points between unbounded preceding and current data point) whenever partition_by or order_by is present, so
`sum(DS_1 over (partition by Id_1))` is transpiled with a ROWS frame and no ORDER BY: the result follows physical row order."""
import sys, os, tempfile
sys.path.insert(0, "/verif/triage"); import vtlstub; vtlstub.install(os.environ.get("VTL_SRC", "/repo/src"))
os.environ.setdefault("VTL_TEMP_DIRECTORY", tempfile.mkdtemp(prefix="c06."))
import pandas as pd
from example_pipeline import run_ast, P
from vtlengine import AST
def script(order_by):
    win = AST.Windowing(type_="data", start=-1, stop=0, start_mode="preceding", stop_mode="current", **P)  # what the constructor inserts
    an = AST.Analytic(op="sum", operand=AST.VarID(value="DS_1", **P), partition_by=["Id_1"], partition_op=None, order_by=order_by, window=win, params=None, **P)
    return AST.Start(children=[AST.PersistentAssignment(left=AST.VarID(value="DS_r", **P), op="<-", right=an, **P)], **P)
st = {"datasets": [{"name": "DS_1", "DataStructure": [
    {"name": "Id_1", "type": "Integer", "role": "Identifier", "nullable": False},
    {"name": "Id_2", "type": "Integer", "role": "Identifier", "nullable": False},
    {"name": "Me_1", "type": "Number", "role": "Measure", "nullable": True}]}]}
rows = [(1, 1, 10.0), (1, 2, 20.0), (1, 3, 30.0), (2, 1, 1.0), (2, 2, 2.0)]
def run(rs):
    df = pd.DataFrame(rs, columns=["Id_1", "Id_2", "Me_1"])
    out = run_ast(script(None), st, {"DS_1": df})["DS_r"].data
    return sorted(map(tuple, out[["Id_1", "Id_2", "Me_1"]].itertuples(index=False)))
a = run(rows); b = run(list(reversed(rows)))
print("rows as given :", a); print("rows reversed :", b)
print("PASS" if a == b else "FAIL: sum(DS_1 over (partition by Id_1)) depends on the order of the input rows")
sys.exit(0 if a == b else 1)
