import sys, os
sys.path.insert(0,"/verif/triage"); import vtlstub; vtlstub.install(os.environ.get("VTL_SRC","/repo/src"))
sys.argv=['x']
import importlib.util
spec=importlib.util.spec_from_file_location("ex","/root/vtlstub/example_pipeline.py"); ex=importlib.util.module_from_spec(spec); spec.loader.exec_module(ex)
from vtlengine import AST; import pandas as pd
from vtlengine.Exceptions import VTLEngineException
P=ex.P
V=lambda n: AST.VarID(value=n, **P)
def attempt(label, ast, st, data, **kw):
    try:
        r=ex.run_ast(ast, st, data, **kw); print(label, "OK", {k:(v.data.to_dict('records') if hasattr(v,'data') and v.data is not None else getattr(v,'value',None)) for k,v in r.items()})
    except VTLEngineException as e: print(label, "VTL error", type(e).__name__, e.args[-1] if e.args else '')
    except Exception as e: print(label, "RAW", type(e).__module__+"."+type(e).__name__, str(e)[:100].replace("\n"," "))
ast = AST.Start(children=[AST.PersistentAssignment(left=V("DS_r"), op="<-", right=AST.UnaryOp(op="sqrt", operand=V("DS_1"), **P), **P)], **P)
attempt("sqrt(-4)", ast, {"datasets":[ex.ds_struct("DS_1")]}, {"DS_1": pd.DataFrame({"Id_1":[1],"Me_1":[-4.0]})})
tp={"name":"DS_1","DataStructure":[{"name":"Id_1","type":"Integer","role":"Identifier","nullable":False},{"name":"Me_1","type":"Time_Period","role":"Measure","nullable":True}]}
ast2 = AST.Start(children=[AST.PersistentAssignment(left=V("DS_r"), op="<-", right=V("DS_1"), **P)], **P)
attempt("sdmx_gregorian Q", ast2, {"datasets":[tp]}, {"DS_1": pd.DataFrame({"Id_1":[1],"Me_1":["2020-Q1"]})}, time_period_output_format="sdmx_gregorian")
