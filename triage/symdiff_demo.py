import sys, os
sys.path.insert(0,"/verif/triage"); import vtlstub; vtlstub.install(os.environ.get("VTL_SRC","/repo/src"))
sys.argv=['x']
import importlib.util
spec=importlib.util.spec_from_file_location("ex","/root/vtlstub/example_pipeline.py"); ex=importlib.util.module_from_spec(spec); spec.loader.exec_module(ex)
from vtlengine import AST; import pandas as pd
P=ex.P
def st(name, order):
    comps=[{"name":"Id_1","type":"Integer","role":"Identifier","nullable":False}]+[{"name":m,"type":"Number","role":"Measure","nullable":True} for m in order]
    return {"name":name,"DataStructure":comps}
for op in ("symdiff","union","setdiff","intersect"):
    ast = AST.Start(children=[AST.PersistentAssignment(left=AST.VarID(value="DS_r", **P), op="<-", right=AST.MulOp(op=op, children=[AST.VarID(value=n, **P) for n in ("DS_1","DS_2")], **P), **P)], **P)
    d1=pd.DataFrame({"Id_1":[1,2],"Me_1":[10.0,20.0],"Me_2":[1.0,2.0]})
    d2=pd.DataFrame({"Id_1":[2,3],"Me_2":[3.0,4.0],"Me_1":[30.0,40.0]})
    try:
        res=ex.run_ast(ast, {"datasets":[st("DS_1",["Me_1","Me_2"]),st("DS_2",["Me_2","Me_1"])]}, {"DS_1":d1,"DS_2":d2})
        print(op, res["DS_r"].data.sort_values("Id_1").to_dict("records"))
    except Exception as e: print(op,"ERROR",type(e).__name__,str(e)[:150])
