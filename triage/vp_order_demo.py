"""Triage: enumerated viral rule folded over a group of 3 datapoints depends on input row order.
rule: when "A" and "B" then "X"; when "X" and "C" then "Y"; else "D"
group values {A,B,C}: order A,B,C -> fold(fold(A,B)=X, C)=Y ; order A,C,B -> fold(fold(A,C)=D, B)=D"""
import copy, os, sys, tempfile, itertools
os.environ.setdefault("VTL_TEMP_DIRECTORY", tempfile.mkdtemp(prefix="vpo_", dir="/tmp"))
sys.path.insert(0, "/root/vtlstub"); import vtlstub; vtlstub.install(os.environ.get("VTL_SRC", "/repo/src"))
sys.argv=['x']
import importlib.util
spec=importlib.util.spec_from_file_location("ex","/root/vtlstub/example_pipeline.py"); ex=importlib.util.module_from_spec(spec); spec.loader.exec_module(ex)
import pandas as pd
from vtlengine import AST
P=ex.P
V=lambda n: AST.VarID(value=n, **P)
rule=AST.ViralPropagationDef(name="vp_at", signature_type="variable", target="At_1",
    enumerated_clauses=[AST.EnumeratedVpClause(name=None, values=["A","B"], result="X", **P), AST.EnumeratedVpClause(name=None, values=["X","C"], result="Y", **P)],
    aggregate_clause=None, default_value="D", **P)
ast=AST.Start(children=[rule, AST.PersistentAssignment(left=V("DS_g"), op="<-", right=AST.Aggregation(op="sum", operand=V("DS_3"), grouping_op="group by",
      grouping=[AST.Identifier(value="Id_1", kind="ComponentID", **P)], **P), **P)], **P)
st={"datasets":[{"name":"DS_3","DataStructure":[{"name":"Id_1","type":"Integer","role":"Identifier","nullable":False},{"name":"Id_2","type":"Integer","role":"Identifier","nullable":False},
    {"name":"Me_1","type":"Number","role":"Measure","nullable":True},{"name":"At_1","type":"String","role":"ViralAttribute","nullable":True}]}]}
rows=[(1,1,1.0,"A"),(1,2,1.0,"B"),(1,3,1.0,"C")]
seen={}
for perm in itertools.permutations(rows):
    df=pd.DataFrame(list(perm), columns=["Id_1","Id_2","Me_1","At_1"])
    r=ex.run_ast(copy.deepcopy(ast), st, {"DS_3":df})
    seen[tuple(x[3] for x in perm)]=r["DS_g"].data["At_1"].tolist()[0]
for k,v in seen.items(): print(k,"->",v)
sys.exit(0 if len(set(seen.values()))==1 else 1)
