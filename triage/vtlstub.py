"""Sandbox helper: the compiled C++ VTL parser is not built here, so `import vtlengine` fails.
Importing this module first installs a stub for the extension so the rest of the package
(imported from $VTL_SRC or the given src dir) works.  VTL *text* cannot be parsed; build ASTs by
hand from vtlengine.AST dataclasses (all need line_start/line_stop/column_start/column_stop).

usage:
    import sys; sys.path.insert(0, "/root/vtlstub"); import vtlstub; vtlstub.install("/path/to/worktree/src")
    import vtlengine
"""
import os, sys, types

def install(src=None):
    src = src or os.environ.get("VTL_SRC")
    if src:
        sys.path.insert(0, src)
    name = "vtlengine.AST.Grammar._cpp_parser.vtl_cpp_parser"
    m = types.ModuleType(name)
    class ParseNode: pass
    class TerminalNode: pass
    m.ParseNode = ParseNode; m.TerminalNode = TerminalNode
    def _no(*a, **k): raise RuntimeError("C++ parser not available in this sandbox")
    m.parse = _no; m.get_syntax_error = lambda *a, **k: None
    m.get_comments = lambda *a, **k: []; m.get_input_text = lambda *a, **k: ""
    m.__getattr__ = lambda n: 0
    sys.modules[name] = m
    os.environ.setdefault("VTL_TEMP_DIRECTORY", "/tmp")
