"""C28 triage: viral attributes through NESTED dataset-dataset operators.  (DS_1 + DS_2) + DS_3 with an aggregate rule `max` for
VAt_1: the StructureVisitor's intermediate structure of (DS_1 + DS_2) has no viral attribute (_build_ds_ds_binop_structure keeps
identifiers and common measures only), so the outer operator does not combine / carry VAt_1 of the inner result.
usage: /venv/bin/python triage/c28_nested_binop_viral_demo.py   (VTL_SRC=/path/to/src to try another tree)"""
import sys, os, tempfile
sys.path.insert(0, "/verif/triage"); import vtlstub; vtlstub.install(os.environ.get("VTL_SRC", "/repo/src"))
os.environ.setdefault("VTL_TEMP_DIRECTORY", tempfile.mkdtemp(prefix="c28n."))
import pandas as pd
from example_pipeline import run_ast, P
from vtlengine import AST
V = lambda n: AST.VarID(value=n, **P)
def ds(name, viral=True): return {"name": name, "DataStructure": [
    {"name": "Id_1", "type": "Integer", "role": "Identifier", "nullable": False},
    {"name": "Me_1", "type": "Number", "role": "Measure", "nullable": True}] + ([
    {"name": "VAt_1", "type": "Number", "role": "Viral Attribute", "nullable": True}] if viral else [])}
rule = AST.ViralPropagationDef(name="r", signature_type="variable", target="VAt_1", enumerated_clauses=[], aggregate_clause=AST.AggregateVpClause(function="max", **P), default_value=None, **P)
plus = lambda a, b: AST.BinOp(left=a, op="+", right=b, **P)
bad = 0
def case(label, tree, st, data, want):
    global bad
    ast = AST.Start(children=[rule, AST.PersistentAssignment(left=V("DS_r"), op="<-", right=tree, **P)], **P)
    try:
        r = run_ast(ast, st, data)["DS_r"]
        got = r.data["VAt_1"].tolist() if "VAt_1" in r.data.columns else f"no VAt_1 column (columns {list(r.data.columns)})"
    except Exception as e:
        got = f"{type(e).__name__}: {str(e)[:90]}"
    ok = got == want
    bad += not ok
    print(("ok   " if ok else "WRONG"), label, "-> VAt_1 =", got, "| expected", want)
d = lambda v: pd.DataFrame({"Id_1": [1], "Me_1": [1.0], "VAt_1": [v]})
d0 = pd.DataFrame({"Id_1": [1], "Me_1": [1.0]})
st3 = {"datasets": [ds("DS_1"), ds("DS_2"), ds("DS_3")]}
case("DS_1 + DS_2                     (max of 5, 2)", plus(V("DS_1"), V("DS_2")), st3, {"DS_1": d(5.0), "DS_2": d(2.0), "DS_3": d(1.0)}, [5.0])
case("(DS_1 + DS_2) + DS_3            (max of 5, 2, 1)", plus(plus(V("DS_1"), V("DS_2")), V("DS_3")), st3, {"DS_1": d(5.0), "DS_2": d(2.0), "DS_3": d(1.0)}, [5.0])
case("DS_3 + (DS_1 + DS_2)            (max of 1, 5, 2)", plus(V("DS_3"), plus(V("DS_1"), V("DS_2"))), st3, {"DS_1": d(5.0), "DS_2": d(2.0), "DS_3": d(1.0)}, [5.0])
st3b = {"datasets": [ds("DS_1"), ds("DS_2"), ds("DS_3", viral=False)]}
case("(DS_1 + DS_2) + DS_3, DS_3 has no viral attribute (max of 5, 2)", plus(plus(V("DS_1"), V("DS_2")), V("DS_3")), st3b, {"DS_1": d(5.0), "DS_2": d(2.0), "DS_3": d0}, [5.0])
sys.exit(1 if bad else 0)
