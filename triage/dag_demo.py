import sys, os
sys.path.insert(0,"/verif/triage"); import vtlstub; vtlstub.install(os.environ.get("VTL_SRC","/repo/src"))
from vtlengine import AST
from vtlengine.AST.DAG import DAGAnalyzer
P=dict(line_start=1, column_start=1, line_stop=1, column_stop=1)
def script(persistent_scalar):
    # DS_r <- DS_1[calc Me_2 := Me_1 + sc];  sc (<-|:=) 3;
    calc=AST.RegularAggregation(op="calc", dataset=AST.VarID(value="DS_1",**P), children=[AST.UnaryOp(op="measure", operand=AST.Assignment(left=AST.Identifier(value="Me_2",kind="ComponentID",**P), op=":=", right=AST.BinOp(left=AST.VarID(value="Me_1",**P), op="+", right=AST.VarID(value="sc",**P),**P),**P),**P)],**P)
    s1=AST.PersistentAssignment(left=AST.VarID(value="DS_r",**P), op="<-", right=calc,**P)
    cls=AST.PersistentAssignment if persistent_scalar else AST.Assignment
    s2=cls(left=AST.VarID(value="sc",**P), op="<-" if persistent_scalar else ":=", right=AST.Constant(type_="INTEGER_CONSTANT", value=3,**P),**P)
    return AST.Start(children=[s1,s2],**P)
for pers in (False, True):
    ast=script(pers); DAGAnalyzer.create_dag(ast)
    print("sc", "<-" if pers else ":=", "order after sorting:", [c.left.value for c in ast.children])
