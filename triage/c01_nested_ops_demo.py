"""Nested dataset-level scalar operators on mono-measure datasets, through the real pipeline (hand-built ASTs):
  (DS_1 + DS_2) > 15              open finding  R01.13/intermediate-name/ds-ds/+        raw BinderException
  not(DS_1 > 1)                   open finding  R01.13/intermediate-name/ds-scalar/>    raw BinderException
  if DS_1 > 3 then DS_1 else DS_2 observed, no rule decides it                          raw ParserException (dataset condition vs scalar is generated as a SELECT inside CASE WHEN)
  isnull(DS_B), not(isnull(DS_B)) fixed 481fd0e (Boolean measure keeps its name)        measure column was missing
  sqrt(DS_1 - 20)                 known finding C32 R32.2/mapper-fallthrough            raw OutOfRangeException
Prints one line per script; exit 0 iff the fixed ones work (the open ones are expected to fail until repaired).  VTL_SRC selects the tree."""
import os, sys
os.environ.setdefault("VTL_TEMP_DIRECTORY", "/tmp/tri/tmpdir"); os.makedirs(os.environ["VTL_TEMP_DIRECTORY"], exist_ok=True)
os.environ.setdefault("VTL_SRC", "/repo/src")
sys.path.insert(0, "/root/vtlstub")
from example_pipeline import run_ast, P  # noqa: E402
import pandas as pd  # noqa: E402
from vtlengine import AST  # noqa: E402


def V(n):
    return AST.VarID(value=n, **P)


def C(v):
    return AST.Constant(type_="INTEGER_CONSTANT", value=v, **P)


def st(n, mt="Number"):
    return {"name": n, "DataStructure": [{"name": "Id_1", "type": "Integer", "role": "Identifier", "nullable": False}, {"name": "Me_1", "type": mt, "role": "Measure", "nullable": True}]}


d1 = pd.DataFrame({"Id_1": [1, 2, 3], "Me_1": [1.0, 10.0, None]})
d2 = pd.DataFrame({"Id_1": [1, 2, 3], "Me_1": [5.0, 10.0, 7.0]})
db = pd.DataFrame({"Id_1": [1, 2, 3], "Me_1": [True, None, False]})
cases = {
    "(DS_1 + DS_2) > 15": (AST.BinOp(left=AST.BinOp(left=V("DS_1"), op="+", right=V("DS_2"), **P), op=">", right=C(15), **P), [st("DS_1"), st("DS_2")], {"DS_1": d1, "DS_2": d2}, False),
    "not(DS_1 > 1)": (AST.UnaryOp(op="not", operand=AST.BinOp(left=V("DS_1"), op=">", right=C(1), **P), **P), [st("DS_1")], {"DS_1": d1}, False),
    "if DS_1 > 3 then DS_1 else DS_2": (AST.If(condition=AST.BinOp(left=V("DS_1"), op=">", right=C(3), **P), thenOp=V("DS_1"), elseOp=V("DS_2"), **P), [st("DS_1"), st("DS_2")], {"DS_1": d1, "DS_2": d2}, False),
    "isnull(DS_B)": (AST.UnaryOp(op="isnull", operand=V("DS_B"), **P), [st("DS_B", "Boolean")], {"DS_B": db}, True),
    "not(isnull(DS_B))": (AST.UnaryOp(op="not", operand=AST.UnaryOp(op="isnull", operand=V("DS_B"), **P), **P), [st("DS_B", "Boolean")], {"DS_B": db}, True),
    "sqrt(DS_1 - 20)": (AST.UnaryOp(op="sqrt", operand=AST.BinOp(left=V("DS_1"), op="-", right=C(20), **P), **P), [st("DS_1")], {"DS_1": d1}, False),
}
bad = 0
for lab, (expr, sts, data, must_work) in cases.items():
    ast_ = AST.Start(children=[AST.PersistentAssignment(left=V("DS_r"), op="<-", right=expr, **P)], **P)
    try:
        r = run_ast(ast_, {"datasets": sts}, data)["DS_r"]
        ok = sorted(r.components) == sorted(r.data.columns)
        print("OK " if ok else "BAD", lab, list(r.components), r.data.to_dict("records"))
        bad += must_work and not ok
    except Exception as e:  # noqa: BLE001
        print("ERR", lab, type(e).__module__, type(e).__name__, str(e)[:140].replace("\n", " "))
        bad += must_work
sys.exit(1 if bad else 0)
