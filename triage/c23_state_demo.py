"""C23 triage: the AST constructor keeps hierarchical-ruleset signatures in a process-global dict that is never cleared, so the
AST built for a text depends on texts parsed earlier in the same process.
The C++ parser cannot run here: parse-tree nodes are hand-made (stub ParseNode/TerminalNode classes), the two sub-visitors that
would need deep trees are replaced by their obvious results; the functions under test (visitDefHierarchical, visitStart,
visitHierarchyFunctions) are the real ones."""
import sys, os
sys.path.insert(0, "/verif/triage"); import vtlstub; vtlstub.install(os.environ.get("VTL_SRC", "/repo/src"))
import vtlengine
from vtlengine.AST import ASTConstructor as C
from vtlengine.AST.ASTConstructorModules import Expr as E
from vtlengine.AST.Grammar._cpp_parser import vtl_cpp_parser as cpp
from vtlengine import AST

class T(cpp.TerminalNode):
    def __init__(self, text): self.text=text; self.is_terminal=True; self.line=1; self.column=0; self.symbol_type=0
class N(cpp.ParseNode):
    def __init__(self, children, rule_index=-1, ctx_id=-1):
        self.children=children; self.is_terminal=False; self.rule_index=rule_index; self.ctx_id=ctx_id
        self.start_line=self.stop_line=1; self.start_column=self.stop_column=0; self.stop_text=""; self.text="".join(getattr(c,"text","") for c in children)
P=dict(line_start=1,column_start=0,line_stop=1,column_stop=0)
RC = E.RC
V = C.ASTVisitor()
# --- "parse" of script A:  define hierarchical ruleset HR1 (variable rule Me_1) is A = B + C end hierarchical ruleset;
V.visitHierRuleSignature = lambda ctx: ("variable", AST.DefIdentifier(value="Me_1", kind="DatasetID", **P))
V.visitRuleClauseHierarchical = lambda ctx: ["<rule>"]
defctx = N([T("define"), T("hierarchical"), T("ruleset"), N([T("HR1")]), T("("), N([]), T(")"), T("is"), N([]), T("end"), T("hierarchical"), T("ruleset")])
def parse_A():
    start = N([N([defctx], rule_index=RC.STATEMENT[0])])
    V.visitStatement = lambda st: V.visitDefHierarchical(st.children[0])
    return V.visitStart(start)
# --- "parse" of script B (another text, no definition):  DS_r := hierarchy(DS_1, HR1);
def parse_B():
    ex = E.Expr()
    ex.visitExpr = lambda ctx: AST.VarID(value="DS_1", **P)
    hctx = N([T("hierarchy"), T("("), N([T("DS_1")], rule_index=RC.EXPR[0]), T(","), T("HR1"), T(")")])
    start = N([N([hctx], rule_index=RC.STATEMENT[0])])
    V2 = C.ASTVisitor(); V2.visitStatement = lambda st: ex.visitHierarchyFunctions(st.children[0])
    return V2.visitStart(start).children[0]
b_fresh = parse_B()
print("B parsed first            : rule_component =", b_fresh.rule_component)
parse_A()
b_after = parse_B()
print("B parsed after script A   : rule_component =", b_after.rule_component)
same = (b_fresh.rule_component is None) == (b_after.rule_component is None)
print("PASS" if same else "FAIL: the AST of script B depends on script A having been parsed before it (state left by the earlier parse)")
sys.exit(0 if same else 1)
