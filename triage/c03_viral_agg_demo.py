"""C03 triage: the transpiler structure of an aggregation used as an operand dropped viral attributes: abs(sum(DS_1 group by Id_1))
returned no VAt_1 column although the result structure declares it.  Fixed (see known_findings.txt)."""
import sys, os, tempfile
sys.path.insert(0, "/verif/triage"); import vtlstub; vtlstub.install(os.environ.get("VTL_SRC", "/repo/src"))
os.environ.setdefault("VTL_TEMP_DIRECTORY", tempfile.mkdtemp(prefix="c03v."))
import pandas as pd
from example_pipeline import run_ast, P
from vtlengine import AST
V=lambda n: AST.VarID(value=n, **P)
def comp(n,t,r,nl=True): return {"name": n, "type": t, "role": r, "nullable": nl}
st = {"datasets": [{"name": "DS_1", "DataStructure": [comp("Id_1","Integer","Identifier",False), comp("Id_2","Integer","Identifier",False), comp("Me_1","Number","Measure"), comp("VAt_1","Number","Viral Attribute")]}]}
d1 = pd.DataFrame([(1,1,10.0,1.0),(1,2,-20.0,5.0),(2,1,-3.0,2.0)], columns=["Id_1","Id_2","Me_1","VAt_1"])
rule=AST.ViralPropagationDef(name="r", signature_type="variable", target="VAt_1", enumerated_clauses=[], aggregate_clause=AST.AggregateVpClause(function="max", **P), default_value=None, **P)
def run(expr, label):
    ast=AST.Start(children=[rule, AST.PersistentAssignment(left=V("DS_r"), op="<-", right=expr, **P)], **P)
    try:
        r=run_ast(ast, st, {"DS_1": d1})["DS_r"]; print(label, "->", {k:str(v.role.value) for k,v in r.components.items()}, "columns:", list(r.data.columns), r.data.to_dict("records"))
        return r
    except Exception as e:
        print(label, "FAIL", type(e).__module__+"."+type(e).__name__, str(e).splitlines()[0][:300])
agg=lambda: AST.Aggregation(op="sum", operand=V("DS_1"), grouping_op="group by", grouping=[AST.Identifier(value="Id_1", kind="ComponentID", **P)], having_clause=None, **P)
a=run(agg(), "sum(DS_1 group by Id_1)")
b=run(AST.UnaryOp(op="abs", operand=agg(), **P), "abs(sum(DS_1 group by Id_1))")
ok = b is not None and "VAt_1" in b.data.columns
print("OK" if ok else "BROKEN: the viral attribute that semantic analysis declares for the result is missing from the data")
sys.exit(0 if ok else 1)
