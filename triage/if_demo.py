import sys, os
sys.path.insert(0,"/verif/triage"); import vtlstub; vtlstub.install(os.environ.get("VTL_SRC","/repo/src"))
sys.argv=['x']
import importlib.util
spec=importlib.util.spec_from_file_location("ex","/root/vtlstub/example_pipeline.py"); ex=importlib.util.module_from_spec(spec); spec.loader.exec_module(ex)
from vtlengine import AST; import pandas as pd
P=ex.P
V=lambda n: AST.VarID(value=n, **P)
# DS_r <- if DS_c#Me_1 > 0 then DS_t else 5;
cond=AST.BinOp(left=AST.BinOp(left=V("DS_c"), op="#", right=AST.Identifier(value="Me_1", kind="ComponentID", **P), **P), op=">", right=AST.Constant(type_="INTEGER_CONSTANT", value=0, **P), **P)
for label, then, els in (("then=DS else=scalar", V("DS_t"), AST.Constant(type_="INTEGER_CONSTANT", value=5, **P)), ("then=scalar else=DS", AST.Constant(type_="INTEGER_CONSTANT", value=5, **P), V("DS_t"))):
    ast=AST.Start(children=[AST.PersistentAssignment(left=V("DS_r"), op="<-", right=AST.If(condition=cond, thenOp=then, elseOp=els, **P), **P)], **P)
    dc=pd.DataFrame({"Id_1":[1,2,3,4],"Me_1":[1.0,-1.0,None,None]})
    dt=pd.DataFrame({"Id_1":[1,2,3],"Me_1":[10.0,20.0,30.0]})   # id 4 has no partner
    try:
        r=ex.run_ast(ast, {"datasets":[ex.ds_struct("DS_c"),ex.ds_struct("DS_t")]}, {"DS_c":dc,"DS_t":dt})
        print(label, r["DS_r"].data.sort_values("Id_1").to_dict("records"))
    except Exception as e: print(label,"ERROR",type(e).__name__,str(e)[:200])
