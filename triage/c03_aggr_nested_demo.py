"""C03 triage: an aggr clause without a grouping clause takes its group identifiers from the statement's OUTPUT structure.
As soon as another operation follows the clause and changes the identifiers, the generated SQL groups by / selects columns
that the operand does not have:  DS_r <- DS_1[aggr Me_2 := sum(Me_1)][calc identifier Id_9 := 1];"""
import sys, os, tempfile
sys.path.insert(0, "/verif/triage"); import vtlstub; vtlstub.install(os.environ.get("VTL_SRC", "/repo/src"))
os.environ.setdefault("VTL_TEMP_DIRECTORY", tempfile.mkdtemp(prefix="c03."))
import pandas as pd
from example_pipeline import run_ast, P
from vtlengine import AST
from vtlengine.Model import Role
V=lambda n: AST.VarID(value=n, **P)
st = {"datasets": [{"name": "DS_1", "DataStructure": [
    {"name": "Id_1", "type": "Integer", "role": "Identifier", "nullable": False},
    {"name": "Id_2", "type": "Integer", "role": "Identifier", "nullable": False},
    {"name": "Me_1", "type": "Number", "role": "Measure", "nullable": True}]}]}
df = pd.DataFrame([(1,1,10.0),(1,2,20.0),(2,1,1.0)], columns=["Id_1","Id_2","Me_1"])
def aggr():
    agg=AST.Aggregation(op="sum", operand=V("Me_1"), grouping_op=None, grouping=None, having_clause=None, **P)
    left=AST.Identifier(value="Me_2", kind="ComponentID", **P); left.role=None
    return AST.RegularAggregation(op="aggr", dataset=V("DS_1"), children=[AST.Assignment(left=left, op=":=", right=agg, **P)], **P)
def run(expr):
    ast=AST.Start(children=[AST.PersistentAssignment(left=V("DS_r"), op="<-", right=expr, **P)], **P)
    r=run_ast(ast, st, {"DS_1": df})["DS_r"]; return list(r.components), r.data.to_dict("records")
print("alone :", run(aggr()))
left=AST.Identifier(value="Id_9", kind="ComponentID", **P); left.role=Role.IDENTIFIER
calc=AST.RegularAggregation(op="calc", dataset=aggr(), children=[AST.Assignment(left=left, op=":=", right=AST.Constant(type_="INTEGER_CONSTANT", value=1, **P), **P)], **P)
try:
    print("nested:", run(calc)); sys.exit(0)
except Exception as e:
    print("FAIL nested:", type(e).__module__+"."+type(e).__name__, str(e).splitlines()[0][:200]); sys.exit(1)
