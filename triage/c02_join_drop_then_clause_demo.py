"""C02 / C04 triage (reported in passing by a seed-writing sub-agent): a join whose body drops one of two same-named measures, followed by a clause
on the join result:   inner_join(DS_1 as d1, DS_2 as d2 drop d1#Me_1)[calc Me_1 := Me_1 * 2]   and   ...[keep Me_1]
usage: /venv/bin/python triage/c02_join_drop_then_clause_demo.py   (VTL_SRC=/path/to/src to try another tree)"""
import sys, os, tempfile
sys.path.insert(0, "/verif/triage"); import vtlstub; vtlstub.install(os.environ.get("VTL_SRC", "/repo/src"))
os.environ.setdefault("VTL_TEMP_DIRECTORY", tempfile.mkdtemp(prefix="c02j."))
sys.argv = ['x']
import pandas as pd
from example_pipeline import run_ast, P
from vtlengine import AST
from vtlengine.Exceptions import VTLEngineException
V = lambda n: AST.VarID(value=n, **P)
def comp(n, t, r, nl=True): return {"name": n, "type": t, "role": r, "nullable": nl}
st = {"datasets": [{"name": "DS_1", "DataStructure": [comp("Id_1", "Integer", "Identifier", False), comp("Me_1", "Number", "Measure")]},
                   {"name": "DS_2", "DataStructure": [comp("Id_1", "Integer", "Identifier", False), comp("Me_1", "Number", "Measure")]}]}
dp = {"DS_1": pd.DataFrame({"Id_1": [1, 2], "Me_1": [1.0, 2.0]}), "DS_2": pd.DataFrame({"Id_1": [1, 2], "Me_1": [10.0, 20.0]})}
def join_with_drop(last):
    j = AST.JoinOp(op="inner_join", clauses=[AST.BinOp(left=V("DS_1"), op="as", right=AST.Identifier(value="d1", kind="DatasetID", **P), **P),
                                             AST.BinOp(left=V("DS_2"), op="as", right=AST.Identifier(value="d2", kind="DatasetID", **P), **P)], using=None, nvl=None, isLast=False, **P)
    return AST.RegularAggregation(op="drop", dataset=j, children=[AST.VarID(value="d1#Me_1", **P)], isLast=last, **P)
calc = AST.RegularAggregation(op="calc", dataset=join_with_drop(True), isLast=False, children=[AST.Assignment(
    left=AST.Identifier(value="Me_1", kind="ComponentID", **P), op=":=", right=AST.BinOp(left=V("Me_1"), op="*", right=AST.Constant(type_="INTEGER_CONSTANT", value=2, **P), **P), **P)], **P)
keep = AST.RegularAggregation(op="keep", dataset=join_with_drop(True), isLast=False, children=[V("Me_1")], **P)
bad = 0
for label, tree, want in (("join drop d1#Me_1 (alone)", join_with_drop(True), [10.0, 20.0]), ("...[calc Me_1 := Me_1 * 2]", calc, [20.0, 40.0]), ("...[keep Me_1]", keep, [10.0, 20.0])):
    ast = AST.Start(children=[AST.PersistentAssignment(left=V("DS_r"), op="<-", right=tree, **P)], **P)
    try:
        r = run_ast(ast, st, dp)["DS_r"].data.sort_values("Id_1"); got = r["Me_1"].tolist() if "Me_1" in r.columns else f"columns {list(r.columns)}"
    except VTLEngineException as e:
        got = f"VTL error {type(e).__name__}: {str(e)[:70]}"
    except Exception as e:
        got = f"RAW {type(e).__name__}: {str(e).splitlines()[0][:90]}"
    ok = got == want
    bad += not ok
    print(("ok   " if ok else "WRONG"), label, "-> Me_1 =", got, "| expected", want)
sys.exit(1 if bad else 0)
