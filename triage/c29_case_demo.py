"""C29 triage: components (and datasets) whose names differ only in letter case."""
import sys, os, tempfile
sys.path.insert(0, "/verif/triage"); import vtlstub; vtlstub.install(os.environ.get("VTL_SRC", "/repo/src"))
os.environ.setdefault("VTL_TEMP_DIRECTORY", tempfile.mkdtemp(prefix="c29."))
import pandas as pd
from example_pipeline import run_ast, P
from vtlengine import AST
V=lambda n: AST.VarID(value=n, **P)
bad=0
def attempt(label, ast, st, data, expect):
    global bad
    try:
        r=run_ast(ast, st, data)
        got={k:(list(v.components), v.data.to_dict("records")) for k,v in r.items()}
        ok = expect(got); bad += (not ok)
        print(("ok   " if ok else "FAIL ")+label, got)
    except Exception as e:
        bad+=1; print("FAIL "+label+":", type(e).__module__+"."+type(e).__name__, str(e).splitlines()[0][:160])
# (1) two measures Me_1 / me_1 in one dataset
st={"datasets":[{"name":"DS_1","DataStructure":[{"name":"Id_1","type":"Integer","role":"Identifier","nullable":False},
    {"name":"Me_1","type":"Number","role":"Measure","nullable":True},{"name":"me_1","type":"Number","role":"Measure","nullable":True}]}]}
df=pd.DataFrame({"Id_1":[1],"Me_1":[10.0],"me_1":[20.0]})
ast=AST.Start(children=[AST.PersistentAssignment(left=V("DS_r"), op="<-", right=AST.BinOp(left=V("DS_1"), op="+", right=AST.Constant(type_="INTEGER_CONSTANT", value=1, **P), **P), **P)], **P)
attempt("DS_r <- DS_1 + 1 with measures Me_1 and me_1", ast, st, {"DS_1": df}, lambda g: g["DS_r"][1]==[{"Id_1":1,"Me_1":11.0,"me_1":21.0}])
# (2) two datasets DS_1 / ds_1
def one(name): return {"name":name,"DataStructure":[{"name":"Id_1","type":"Integer","role":"Identifier","nullable":False},{"name":"Me_1","type":"Number","role":"Measure","nullable":True}]}
st2={"datasets":[one("DS_1"), one("ds_1")]}
data2={"DS_1": pd.DataFrame({"Id_1":[1],"Me_1":[10.0]}), "ds_1": pd.DataFrame({"Id_1":[1],"Me_1":[500.0]})}
ast2=AST.Start(children=[AST.PersistentAssignment(left=V("DS_r"), op="<-", right=AST.BinOp(left=V("DS_1"), op="+", right=V("ds_1"), **P), **P)], **P)
attempt("DS_r <- DS_1 + ds_1 (two input datasets)", ast2, st2, data2, lambda g: g["DS_r"][1]==[{"Id_1":1,"Me_1":510.0}])
sys.exit(1 if bad else 0)
