import sys, os
sys.path.insert(0,"/verif/triage"); import vtlstub; vtlstub.install(os.environ.get("VTL_SRC","/repo/src"))
sys.argv=['x']
import importlib.util
spec=importlib.util.spec_from_file_location("ex","/root/vtlstub/example_pipeline.py"); ex=importlib.util.module_from_spec(spec); spec.loader.exec_module(ex)
from vtlengine import AST; import pandas as pd
from vtlengine.DataTypes import SCALAR_TYPES
P=ex.P
def cast_run(src_type, tgt, values):
    node=AST.ParamOp(op="cast", children=[AST.VarID(value="DS_1",**P), SCALAR_TYPES[tgt]], params=[], **P)
    ast=AST.Start(children=[AST.PersistentAssignment(left=AST.VarID(value="DS_r",**P), op="<-", right=node, **P)], **P)
    st={"datasets":[{"name":"DS_1","DataStructure":[{"name":"Id_1","type":"Integer","role":"Identifier","nullable":False},{"name":"Me_1","type":src_type,"role":"Measure","nullable":True}]}]}
    df=pd.DataFrame({"Id_1":list(range(len(values))),"Me_1":values})
    try:
        r=ex.run_ast(ast, st, {"DS_1":df})
        d=r["DS_r"]; print(src_type,"->",tgt, {c:(x.data_type.__name__) for c,x in d.components.items()}, d.data.to_dict("records"))
    except Exception as e:
        print(src_type,"->",tgt,"ERROR",type(e).__name__, str(e)[:200])
cast_run("Date","Time",["2020-01-15"])
cast_run("Time_Period","Time",["2020-Q1"])
cast_run("String","Boolean",["true","x"])
cast_run("Time","Date",["2020-01-15/2020-01-15"])
cast_run("Time","Time_Period",["2020-01-01/2020-03-31"])
cast_run("Time_Period","Date",["2020-D015"])
