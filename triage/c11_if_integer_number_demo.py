"""C11 triage: untyped binary_implicit_promotion(Integer, Number) returns Integer, (Number, Integer) returns Number: the declared type of
`if c then <Integer> else <Number>` depends on the order of the branches, and an Integer component then carries 2.5.
usage: /venv/bin/python triage/c11_if_integer_number_demo.py   (VTL_SRC=/path/to/src to try another tree)"""
import sys, os, tempfile
sys.path.insert(0, "/verif/triage"); import vtlstub; vtlstub.install(os.environ.get("VTL_SRC", "/repo/src"))
os.environ.setdefault("VTL_TEMP_DIRECTORY", tempfile.mkdtemp(prefix="c11i."))
sys.argv = ['x']
import pandas as pd
from example_pipeline import run_ast, P
from vtlengine import AST
V = lambda n: AST.VarID(value=n, **P)
def comp(n, t, r, nl=True): return {"name": n, "type": t, "role": r, "nullable": nl}
st = {"datasets": [{"name": "DS_1", "DataStructure": [comp("Id_1", "Integer", "Identifier", False), comp("Me_b", "Boolean", "Measure"), comp("Me_i", "Integer", "Measure"), comp("Me_n", "Number", "Measure")]}]}
dp = {"DS_1": pd.DataFrame({"Id_1": [1, 2], "Me_b": [True, False], "Me_i": [7, 8], "Me_n": [2.5, 3.5]})}
def script(then, els):
    iff = AST.If(condition=V("Me_b"), thenOp=V(then), elseOp=V(els), **P)
    calc = AST.RegularAggregation(op="calc", dataset=V("DS_1"), isLast=False, children=[AST.Assignment(left=AST.Identifier(value="Me_r", kind="ComponentID", **P), op=":=", right=iff, **P)], **P)
    return AST.Start(children=[AST.PersistentAssignment(left=V("DS_r"), op="<-", right=calc, **P)], **P)
bad = 0
for then, els in (("Me_i", "Me_n"), ("Me_n", "Me_i")):
    try:
        r = run_ast(script(then, els), st, dp)["DS_r"]
        t = r.components["Me_r"].data_type.__name__; vals = r.data.sort_values("Id_1")["Me_r"].tolist()
    except Exception as e:
        t, vals = f"{type(e).__name__}", str(e)[:80]
    ok = t == "Number"
    bad += not ok
    print(("ok   " if ok else "WRONG"), f"if Me_b then {then} else {els}: Me_r declared {t}, values {vals} (common type of Integer and Number is Number)")
sys.exit(1 if bad else 0)
