"""Example: drive the real vtlengine pipeline on a hand-built AST (no VTL text parsing available).
Run:  VTL_SRC=/path/to/worktree/src /venv/bin/python /root/vtlstub/example_pipeline.py
Script equivalent:   DS_r <- DS_1 + DS_2;
"""
import sys, os, copy, tempfile
sys.path.insert(0, "/root/vtlstub"); import vtlstub; vtlstub.install(os.environ.get("VTL_SRC", "/repo/src"))
import pandas as pd
from vtlengine import AST
from vtlengine.AST.DAG import DAGAnalyzer
from vtlengine.API._InternalApi import load_datasets
from vtlengine.Interpreter import InterpreterAnalyzer
from vtlengine.Model import Dataset, Scalar
from vtlengine.duckdb_transpiler.Transpiler import SQLTranspiler
from vtlengine.duckdb_transpiler.Config.config import configured_connection
from vtlengine.duckdb_transpiler.io import execute_queries, extract_datapoint_paths

P = dict(line_start=1, column_start=1, line_stop=1, column_stop=1)

def run_ast(ast, data_structures, datapoints, return_only_persistent=True, output_folder=None,
            time_period_output_format="vtl", value_domains=None, external_routines=None):
    """Same steps as vtlengine.API.run() after create_ast()."""
    dag = DAGAnalyzer.create_dag(ast)
    input_datasets, input_scalars = load_datasets(data_structures)
    interp = InterpreterAnalyzer(datasets=copy.deepcopy(input_datasets), value_domains=value_domains,
                                 external_routines=external_routines, scalars=copy.deepcopy(input_scalars))
    sem = interp.visit(copy.deepcopy(ast))
    out_ds = {k: v for k, v in sem.items() if isinstance(v, Dataset)}
    out_sc = {k: v for k, v in sem.items() if isinstance(v, Scalar)}
    ds_analysis = DAGAnalyzer.ds_structure(ast)
    path_dict, df_dict = extract_datapoint_paths(datapoints, input_datasets)
    tr = SQLTranspiler(input_datasets=input_datasets, output_datasets=out_ds, input_scalars=input_scalars,
                       output_scalars=out_sc, value_domains=value_domains or {},
                       external_routines=external_routines or {}, dag=dag,
                       time_period_output_format=time_period_output_format)
    queries = tr.transpile(ast)
    with configured_connection() as conn:
        return execute_queries(conn=conn, queries=queries, ds_analysis=ds_analysis, path_dict=path_dict,
                               dataframe_dict=df_dict, input_datasets=input_datasets, output_datasets=out_ds,
                               output_scalars=out_sc, output_folder=output_folder,
                               return_only_persistent=return_only_persistent,
                               time_period_output_format=time_period_output_format, output_format="csv")

def ds_struct(name):
    return {"name": name, "DataStructure": [
        {"name": "Id_1", "type": "Integer", "role": "Identifier", "nullable": False},
        {"name": "Me_1", "type": "Number", "role": "Measure", "nullable": True}]}

if __name__ == "__main__":
    ast = AST.Start(children=[AST.PersistentAssignment(
        left=AST.VarID(value="DS_r", **P), op="<-",
        right=AST.BinOp(left=AST.VarID(value="DS_1", **P), op="+", right=AST.VarID(value="DS_2", **P), **P), **P)], **P)
    structures = {"datasets": [ds_struct("DS_1"), ds_struct("DS_2")]}
    data = {"DS_1": pd.DataFrame({"Id_1": [1, 2, 3], "Me_1": [10.0, 20.0, None]}),
            "DS_2": pd.DataFrame({"Id_1": [2, 3, 4], "Me_1": [1.0, 2.0, 3.0]})}
    res = run_ast(ast, structures, data)
    print(res["DS_r"].data)
