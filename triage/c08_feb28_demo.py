"""C08 triage (R08.7): timeshift on a Date identifier snaps month-end dates to the month end of the target month.  A date that is
the 28th of February is the month end in common years but not in leap years, so for an annual (or monthly, …) series anchored on
the 28th, shift(n) followed by shift(-n) does not return the original dates, and the shifted series is not the series moved by
n periods."""
import sys, os, tempfile
sys.path.insert(0, "/verif/triage"); import vtlstub; vtlstub.install(os.environ.get("VTL_SRC", "/repo/src"))
os.environ.setdefault("VTL_TEMP_DIRECTORY", tempfile.mkdtemp(prefix="c08f."))
import pandas as pd
from example_pipeline import run_ast, P
from vtlengine import AST
V=lambda n: AST.VarID(value=n, **P)
C=lambda v: AST.Constant(type_="INTEGER_CONSTANT", value=v, **P)
def comp(n,t,r,nl=True): return {"name": n, "type": t, "role": r, "nullable": nl}
st = {"datasets": [{"name": "DS_1", "DataStructure": [comp("Id_T","Date","Identifier",False), comp("Me_1","Number","Measure")]}]}
dates=["2019-02-28","2020-02-28","2021-02-28","2022-02-28"]
d1 = pd.DataFrame({"Id_T": dates, "Me_1": [1.0,2.0,3.0,4.0]})
ts=lambda ds,n: AST.BinOp(left=ds, op="timeshift", right=C(n), **P)
def run(expr):
    ast=AST.Start(children=[AST.PersistentAssignment(left=V("DS_r"), op="<-", right=expr, **P)], **P)
    r=run_ast(ast, st, {"DS_1": d1})["DS_r"].data.sort_values("Me_1")
    return [str(x)[:10] for x in r["Id_T"]]
a=run(ts(V("DS_1"),1)); b=run(ts(ts(V("DS_1"),1),-1))
print("input            ", dates); print("timeshift +1     ", a); print("timeshift +1, -1 ", b)
ok = b==dates
print("OK" if ok else "BROKEN: shifting by 1 and then by -1 does not return the original dates"); sys.exit(0 if ok else 1)
