"""Triage: deterministic thread interleavings on shared process state (C17 known findings).
A line-level pause (sys.settrace) holds thread A between its write of a process-global and its later read; thread B runs
in the gap; A then observes B's value."""
import sys, os, threading
sys.path.insert(0,"/verif/triage"); import vtlstub; vtlstub.install(os.environ.get("VTL_SRC","/repo/src"))
from vtlengine.DataTypes import Integer, Number
from vtlengine.Model import Scalar
from vtlengine.Operators.Numeric import Round, Parameterized
import vtlengine.Exceptions as EX
from vtlengine.Exceptions import SemanticError

def run_with_pause(fn_a, code, pause_line, fn_b):
    reached, go = threading.Event(), threading.Event()
    out = {}
    def tracer(frame, event, arg):
        if frame.f_code is code:
            def local(frame, event, arg):
                if event == "line" and frame.f_lineno == pause_line and not reached.is_set():
                    reached.set(); go.wait(10)
                return local
            return local
        return None
    def a():
        sys.settrace(tracer)
        try: out["a"] = fn_a()
        finally: sys.settrace(None)
    ta = threading.Thread(target=a); ta.start()
    reached.wait(10)
    out["b"] = fn_b()
    go.set(); ta.join()
    return out

# 1. Numeric.Parameterized.validate: cls.return_type = Integer … super().validate(operand)
import inspect
src, start = inspect.getsourcelines(Parameterized.validate.__func__)
pause = start + [i for i, l in enumerate(src) if "return super().validate(operand)" in l][0]
x = Scalar(name="x", data_type=Number, value=None, nullable=True)
p = Scalar(name="p", data_type=Integer, value=None, nullable=True)
alone = Round.validate(x).data_type
res = run_with_pause(lambda: Round.validate(x).data_type, Parameterized.validate.__func__.__code__, pause, lambda: Round.validate(x, p).data_type)
print("round(x) alone ->", alone.__name__, "| round(x) while another thread runs round(x, p) ->", res["a"].__name__)

# 2. Exceptions.dataset_output: thread A is inside statement DS_A; thread B raises an unrelated coded error
EX.dataset_output = "DS_A"   # what InterpreterAnalyzer.visit_Start of thread A does at the start of its statement
msg = SemanticError("1-1-1-8", op="+", name="DS_other").args[0]
EX.dataset_output = None
print("error raised by another thread while A analyses DS_A:", msg)

# 3. ViralPropagation._current_registry: A's semantic pass, then B's semantic pass (any script), then A's transpile
import copy, pandas as pd
from vtlengine import AST
from vtlengine.AST.DAG import DAGAnalyzer
from vtlengine.API._InternalApi import load_datasets
from vtlengine.Interpreter import InterpreterAnalyzer
from vtlengine.Model import Dataset
from vtlengine.duckdb_transpiler.Transpiler import SQLTranspiler
P = dict(line_start=1, column_start=1, line_stop=1, column_stop=1)
V = lambda n: AST.VarID(value=n, **P)
def st(name):
    return {"name": name, "DataStructure": [{"name": "Id_1", "type": "Integer", "role": "Identifier", "nullable": False},
            {"name": "Me_1", "type": "Number", "role": "Measure", "nullable": True}, {"name": "At_1", "type": "String", "role": "ViralAttribute", "nullable": True}]}
rule = AST.ViralPropagationDef(name="vp", signature_type="variable", target="At_1", enumerated_clauses=[AST.EnumeratedVpClause(name=None, values=["C", "M"], result="M", **P)],
                               aggregate_clause=None, default_value="X", **P)
ast_a = AST.Start(children=[rule, AST.PersistentAssignment(left=V("DS_r"), op="<-", right=AST.BinOp(left=V("DS_1"), op="+", right=V("DS_2"), **P), **P)], **P)
ast_b = AST.Start(children=[AST.PersistentAssignment(left=V("DS_q"), op="<-", right=V("DS_3"), **P)], **P)
def semantic(ast, names):
    ds, sc = load_datasets({"datasets": [{"name": n, "DataStructure": [c for c in st(n)["DataStructure"] if n != "DS_3" or c["role"] != "ViralAttribute"]} for n in names]})
    dag = DAGAnalyzer.create_dag(ast)
    sem = InterpreterAnalyzer(datasets=copy.deepcopy(ds), value_domains=None, external_routines=None, scalars=copy.deepcopy(sc)).visit(copy.deepcopy(ast))
    return ds, sc, dag, {k: v for k, v in sem.items() if isinstance(v, Dataset)}
def transpile(ast, ds, sc, dag, out):
    return SQLTranspiler(input_datasets=ds, output_datasets=out, input_scalars=sc, output_scalars={}, value_domains={}, external_routines={}, dag=dag,
                         time_period_output_format="vtl").transpile(ast)[0][1]
a = semantic(ast_a, ["DS_1", "DS_2"])
sql_alone = transpile(ast_a, *a)
a = semantic(ast_a, ["DS_1", "DS_2"])
semantic(ast_b, ["DS_3"])            # another thread's semantic pass replaces the process-wide registry
try:
    sql_interleaved = transpile(ast_a, *a)
except Exception as e:
    sql_interleaved = f"<{type(e).__name__}: {e}>"
print("A transpiled alone uses its rule:", "'M'" in sql_alone, "| A transpiled after B's semantic pass uses its rule:", "'M'" in sql_interleaved)
