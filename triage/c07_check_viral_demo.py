"""C07/C10 triage: check() keeps the viral attributes of the validated dataset in the result STRUCTURE (Check.validate) but the
generated SQL selects identifiers, bool_var, imbalance, errorcode, errorlevel only: the returned Dataset declares VAt_1 and its
data has no such column."""
import sys, os, tempfile
sys.path.insert(0, "/verif/triage"); import vtlstub; vtlstub.install(os.environ.get("VTL_SRC", "/repo/src"))
os.environ.setdefault("VTL_TEMP_DIRECTORY", tempfile.mkdtemp(prefix="c07v."))
import pandas as pd
from example_pipeline import run_ast, P
from vtlengine import AST
V=lambda n: AST.VarID(value=n, **P)
def comp(n,t,r,nl=True): return {"name": n, "type": t, "role": r, "nullable": nl}
st = {"datasets": [{"name": "DS_1", "DataStructure": [comp("Id_1","Integer","Identifier",False), comp("Me_1","Number","Measure"), comp("VAt_1","Number","Viral Attribute")]}]}
d1 = pd.DataFrame([(1,10.0,1.0),(2,-20.0,5.0)], columns=["Id_1","Me_1","VAt_1"])
rule=AST.ViralPropagationDef(name="r", signature_type="variable", target="VAt_1", enumerated_clauses=[], aggregate_clause=AST.AggregateVpClause(function="max", **P), default_value=None, **P)
def run(expr, label):
    ast=AST.Start(children=[rule, AST.PersistentAssignment(left=V("DS_r"), op="<-", right=expr, **P)], **P)
    r=run_ast(ast, st, {"DS_1": d1})["DS_r"]
    miss=[c for c in r.components if c not in r.data.columns]
    print(label, "-> components", list(r.components), "| data columns", list(r.data.columns), "| MISSING", miss)
    return miss
cmp_=lambda: AST.BinOp(left=V("DS_1"), op=">", right=AST.Constant(type_="INTEGER_CONSTANT", value=0, **P), **P)
m1=run(cmp_(), "DS_1 > 0")
m2=run(AST.Validation(op="check", validation=cmp_(), error_code=None, error_level=None, imbalance=None, invalid=False, **P), "check(DS_1 > 0)")
sys.exit(1 if (m1 or m2) else 0)
