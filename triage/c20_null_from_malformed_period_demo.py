"""C20 / C19 triage: a Time_Period value that is not a period but has the hyphenated shape with a wrong-width number (`2020-D1a`, `2020-M1x`,
`2021-Wx`) is turned into NULL by vtl_period_normalize (its hyphenated branch uses TRY_CAST), and the post-load format check skips NULLs:
run() accepts the datapoint with a null measure, validate_dataset() rejects the same table.
usage: /venv/bin/python triage/c20_null_from_malformed_period_demo.py   (VTL_SRC=/path/to/src to try another tree)"""
import sys, os, tempfile
sys.path.insert(0, "/verif/triage"); import vtlstub; vtlstub.install(os.environ.get("VTL_SRC", "/repo/src"))
os.environ.setdefault("VTL_TEMP_DIRECTORY", tempfile.mkdtemp(prefix="c20n."))
sys.argv = ['x']
import pandas as pd
from example_pipeline import run_ast, P
from vtlengine import AST
from vtlengine.API import validate_dataset
V = lambda n: AST.VarID(value=n, **P)
st = {"datasets": [{"name": "DS_1", "DataStructure": [{"name": "Id_1", "type": "Integer", "role": "Identifier", "nullable": False},
                                                       {"name": "Me_1", "type": "Time_Period", "role": "Measure", "nullable": True}]}]}
ast2 = AST.Start(children=[AST.PersistentAssignment(left=V("DS_r"), op="<-", right=V("DS_1"), **P)], **P)
bad = 0
for val in ("2020-M01", "2020-D1a", "2020-M1x", "2021-Wx", "2020-Mxy"):
    df = pd.DataFrame({"Id_1": [1], "Me_1": [val]})
    try: validate_dataset(st, {"DS_1": df.copy()}); v = "accepts"
    except Exception as e: v = f"rejects ({type(e).__name__})"
    try: r = run_ast(ast2, st, {"DS_1": df.copy()}); rr = f"accepts -> Me_1 = {r['DS_r'].data.Me_1.tolist()}"
    except Exception as e: rr = f"rejects ({type(e).__name__})"
    same = v.split()[0] == rr.split()[0]
    bad += not same
    print(("SAME     " if same else "DIFFERENT"), repr(val), "| validate_dataset", v, "| run", rr)
sys.exit(1 if bad else 0)
