"""C28 triage: an aggregate viral propagation rule `avg` over a join of THREE datasets.  The engine folds the rule's
two-operand form pairwise (vp_reduce_refs), and ((a+b)/2 + c)/2 is not the average of a, b, c - and depends on operand order."""
import sys, os, tempfile
sys.path.insert(0, "/verif/triage"); import vtlstub; vtlstub.install(os.environ.get("VTL_SRC", "/repo/src"))
os.environ.setdefault("VTL_TEMP_DIRECTORY", tempfile.mkdtemp(prefix="c28."))
import pandas as pd
from example_pipeline import run_ast, P
from vtlengine import AST
V=lambda n: AST.VarID(value=n, **P)
def ds(name, me): return {"name": name, "DataStructure": [
    {"name": "Id_1", "type": "Integer", "role": "Identifier", "nullable": False},
    {"name": me, "type": "Number", "role": "Measure", "nullable": True},
    {"name": "VAt_1", "type": "Number", "role": "Viral Attribute", "nullable": True}]}
st={"datasets":[ds("DS_1","Me_1"), ds("DS_2","Me_2"), ds("DS_3","Me_3")]}
def data(vals): return {f"DS_{i+1}": pd.DataFrame({"Id_1":[1], f"Me_{i+1}":[1.0], "VAt_1":[v]}) for i,v in enumerate(vals)}
rule=AST.ViralPropagationDef(name="r", signature_type="variable", target="VAt_1", enumerated_clauses=[], aggregate_clause=AST.AggregateVpClause(function="avg", **P), default_value=None, **P)
def run(order, vals):
    join=AST.JoinOp(op="inner_join", clauses=[V(n) for n in order], using=None, nvl=None, isLast=True, **P)
    ast=AST.Start(children=[rule, AST.PersistentAssignment(left=V("DS_r"), op="<-", right=join, **P)], **P)
    return float(run_ast(ast, st, data(vals))["DS_r"].data["VAt_1"][0])
a=run(["DS_1","DS_2","DS_3"], [1.0,2.0,6.0]); b=run(["DS_3","DS_2","DS_1"], [1.0,2.0,6.0])
print("inner_join(DS_1, DS_2, DS_3): VAt_1 =", a, "   inner_join(DS_3, DS_2, DS_1): VAt_1 =", b, "   avg(1, 2, 6) =", 3.0)
ok = abs(a-3.0)<1e-9 and abs(b-3.0)<1e-9
print("PASS" if ok else "FAIL: the aggregate rule avg is not applied over the three combined viral values (pairwise fold)")
sys.exit(0 if ok else 1)
