"""C07 triage: check_datapoint over a ruleset defined on a value domain, applied to a named component with `components`."""
import sys, os, tempfile
sys.path.insert(0, "/verif/triage"); import vtlstub; vtlstub.install(os.environ.get("VTL_SRC", "/repo/src"))
os.environ.setdefault("VTL_TEMP_DIRECTORY", tempfile.mkdtemp(prefix="c07."))
import pandas as pd
from example_pipeline import run_ast, P
from vtlengine import AST
V=lambda n: AST.VarID(value=n, **P)
D=lambda n: AST.DefIdentifier(value=n, kind="RuleID", **P)
# define datapoint ruleset dpr (valuedomain vd1 as x) is r1: x > 0 errorcode "neg" end datapoint ruleset;
rule=AST.DPRule(name="r1", rule=AST.HRBinOp(left=D("x"), op=">", right=AST.Constant(type_="INTEGER_CONSTANT", value=0, **P), **P), erCode="neg", erLevel=None, **P)
dpr=AST.DPRuleset(name="dpr", signature_type="valuedomain", params=[AST.DPRIdentifier(value="vd1", kind="ValuedomainID", alias="x", **P)], rules=[rule], **P)
# DS_r <- check_datapoint(DS_1, dpr components Me_1);
val=AST.DPValidation(dataset=V("DS_1"), ruleset_name="dpr", components=["Me_1"], output=None, **P)
ast=AST.Start(children=[dpr, AST.PersistentAssignment(left=V("DS_r"), op="<-", right=val, **P)], **P)
st={"datasets":[{"name":"DS_1","DataStructure":[{"name":"Id_1","type":"Integer","role":"Identifier","nullable":False},{"name":"Me_1","type":"Number","role":"Measure","nullable":True}]}]}
df=pd.DataFrame({"Id_1":[1,2],"Me_1":[5.0,-1.0]})
try:
    out=run_ast(ast, st, {"DS_1": df})["DS_r"].data
    print(out.to_dict("records"))
    ok = list(out["Id_1"])==[2]
    print("PASS" if ok else "FAIL: expected exactly the datapoint Id_1=2 (Me_1=-1 violates x > 0)")
    sys.exit(0 if ok else 1)
except Exception as e:
    print("FAIL:", type(e).__module__+"."+type(e).__name__, str(e)[:300]); sys.exit(1)
