"""C23 triage: grammar-valid constructs for which the AST constructor raises a built-in exception (not a VTL error).
Parse-tree nodes are hand-made (the C++ parser cannot run here); the constructor methods are the real ones."""
import sys, os
sys.path.insert(0, "/verif/triage"); import vtlstub; vtlstub.install(os.environ.get("VTL_SRC", "/repo/src"))
import vtlengine
from vtlengine.Exceptions import VTLEngineException
from vtlengine.AST.ASTConstructorModules import Terminals as Tm, Expr as E
from vtlengine.AST.Grammar._cpp_parser import vtl_cpp_parser as cpp
class T(cpp.TerminalNode):
    def __init__(self, text, st=0): self.text=text; self.is_terminal=True; self.line=1; self.column=0; self.symbol_type=st; self.start_line=1
class N(cpp.ParseNode):
    def __init__(self, children, rule_index=-1, ctx_id=-1):
        self.children=children; self.is_terminal=False; self.rule_index=rule_index; self.ctx_id=ctx_id
        self.start_line=self.stop_line=1; self.start_column=self.stop_column=0; self.stop_text=""; self.text="".join(getattr(c,"text","") for c in children)
bad=0
def probe(label, fn):
    global bad
    try:
        fn(); print("ok   ", label, "-> AST")
    except VTLEngineException as e:
        print("ok   ", label, "-> VTL error", type(e).__name__)
    except BaseException as e:
        bad+=1; print("FAIL ", label, "->", type(e).__name__, ":", str(e)[:80])
# sum(Me_1 over (order by Id_1 data points between unbounded preceding and unbounded preceding))
lim=lambda: N([T("unbounded"), T("preceding")])
probe("window: data points between unbounded preceding and unbounded preceding",
      lambda: Tm.Terminals().visitWindowingClause(N([T("data"), T("points"), T("between"), lim(), T("and"), lim()])))
# cast(Me_1, my_domain)   (valueDomainName alternative of the cast rule)
probe("cast to a value domain name", lambda: Tm.Terminals().visitValueDomainName(N([T("my_domain")])))
sys.exit(1 if bad else 0)
