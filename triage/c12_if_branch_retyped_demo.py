"""DS_a <- if DS_c then DS_1 else DS_2; DS_b <- DS_1;  (DS_1.Me_1 Integer, DS_2.Me_1 Number) - semantic analysis only: before the repair If.validate wrote the
promoted type into DS_1's own Component objects and DS_b was declared Number.  Exit 0 = DS_b keeps Integer, 1 = not."""
import os, sys, copy
os.environ.setdefault("VTL_SRC","/repo/src")
sys.path.insert(0, "/root/vtlstub"); import vtlstub; vtlstub.install(os.environ["VTL_SRC"])
from vtlengine import AST
from vtlengine.AST.DAG import DAGAnalyzer
from vtlengine.API._InternalApi import load_datasets
from vtlengine.Interpreter import InterpreterAnalyzer
P = dict(line_start=1, column_start=1, line_stop=1, column_stop=1)
def V(n): return AST.VarID(value=n, **P)
def st(n, mt, nl): return {"name":n,"DataStructure":[{"name":"Id_1","type":"Integer","role":"Identifier","nullable":False},{"name":"Me_1","type":mt,"role":"Measure","nullable":nl}]}
S={"datasets":[st("DS_1","Integer",False), st("DS_2","Number",True), st("DS_c","Boolean",True)]}
iff=AST.PersistentAssignment(left=V("DS_a"), op="<-", right=AST.If(condition=V("DS_c"), thenOp=V("DS_1"), elseOp=V("DS_2"), **P), **P)
cp=AST.PersistentAssignment(left=V("DS_b"), op="<-", right=V("DS_1"), **P)
ast_=AST.Start(children=[iff, cp], **P)
DAGAnalyzer.create_dag(ast_)
ds, sc = load_datasets(S)
sem = InterpreterAnalyzer(datasets=copy.deepcopy(ds), value_domains=None, external_routines=None, scalars=copy.deepcopy(sc)).visit(copy.deepcopy(ast_))
for k in ("DS_a","DS_b"):
    c=sem[k].components["Me_1"]; print(k, c.data_type.__name__, c.nullable)
sys.exit(0 if sem["DS_b"].components["Me_1"].data_type.__name__ == "Integer" and sem["DS_a"].components["Me_1"].data_type.__name__ == "Number" else 1)
