import sys, os
sys.path.insert(0,"/verif/triage"); import vtlstub; vtlstub.install(os.environ.get("VTL_SRC","/repo/src"))
sys.argv=['x']
import importlib.util
spec=importlib.util.spec_from_file_location("ex","/root/vtlstub/example_pipeline.py"); ex=importlib.util.module_from_spec(spec); spec.loader.exec_module(ex)
from vtlengine import AST; import pandas as pd, numpy as np
P=ex.P
N=int(os.environ.get("N","2000000"))
# DS_r <- union(sum(DS_1 group by Id_1), DS_2);
agg=AST.Aggregation(op="sum", operand=AST.VarID(value="DS_1", **P), grouping_op="group by", grouping=[AST.Identifier(value="Id_1", kind="ComponentID", **P)], **P)
ast = AST.Start(children=[AST.PersistentAssignment(left=AST.VarID(value="DS_r", **P), op="<-", right=AST.MulOp(op="union", children=[agg, AST.VarID(value="DS_2", **P)], **P), **P)], **P)
s1={"name":"DS_1","DataStructure":[{"name":"Id_1","type":"Integer","role":"Identifier","nullable":False},{"name":"Id_2","type":"Integer","role":"Identifier","nullable":False},{"name":"Me_1","type":"Number","role":"Measure","nullable":True}]}
d1=pd.DataFrame({"Id_1":np.repeat(np.arange(N),2),"Id_2":np.tile([1,2],N),"Me_1":np.ones(2*N)}); d2=pd.DataFrame({"Id_1":np.arange(N),"Me_1":np.full(N,100.0)})
res=ex.run_ast(ast, {"datasets":[s1,ex.ds_struct("DS_2")]}, {"DS_1":d1,"DS_2":d2})
df=res["DS_r"].data
print(len(df), "rows; taken from second operand (must be 0):", int((df.Me_1==100.0).sum()))
