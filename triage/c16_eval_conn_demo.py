"""C16 triage: eval's private DuckDB connection when the user's routine is interrupted (a BaseException that is not an Exception).
The real Eval._execute_query is driven; duckdb.connect is wrapped only to observe close() and to inject the interrupt."""
import sys, os
sys.path.insert(0, "/verif/triage"); import vtlstub; vtlstub.install(os.environ.get("VTL_SRC", "/repo/src"))
import duckdb
from vtlengine.Operators import General
from vtlengine.Operators.General import Eval
closed = []
class Wrap:
    def __init__(self, real): self.real = real
    def execute(self, q, *a, **k):
        if "INTERRUPT_ME" in q: raise KeyboardInterrupt()
        return self.real.execute(q, *a, **k)
    def close(self): closed.append(True); self.real.close()
real_connect = duckdb.connect
General.duckdb.connect = lambda *a, **k: Wrap(real_connect(*a, **k))
try:
    Eval._execute_query("SELECT 1 AS INTERRUPT_ME", [], {})
except KeyboardInterrupt:
    pass
finally:
    General.duckdb.connect = real_connect
print("connection closed after KeyboardInterrupt in the routine:", bool(closed))
sys.exit(0 if closed else 1)
