import sys, os
sys.path.insert(0,"/verif/triage"); import vtlstub; vtlstub.install(os.environ.get("VTL_SRC","/repo/src"))
sys.argv=['x']
import importlib.util
spec=importlib.util.spec_from_file_location("ex","/root/vtlstub/example_pipeline.py"); ex=importlib.util.module_from_spec(spec); spec.loader.exec_module(ex)
from vtlengine import AST; import pandas as pd
from vtlengine.API import validate_dataset
P=ex.P
V=lambda n: AST.VarID(value=n, **P)
def st(t): return {"datasets":[{"name":"DS_1","DataStructure":[{"name":"Id_1","type":"Integer","role":"Identifier","nullable":False},{"name":"Me_1","type":t,"role":"Measure","nullable":True}]}]}
ast2 = AST.Start(children=[AST.PersistentAssignment(left=V("DS_r"), op="<-", right=V("DS_1"), **P)], **P)
def both(t, val):
    df=pd.DataFrame({"Id_1":[1],"Me_1":[val]})
    try: validate_dataset(st(t), {"DS_1":df.copy()}); v="accepts"
    except Exception as e: v=f"rejects({type(e).__name__})"
    try: r=ex.run_ast(ast2, st(t), {"DS_1":df.copy()}); rr=f"accepts -> {r['DS_r'].data.Me_1.tolist()}"
    except Exception as e: rr=f"rejects({type(e).__name__}: {str(e)[:60]})"
    print(f"{t:12} {val!r:28} validate_dataset {v:28} run {rr}")
for v in ["2020D-1","2020D-001","2020-D1","2020-M13","2020-W54","2020A7"]: both("Time_Period", v)
for v in ["2020","2020-01","2020-12-31/2020-01-01","2020-1-5/2020-1-9","2020-01-01 10:00:00/2020-01-02 10:00:00"]: both("Time", v)
for v in ["2020-1-05","2020-01-5","2020-1-5","2020-01-01 12:30"]: both("Date", v)
both("Integer", 1.5)
d=pd.DataFrame({"Id_1":[1],"Me_1":[1.0],"EXTRA":[9]})
try: validate_dataset(st("Number"), {"DS_1":d.copy()}); v="accepts"
except Exception as e: v=f"rejects({type(e).__name__} {e.args[-1] if e.args else ''})"
try: r=ex.run_ast(ast2, st("Number"), {"DS_1":d.copy()}); rr="accepts"
except Exception as e: rr=f"rejects({type(e).__name__})"
print("extra column: validate_dataset", v, "| run", rr)
