"""C10 triage (R10.6): membership dropped viral attributes (fixed cc9990d); the check() lines show the remaining known finding R07.7."""
import sys, os, tempfile
sys.path.insert(0, "/verif/triage"); import vtlstub; vtlstub.install(os.environ.get("VTL_SRC", "/repo/src"))
os.environ.setdefault("VTL_TEMP_DIRECTORY", tempfile.mkdtemp(prefix="cv2."))
import pandas as pd
from example_pipeline import run_ast, P
from vtlengine import AST
V=lambda n: AST.VarID(value=n, **P)
I=lambda n: AST.Identifier(value=n, kind="ComponentID", **P)
def comp(n,t,r,nl=True): return {"name": n, "type": t, "role": r, "nullable": nl}
st = {"datasets": [{"name": "DS_1", "DataStructure": [comp("Id_1","Integer","Identifier",False), comp("Id_2","Integer","Identifier",False), comp("Me_1","Number","Measure"), comp("Me_2","Number","Measure"), comp("VAt_1","Number","Viral Attribute")]}]}
d1 = pd.DataFrame([(1,1,10.0,1.0,1.0),(1,2,-20.0,2.0,5.0),(2,1,-3.0,3.0,2.0)], columns=["Id_1","Id_2","Me_1","Me_2","VAt_1"])
rule=AST.ViralPropagationDef(name="r", signature_type="variable", target="VAt_1", enumerated_clauses=[], aggregate_clause=AST.AggregateVpClause(function="max", **P), default_value=None, **P)
bad=0
def run(expr, label, need=("VAt_1",)):
    global bad
    ast=AST.Start(children=[rule, AST.PersistentAssignment(left=V("DS_r"), op="<-", right=expr, **P)], **P)
    try:
        r=run_ast(ast, st, {"DS_1": d1})["DS_r"]
        miss=[c for c in r.components if c not in r.data.columns]
        print(label, "->", {k:str(v.role.value) for k,v in r.components.items()}, "columns:", list(r.data.columns), "MISSING" if miss else "", miss or "")
        bad += bool(miss)
    except Exception as e:
        print(label, "FAIL", type(e).__module__+"."+type(e).__name__, str(e).splitlines()[0][:300]); bad+=1
mem=lambda: AST.BinOp(left=V("DS_1"), op="#", right=I("Me_1"), **P)
run(mem(), "DS_1#Me_1")
run(AST.UnaryOp(op="abs", operand=mem(), **P), "abs(DS_1#Me_1)")
cmp_=lambda: AST.BinOp(left=mem(), op=">", right=AST.Constant(type_="INTEGER_CONSTANT", value=0, **P), **P)
chk=lambda: AST.Validation(op="check", validation=cmp_(), error_code=None, error_level=None, imbalance=None, invalid=False, **P)
run(chk(), "check(DS_1#Me_1 > 0)")
run(AST.RegularAggregation(op="filter", dataset=chk(), children=[AST.BinOp(left=V("Id_1"), op="=", right=AST.Constant(type_="INTEGER_CONSTANT", value=1, **P), **P)], **P), "check(DS_1#Me_1 > 0)[filter Id_1 = 1]")
run(AST.RegularAggregation(op="unpivot", dataset=V("DS_1"), children=[I("Id_3"), I("Me_9")], **P), "DS_1[unpivot Id_3, Me_9]")
print("bad", bad); sys.exit(1 if bad else 0)
