"""union(DS_1, DS_3)[rename Me_1 to Me_X]: a valid script; before the repair the UNION branches selected the columns of the statement's output
(Me_X) from the operands and run() ended in a raw DuckDB BinderException.  Exit 0 = the renamed union is returned, 1 = not."""
import os, sys
os.environ.setdefault("VTL_TEMP_DIRECTORY", "/tmp/tri/tmpdir"); os.makedirs("/tmp/tri/tmpdir", exist_ok=True)
os.environ.setdefault("VTL_SRC","/repo/src")
sys.path.insert(0, "/root/vtlstub")
from example_pipeline import run_ast, P
import pandas as pd
from vtlengine import AST
def V(n): return AST.VarID(value=n, **P)
un = AST.MulOp(op="union", children=[V("DS_1"), V("DS_3")], **P)
ren = AST.RegularAggregation(op="rename", dataset=un, children=[AST.RenameNode(old_name="Me_1", new_name="Me_X", **P)], **P)
ast_ = AST.Start(children=[AST.PersistentAssignment(left=V("DS_r"), op="<-", right=ren, **P)], **P)
def st(n): return {"name":n,"DataStructure":[{"name":"Id_1","type":"Integer","role":"Identifier","nullable":False},{"name":"Me_1","type":"Number","role":"Measure","nullable":True}]}
S={"datasets":[st("DS_1"), st("DS_3")]}
d1=pd.DataFrame({"Id_1":[1,2],"Me_1":[1.0,2.0]}); d3=pd.DataFrame({"Id_1":[2,3],"Me_1":[20.0,30.0]})
try:
    r=run_ast(ast_, S, {"DS_1": d1, "DS_3": d3})["DS_r"]
    print(list(r.components), r.data.to_dict("records"))
    sys.exit(0 if sorted(r.data.columns) == ["Id_1", "Me_X"] and len(r.data) == 3 else 1)
except Exception as e:
    print(type(e).__module__, type(e).__name__, str(e)[:300])
    sys.exit(1)
