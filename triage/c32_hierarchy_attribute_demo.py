"""C32 / C07 triage: hierarchy(DS_1, hr1 rule Id_2 <mode> <output>) over a dataset that has a plain (non-viral) attribute.
Semantic analysis strips attributes from the result; does the generated SQL still name the attribute column?
usage: /venv/bin/python triage/c32_hierarchy_attribute_demo.py   (VTL_SRC=/path/to/src to try another tree)"""
import sys, os, tempfile
sys.path.insert(0, "/verif/triage"); import vtlstub; vtlstub.install(os.environ.get("VTL_SRC", "/repo/src"))
os.environ.setdefault("VTL_TEMP_DIRECTORY", tempfile.mkdtemp(prefix="c32h."))
sys.argv = ['x']
import pandas as pd
from example_pipeline import run_ast, P
from vtlengine import AST
from vtlengine.AST import ValidationMode
from vtlengine.Exceptions import VTLEngineException
V = lambda n: AST.VarID(value=n, **P)
HB = lambda l, op, r: AST.HRBinOp(left=l, op=op, right=r, **P)
CI = lambda n: AST.DefIdentifier(value=n, kind="CodeItemID", **P)
def hr1(): return AST.HRuleset(name="hr1", signature_type="variable", element=AST.DefIdentifier(value="Id_2", kind="DatasetID", **P),
                               rules=[AST.HRule(name="R1", rule=HB(CI("A"), "=", HB(CI("B"), "+", CI("C"))), erCode=None, erLevel=None, **P)], **P)
def st(attr): return {"datasets": [{"name": "DS_1", "DataStructure": [
    {"name": "Id_1", "type": "Integer", "role": "Identifier", "nullable": False}, {"name": "Id_2", "type": "String", "role": "Identifier", "nullable": False},
    {"name": "Me_1", "type": "Number", "role": "Measure", "nullable": True}] + ([{"name": "At_1", "type": "String", "role": "Attribute", "nullable": True}] if attr else [])}]}
def data(attr):
    d = pd.DataFrame([(1, "B", 2.0), (1, "C", 3.0), (2, "B", 1.0), (2, "C", 1.0)], columns=["Id_1", "Id_2", "Me_1"])
    if attr: d["At_1"] = "x"
    return {"DS_1": d}
import vtlengine.AST as A
outs = [o for o in A.HierarchyOutput] if hasattr(A, "HierarchyOutput") else []
bad = 0
for attr in (False, True):
    for out in outs:
        op = AST.HROperation(op="hierarchy", dataset=V("DS_1"), ruleset_name="hr1", rule_component=AST.Identifier(value="Id_2", kind="ComponentID", **P),
                             validation_mode=ValidationMode.NON_NULL, output=out, **P)
        ast = AST.Start(children=[hr1(), AST.PersistentAssignment(left=V("DS_r"), op="<-", right=op, **P)], **P)
        try:
            r = run_ast(ast, st(attr), data(attr))["DS_r"]; res = f"ok columns={list(r.data.columns)} rows={len(r.data)}"
        except VTLEngineException as e:
            res = f"VTL error {type(e).__name__}"
        except Exception as e:
            res = f"RAW {type(e).__name__}: {str(e)[:80]}"; bad += 1
        print(f"attribute={attr} output={out.value if hasattr(out,'value') else out}: {res}")
sys.exit(1 if bad else 0)
