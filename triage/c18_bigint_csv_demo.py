"""C18 triage: the same Integer values supplied as CSV and as a DataFrame.  The CSV loader reads Integer columns as DOUBLE
(get_csv_read_type), which holds 53 bits: 9007199254740993 is stored as 9007199254740992, and two distinct keys
9007199254740992 / 9007199254740993 are rejected as duplicates, while the DataFrame (int64) form keeps them exact.
usage: /venv/bin/python triage/c18_bigint_csv_demo.py   (VTL_SRC=/path/to/src to try another tree)"""
import sys, os, tempfile, pathlib
sys.path.insert(0, "/verif/triage"); import vtlstub; vtlstub.install(os.environ.get("VTL_SRC", "/repo/src"))
sys.argv = ['x']
import importlib.util
spec = importlib.util.spec_from_file_location("ex", "/verif/triage/example_pipeline.py"); ex = importlib.util.module_from_spec(spec); spec.loader.exec_module(ex)
from vtlengine import AST; import pandas as pd
P = ex.P
V = lambda n: AST.VarID(value=n, **P)
def st(role): return {"datasets": [{"name": "DS_1", "DataStructure": [{"name": "Id_1", "type": "Integer", "role": "Identifier", "nullable": False},
                                                                 {"name": "Me_1", "type": "Integer", "role": "Measure", "nullable": True}]}]}
ast2 = AST.Start(children=[AST.PersistentAssignment(left=V("DS_r"), op="<-", right=V("DS_1"), **P)], **P)
tmp = pathlib.Path(tempfile.mkdtemp(prefix="c18demo_")); os.environ.setdefault("VTL_TEMP_DIRECTORY", str(tmp))
bad = 0
def forms(ids, mes):
    global bad
    csv = tmp / "DS_1.csv"; csv.write_text("Id_1,Me_1\n" + "".join(f"{i},{m}\n" for i, m in zip(ids, mes)))
    out = {}
    for form, dp in (("csv", {"DS_1": csv}), ("dataframe", {"DS_1": pd.DataFrame({"Id_1": ids, "Me_1": mes})})):
        try:
            r = ex.run_ast(ast2, st(None), dp); d = r["DS_r"].data.sort_values("Id_1")
            out[form] = ("accepted", [int(x) for x in d.Id_1.tolist()], [int(x) for x in d.Me_1.tolist()])
        except Exception as e:
            out[form] = ("rejected", type(e).__name__, str(e)[:70])
    same = out["csv"] == out["dataframe"]
    bad += not same
    print(("SAME     " if same else "DIFFERENT"), ids, mes, "\n    csv      :", out["csv"], "\n    dataframe:", out["dataframe"])
forms([1, 2], [10, 20])
forms([1, 2], [9007199254740993, 5])
forms([9007199254740992, 9007199254740993], [1, 2])
import shutil; shutil.rmtree(tmp, ignore_errors=True)
sys.exit(1 if bad else 0)
