"""C09/C21 triage: vtl_interval_to_period used `/` (float division in DuckDB) for the quarter number: cast(Time -> time_period) of
2020-04-01/2020-06-30 gave 2020-Q2.0 (seen with time_period_output_format=sdmx_reporting).  Fixed by the commit recorded in known_findings.txt."""
import sys, os
sys.path.insert(0,"/verif/triage"); import vtlstub; vtlstub.install(os.environ.get("VTL_SRC","/repo/src"))
import importlib.util
spec=importlib.util.spec_from_file_location("ex","/verif/triage/example_pipeline.py"); ex=importlib.util.module_from_spec(spec); spec.loader.exec_module(ex)
from vtlengine import AST; import pandas as pd
from vtlengine.DataTypes import SCALAR_TYPES
P=ex.P
def cast_run(values, fmt="vtl"):
    node=AST.ParamOp(op="cast", children=[AST.VarID(value="DS_1",**P), SCALAR_TYPES["Time_Period"]], params=[], **P)
    ast=AST.Start(children=[AST.PersistentAssignment(left=AST.VarID(value="DS_r",**P), op="<-", right=node, **P)], **P)
    st={"datasets":[{"name":"DS_1","DataStructure":[{"name":"Id_1","type":"Integer","role":"Identifier","nullable":False},{"name":"Me_1","type":"Time","role":"Measure","nullable":True}]}]}
    df=pd.DataFrame({"Id_1":list(range(len(values))),"Me_1":values})
    try:
        r=ex.run_ast(ast, st, {"DS_1":df}, time_period_output_format=fmt) if fmt!="vtl" else ex.run_ast(ast, st, {"DS_1":df})
        print(fmt, r["DS_r"].data.to_dict("records"))
    except Exception as e:
        print(fmt, "ERROR",type(e).__module__, type(e).__name__, str(e)[:300])
cast_run(["2020-01-01/2020-03-31","2020-04-01/2020-06-30","2020-10-01/2020-12-31","2020-01-01/2020-12-31","2020-02-01/2020-02-29"])
for f in ("sdmx_reporting","sdmx_gregorian","natural"):
    cast_run(["2020-04-01/2020-06-30"], f)
