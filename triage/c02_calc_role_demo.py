"""C02 triage: the calc role keyword `viral attribute` (and the role of NEW components that the statement result does not keep)
was ignored by StructureVisitor._build_calc_structure: abs(DS_1[calc viral attribute Me_2 := Me_2 * -1]) lost column Me_2.
Fixed by e86234e.  Second half of the output (after ----) is the relevant part."""
import sys, os, tempfile
sys.path.insert(0, "/verif/triage"); import vtlstub; vtlstub.install(os.environ.get("VTL_SRC", "/repo/src"))
os.environ.setdefault("VTL_TEMP_DIRECTORY", tempfile.mkdtemp(prefix="c02."))
import pandas as pd
from example_pipeline import run_ast, P
from vtlengine import AST
from vtlengine.Model import Role
V=lambda n: AST.VarID(value=n, **P)
def comp(n,t,r,nl=True): return {"name": n, "type": t, "role": r, "nullable": nl}
st = {"datasets": [{"name": "DS_1", "DataStructure": [comp("Id_1","Integer","Identifier",False), comp("Me_1","Number","Measure"), comp("Me_2","Number","Measure"), comp("At_1","String","Attribute")]},
                   {"name": "DS_2", "DataStructure": [comp("Id_1","Integer","Identifier",False), comp("Me_1","Number","Measure")]}]}
d1 = pd.DataFrame([(1,10.0,1.0,"a"),(2,20.0,2.0,"b")], columns=["Id_1","Me_1","Me_2","At_1"])
d2 = pd.DataFrame([(1,100.0),(2,200.0)], columns=["Id_1","Me_1"])
def calc(role_tok, role, name, rhs):
    left=AST.Identifier(value=name, kind="ComponentID", **P)
    a=AST.Assignment(left=left, op=":=", right=rhs, **P)
    u=AST.UnaryOp(op=role_tok, operand=a, **P)
    return AST.RegularAggregation(op="calc", dataset=V("DS_1"), children=[u], **P)
def run(expr, label):
    ast=AST.Start(children=[AST.PersistentAssignment(left=V("DS_r"), op="<-", right=expr, **P)], **P)
    try:
        r=run_ast(ast, st, {"DS_1": d1, "DS_2": d2})["DS_r"]; print(label, "->", {k:str(v.role.value) for k,v in r.components.items()}, r.data.to_dict("records"))
    except Exception as e:
        print(label, "FAIL", type(e).__module__+"."+type(e).__name__, str(e).splitlines()[0][:300])
S=lambda v: AST.Constant(type_="STRING_CONSTANT", value=v, **P)
I=lambda v: AST.Constant(type_="INTEGER_CONSTANT", value=v, **P)
run(AST.BinOp(left=calc("attribute",Role.ATTRIBUTE,"X",S("q")), op="+", right=V("DS_2"), **P), "attr new + DS_2")
run(AST.BinOp(left=calc("attribute",Role.ATTRIBUTE,"Me_2",V("Me_2")), op="+", right=V("DS_2"), **P), "attr over measure + DS_2")
run(AST.BinOp(left=calc("measure",Role.MEASURE,"X",I(5)), op="+", right=V("DS_2"), **P), "measure new + DS_2 (expect semantic error)")
run(AST.UnaryOp(op="abs", operand=calc("attribute",Role.ATTRIBUTE,"X",I(-5)), **P), "abs(attr new)")
run(AST.UnaryOp(op="abs", operand=calc("viral attribute",Role.VIRAL_ATTRIBUTE,"X",I(-5)), **P), "abs(viral new)")
run(AST.UnaryOp(op="abs", operand=calc("viral attribute",Role.VIRAL_ATTRIBUTE,"Me_2",AST.UnaryOp(op="-", operand=V("Me_2"), **P)), **P), "abs(viral over measure: Me_2 := -Me_2)")
run(AST.Aggregation(op="sum", operand=calc("identifier",Role.IDENTIFIER,"X",V("Me_2")), grouping_op="group by", grouping=[V("Id_1")], having_clause=None, **P), "sum(calc identifier X group by Id_1)")
run(AST.Aggregation(op="count", operand=calc("identifier",Role.IDENTIFIER,"X",V("Me_2")), grouping_op="group by", grouping=[V("Id_1")], having_clause=None, **P), "count(calc identifier X group by Id_1)")
print("---- with a viral propagation rule for Me_2 / X")
def runv(expr, label, target):
    rule=AST.ViralPropagationDef(name="r", signature_type="variable", target=target, enumerated_clauses=[], aggregate_clause=AST.AggregateVpClause(function="max", **P), default_value=None, **P)
    ast=AST.Start(children=[rule, AST.PersistentAssignment(left=V("DS_r"), op="<-", right=expr, **P)], **P)
    try:
        r=run_ast(ast, st, {"DS_1": d1, "DS_2": d2})["DS_r"]; print(label, "->", {k:str(v.role.value) for k,v in r.components.items()}, r.data.to_dict("records"))
    except Exception as e:
        print(label, "FAIL", type(e).__module__+"."+type(e).__name__, str(e).splitlines()[0][:300])
neg=lambda n: AST.BinOp(left=V(n), op="*", right=I(-1), **P)
runv(calc("viral attribute",Role.VIRAL_ATTRIBUTE,"Me_2",neg("Me_2")), "calc viral Me_2 := Me_2 * -1 (alone)", "Me_2")
runv(AST.UnaryOp(op="abs", operand=calc("viral attribute",Role.VIRAL_ATTRIBUTE,"Me_2",neg("Me_2")), **P), "abs(calc viral Me_2 := Me_2 * -1)   expect Me_2 = -1, -2 (abs applies to measures only)", "Me_2")
runv(AST.UnaryOp(op="abs", operand=calc("viral attribute",Role.VIRAL_ATTRIBUTE,"X",neg("Me_2")), **P), "abs(calc viral X := Me_2 * -1)   expect X = -1, -2", "X")
runv(AST.BinOp(left=calc("viral attribute",Role.VIRAL_ATTRIBUTE,"Me_2",neg("Me_2")), op="+", right=V("DS_2"), **P), "calc viral Me_2 + DS_2   expect Me_1 = 110, 220; Me_2 = -1, -2", "Me_2")
