"""Single source for MANIFEST.json: which properties are claimed, with what level text/technique.
tools/gen_manifest.py renders MANIFEST.json from this table."""

GUARD = "MEANINGFUL_DATA_VTLENGINE_VERIF"

# id -> dict(claimed, design, technique, text, note)  |  dict(claimed=False, reason)
NOT_IMPL = "static check for the structural clause(s) named in DESIGN.md not implemented yet; not claimed until it is"

PROPS = {
    "C26": dict(
        claimed=True, design="§2 C26",
        technique="AST enumeration of all coded-exception constructor calls + constant folding of the code argument + catalogue/placeholder table comparison",
        text="Decides the property's static quantifier in full: every constructor call of SemanticError / RunTimeError / "
             "DataLoadError / InputValidationException (and subclasses) in src/vtlengine is enumerated, its code is folded to a "
             "finite set and looked up in the catalogue literal, and the message's placeholders are compared with the keywords "
             "supplied; the coded constructors themselves are checked to do nothing else that can raise. Static rule checking "
             "is the right level because the property is a universally quantified statement about call sites.",
        note="Trusted: Python's str.format semantics; callee resolution through import aliases (sites that build the "
             "exception class dynamically would be missed; none exist). Codes must fold to a finite constant set, otherwise "
             "the check stops with ANALYSIS-ERROR rather than pass."),
}

NA_REASONS = {
    "C02": "clause semantics (which rows/columns filter, calc, keep, drop, rename, sub produce) is the relational meaning of "
           "generated SQL evaluated by DuckDB over runtime data; no structural necessary condition that is not a frozen "
           "fragment of today's SQL",
    "C29": "whether names differing only in case stay distinct is decided inside DuckDB's catalog/binder (identifiers are "
           "case-insensitive even when quoted), not by a construct in this repository that a static rule can inspect",
    "C31": "SLL-vs-LL equivalence is a property of the ANTLR ATN simulator on the grammar's ambiguity structure; no "
           "grammar-level static criterion in reach decides it and the generated C++ cannot be analysed without its headers",
}
ALL = [f"C{i:02d}" for i in range(1, 34)]
