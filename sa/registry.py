"""Single source for MANIFEST.json: which properties are claimed, with what level text/technique.
tools/gen_manifest.py renders MANIFEST.json from this table."""

GUARD = "MEANINGFUL_DATA_VTLENGINE_VERIF"

# id -> dict(claimed, design, technique, text, note)  |  dict(claimed=False, reason)
NOT_IMPL = "static check for the structural clause(s) named in DESIGN.md not implemented yet; not claimed until it is"

PROPS = {
    "C26": dict(
        claimed=True, design="§2 C26",
        technique="AST enumeration of all coded-exception constructor calls + constant folding of the code argument + catalogue/placeholder table comparison; **name splats resolved to their local dict literal, duplicate-keyword detection; **TABLE[key] splats resolved to the keywords every row of a module-level table supplies",
        text="Decides the property's static quantifier in full: every constructor call of SemanticError / RunTimeError / "
             "DataLoadError / InputValidationException (and subclasses) in src/vtlengine is enumerated, its code is folded to a "
             "finite set and looked up in the catalogue literal, and the message's placeholders are compared with the keywords "
             "supplied; the coded constructors themselves are checked to do nothing else that can raise. Static rule checking "
             "is the right level because the property is a universally quantified statement about call sites.",
        note="Trusted: Python's str.format semantics; callee resolution through import aliases (sites that build the "
             "exception class dynamically would be missed; none exist). Codes must fold to a finite constant set, otherwise "
             "the check stops with ANALYSIS-ERROR rather than pass."),

    "C11": dict(
        claimed=True, design="§2 C11",
        technique="finite decision tables of the four promotion functions evaluated over all 9x9x(type_to_check)x(return_type) cells + docs list-table comparison + CFG must-pass-through of type checks + purity rule; memoisation inventory over the operator type rules (result must depend only on the arguments); definite-assignment analysis with guard facts for class attributes assigned inside operator methods (call-scoped class state), dead-argument refinement; 9x9 evaluation of operator-specific compatibility overrides (symmetry); promotion pre-checks restrict only reviewed pairs; case result type over branch permutations; Set.validate evaluated on three operands: result type == fold of binary_implicit_promotion in any operand order",
        text="Decides over the whole finite type domain: the implicit-promotion table equals the documented table; check_* agrees with "
             "the promotion that computes the result for every cell and every (type_to_check, return_type) pair declared by an operator "
             "class; commutative operators get order-independent result types; accepted iff a documented common type admitted by the "
             "operator exists. Also: the generic Binary/Unary validation methods reach a promotion function on every path, and the "
             "promotion functions are pure. Exhaustive evaluation of extracted tables is the right level for a finite domain.",
        note="Each operator's declared type_to_check is taken as given (no in-repo oracle). The decision-table evaluator models a "
             "restricted language (fails closed on anything else). Operators overriding validation with their own type rules are an "
             "explicit reasoned exemption table."),
    "C09": dict(
        claimed=True, design="§3 C09",
        technique="decision table of Cast.check_without_mask vs docs list-tables; symbolic evaluation of the rename branch and of the SQL cast dispatch over all type pairs; CFG must-pass-through; integer-typing lint of `/` in the conversion macros; concrete evaluation of the Time->Time_Period macro text over a calendar grid against the calendar definition of VTL periods; TRUNC-before-integer-cast rule on the evaluated cast dispatch; dataset rename rule by finite evaluation of Cast.dataset_validation; sibling agreement of the cast-to-date SQL type with the loaders' storage type; date-conversion failures mapped for every wording of the engine; computed operands (unknown source type) also truncate before the integer cast",
        text="Decides the accept/reject table of cast (code vs the two documented tables, 8x8), that every validation path performs the "
             "check, the documented measure-renaming rule, and that representation-changing conversions are routed to existing SQL "
             "macros rather than a generic CAST. Does not decide per-value conversion results (DuckDB semantics).",
        note="docs/data_types.rst is the oracle. Known findings: 4 table cells and 2 generic-CAST pairs (see known_findings.txt)."),
    "C30": dict(
        claimed=True, design="§3 C30",
        technique="decision table of set_decimal_config over ({unset} U [-5..45])^2 settings incl. call sequences; docs constant comparison; call-graph search for memoised dependants of the decimal type; abstract interpretation (E6) of the CSV read-type and DataFrame SELECT builders for a Number component over all source column types (text-to-decimal path, no binary-float cast); binary-float conversion lint on the Python load path; get_decimal_type evaluated after set_decimal_config for every accepted setting (disable value included); CFG must-pass-through of set_decimal_config in configure_duckdb_connection + written-globals inventory of the configuration module",
        text="Decides the validation half of the property exhaustively: which settings are accepted, that rejection is the documented "
             "configuration error naming the offending variable, that the published (width, scale) is the documented effective value, "
             "that outcomes do not depend on earlier settings, and that nothing derived from the decimal type is memoised or hard-coded. "
             "Does not decide rounding/arithmetics of stored values (DuckDB).",
        note="os.getenv modelled as a mapping lookup; DuckDB rule s <= w <= 38 is an external fact encoded in the rule. Known finding: "
             "scale > width accepted."),
    "C27": dict(
        claimed=True, design="§3 C27",
        technique="table extraction (code dict literals, docs list-tables, installed pysdmx enum source) + CFG dominance of guarded lookups + def-use provenance of the per-component fields; globals inventory + local taint for hand-rolled caches of conversion results; local caches across loop iterations on the conversion path; structure loader evaluated over all ordered pairs of VTL types on two identifiers (no precondition on combinations)",
        text="Decides the mapping table in full: VTL_DTYPES_MAPPING / VTL_ROLE_MAPPING / nullability rule equal the documented tables, "
             "every member of the installed pysdmx DataType and Role enums is mapped or rejected with InputValidationException (guard "
             "dominates the lookup), every output component's four fields derive from the one SDMX component being converted, and "
             "run/run_sdmx/semantic_analysis share that single un-memoised conversion.",
        note="pysdmx enums are read from the installed package source. Structures of 1-5 components are covered because the conversion is "
             "shown to be per-component."),

    "C16": dict(
        claimed=True, design="§3 C16",
        technique="statement CFG with exception edges: acquire/release pairing path queries to the normal AND exceptional exit (BaseException-aware), wrapper summaries; escape analysis of the connection; set/reset pairing of per-statement globals; every-path-raises rule for the duckdb handlers of the execution / loading modules (shared with C32)",
        text="Decides the structural half of the property for every failure point at once: in the connection context manager every "
             "statement after an acquisition has an exception edge, and every path from the acquisition of the session directory / the "
             "connection to either exit passes its release; the connection cannot outlive the with-region of run() (no use outside, no "
             "store into longer-lived state); other acquisitions reachable from the API are with-items or paired; the per-statement "
             "global Exceptions.dataset_output is reset on every exit (history independence; the decimal configuration part is R30.4). "
             "Fault enumeration over scripts cannot reach failure points between two lines of the context manager; path analysis can.",
        note="Any statement containing a call/subscript/arithmetic/yield may raise (over-approximation). Not decided: descriptors held "
             "inside DuckDB, rmtree failing (ignore_errors=True by design)."),
    "C13": dict(
        claimed=True, design="§3 C13",
        technique="CFG path queries (must-precede / must-pass-through per loop iteration), def-use and guard-shape rules on the schedule builder, who-may-emit rule for CREATE/DROP TABLE, 2x2 truth-table comparison; finite evaluation of _ds_usage_analysis, cleanup_scheduled_datasets and the final collection loop on model dependency tables against the schedule specification; finite evaluation of load_scheduled_datasets on mixed sources; def-use provenance of the executed schedule in run(); handler field matrix + every-path traversal of the dependency analysis (shared with C12); session resource pairing of configured_connection (shared with C16); the query list returned by SQLTranspiler.visit_Start is the one list appended to per statement (statement order == schedule index)",
        text="Decides the code-shape facts the load/execute/release argument rests on: per-statement ordering load < CREATE < cleanup on "
             "every path of an iteration with the loop's own index; numbering agreement between DAG, transpiler and executor; a single "
             "owner for table creation and release; once-only load; release scheduled at last_consumer.get(name, producer); no early exit "
             "in dependency promotion; identical selection predicates. Each is a necessary condition of the property; the replay of all "
             "graphs against a table-store model (a model-checking statement) is not attempted.",
        note="Normal-flow paths only (exceptions abort the run; their cleanup is C16). Structural anchors fail closed (exit 2) if the "
             "functions are reshaped."),
    "C14": dict(
        claimed=True, design="§3 C14",
        technique="def-use (single reaching definition) of the fetch query, CFG dominance, decision-table evaluation of save_datapoints_duckdb over format x select_sql x delete; finite evaluation of the scalar writer on falsy values; output-folder threading rule over the execution modules; no-data rule over everything reachable from run()'s structure loader; row filter of the representation UPDATE evaluated on NULL patterns (shared with C04)",
        text="Decides that the file and the in-memory DataFrame are produced by the same SELECT, that the file sink copies that SELECT for "
             "every output format into <dataset>.<format> with the matching FORMAT, that no in-memory data is attached on the file path, "
             "that the time-period representation step precedes both sinks, and that the scalar file receives exactly the Scalars of the "
             "returned results when a folder is given.",
        note="Trusts DuckDB's COPY (query) TO file. Does not decide equality of Python post-formatting with SQL formatting (runtime)."),
    "C22": dict(
        claimed=True, design="§3 C22",
        technique="interprocedural flow-sensitive alias/effect analysis (taints: caller's object / reachable from it / fresh container at depth k) from every public API parameter through resolved callees; mutation-site detection",
        text="Decides for all in-repo code that no store, del, augmented assignment, mutating method call or pandas inplace operation is "
             "reachable on an object that is, or is reachable from, an argument of the eight public API functions - for every call, valid "
             "or failing, because the analysis is over all paths. Found the two defects now repaired (validate_dataset's DataFrame, "
             "run()'s datapoints dict).",
        note="External library calls are assumed not to mutate or share their arguments (list in the evidence); pandas methods without "
             "inplace=True return new objects; deepcopy cuts aliasing."),

    "C12": dict(
        claimed=True, design="§3 C12",
        technique="AST-node x visitor-method matrix (E7) for the dependency analysis, class-filter agreement, attribute-read parity, CFG must-pass-through, per-statement state reset paths, interprocedural operand-mutation analysis (E2) over all Operators validation methods; path form of the dependency traversal (field-present specialisation, pure kind-test guards, inherited handlers); alias-after-operand; UDO body evaluated on a copy (def-use + CFG); effect analysis with the shared structure tables as origins (no transpiler / structure-visitor method mutates a stored structure); class-state definite assignment (shared with C11); effect analysis of every InterpreterAnalyzer.visit_* method with `self.visit(...)` results as fresh holders of shared structure parts (instance-attribute hops followed)",
        text="Decides the structural conditions of order independence: the dependency analysis descends into every operand-bearing field of "
             "every AST node class; the statements it numbers are exactly those the sorter permutes; names defined with ':=' and '<-' are "
             "resolved alike; redefinition and cycle errors are raised on every path whatever the order; analyser state is reset between "
             "statements; and semantic validation never mutates its operands (which are the datasets stored for later statements). "
             "Found and repaired: persistent scalars used inside clauses got no dependency edge.",
        note="Does not decide that equal dependency graphs give equal run() results. Operand-mutation sites present on the reference "
             "tree are a frozen, reasoned table (not triaged for genuine order dependence); new sites are violations."),

    "C15": dict(
        claimed=True, design="§3 C15",
        technique="lint over every SQL skeleton (f-string/constant with typed holes) and .sql macro body: tokeniser + window/aggregate/LIMIT/DISTINCT ON/nondeterministic-function rules; who-may-call rule for partial fetch APIs; guard-emission pairing in the OVER-clause builder; (window lint: holes inside a PARTITION BY list do not stand for an ORDER BY); window-frame table shared from C06; sampled / randomised SQL lint; sequential written-globals inventory over the transpiler and viral-propagation SQL writers (shared with C17)",
        text="Decides the necessary structural condition for determinism under any thread count / storage mode: since the engine is "
             "configured with preserve_insertion_order=false (premise read from the source), no emitted SQL may contain a construct "
             "whose value depends on row order without a total ORDER BY, and results must be fetched completely. Every SQL text the "
             "engine can emit is a Python string in the repository, so the lint covers all of them. Does not decide floating-point "
             "summation-order effects or spill behaviour.",
        note="Known finding: the enumerated viral-attribute fold list_reduce(list(col)) is order-dependent (demonstrated). Reasoned "
             "exemption: union's ROW_NUMBER() OVER () (could not be made to misbehave on DuckDB 1.5.5)."),
    "C33": dict(
        claimed=True, design="§3 C33",
        technique="the C15 order-dependence lint + def-use chain from the CSV header read to the positional read_csv column map + explicit INSERT column lists + no positional sampling of values in the loaders; constant-position accesses to an input header inventoried against a reviewed table; every INSERT skeleton of a loader examined; group form of viral rules per rule kind; enumerated pair table shared from C28; exact-accumulation rule for SUM/AVG templates (shared with C15); flow/stock window keys evaluated against the operand's identifiers",
        text="Decides row-order independence at the level of emitted SQL (same lint as C15) and column-order independence of all three "
             "loaders: the positional read_csv column map is ordered by the file's own header and never re-ordered, DataFrame/Parquet "
             "inserts name their columns, and no loader decision is taken from a positional sample of the data.",
        note="Trusts DuckDB's set semantics for the rest. Same known finding as C15."),

    "C05": dict(
        claimed=True, design="§3 C05",
        technique="grammar-derived operator arity vs def-use of the operand list per operator branch; CFG per-iteration must-append; SQL-skeleton scan for positional UNION ALL over star projections; classification of projection-skip conditions as order-sensitive or not; registry.sql answered from the extracted operator registry (templates and generators lowered); CFG must-pass-through: register_dataframes creates a table on every path of its loop (shared with C19); _visit_set_operation evaluated for a union used as an operand (statement output != union structure)",
        text="Decides the structural clauses of the set-operator property: every operand of the n-ary operators (arity read from Vtl.g4) "
             "reaches the generated SQL, each child contributes exactly one operand on every path, positional combination (UNION ALL) "
             "happens only over explicit name-based projections, nested query operands are not re-quoted, and matching keys are the "
             "identifiers. Found and repaired three defects (n-ary intersect, symdiff column mix-up, nested symdiff).",
        note="Does not decide that SEMI/ANTI JOIN on the identifier columns yields the VTL result (DuckDB semantics). union's "
             "first-occurrence numbering is a reasoned exemption of the order lint (see C15)."),

    "C32": dict(
        claimed=True, design="§3 C32",
        technique="writer/reader agreement between SQL error('…') texts and the ordered substring decision list of the error mappers; enclosing-handler analysis of data-evaluating execute sites reachable from execute_queries; bare-raise and visitor-coverage inventory on the execution path; non-message guards of mapper branches evaluated (E6) per execution site (statement text vs the empty text of the fetch site); macro-availability rule: macros called by load/fetch SQL vs the conditions under which execute_queries adds them to the installed closure; dataset-form vs classifier/structure-dispatcher contradiction rule over the node-class matrix; the repository's own macro-library parser evaluated (E6) on the real .sql files against a comment/string-aware reading; C26's constructibility rule on the error mappers; per-statement analyser state rule shared with C12; partial-operation lint of the error mappers; finite evaluation of scalar output formatting; typed-macro / connect-config agreement; every-path-raises rule for duckdb handlers; is_re2_incompatible evaluated over construct combinations; null-test dominance in _normalize_scalar_value (CFG); _round_significant evaluated over the kinds of float the engine can return (total, no raise); registry SQL of round / trunc with a component as precision casts the value operand to DOUBLE",
        text="Decides the structural conditions under which an execution failure can surface as a VTL error: every error text the "
             "engine's own SQL can raise is claimed by the intended branch of the mapper serving its execution site, every branch "
             "returns a coded VTL exception, statements that evaluate data are executed under a duckdb.Error handler that maps, no "
             "built-in exception is raised on the execution path, and the SQL transpiler has a handler for every AST node class. Found "
             "and repaired: the unmapped 2-1-19-21 channel. Known finding: unmapped DuckDB errors fall through raw.",
        note="Does not decide which DuckDB errors can occur for well-typed inputs; dictionary lookups keyed by script names are not "
             "traced back to their semantic checks."),

    "C01": dict(
        claimed=True, design="§3 C01",
        technique="operator-registry extraction (loops unrolled, generators lowered) + SQL expression parser + nullness abstract interpretation through macro bodies + exact three-valued evaluation vs Kleene tables + semantic-token vs SQL-generation-path comparison; abstract interpretation (E6) of the dataset-scalar operator builder for division in both operand orders; spelling grid of the period normaliser; hand-rolled cache keys vs parameters of the cached computation; wrapped-execute rule (every data-evaluating execute under `except duckdb.Error`, shared with C32); exact Integer carrier of the DataFrame loader (shared with C18); measure-name agreement of isnull three ways (validator / SELECT alias / structure as an operand) and of nested dataset-level operators (alias delivered == structure resolved for the enclosing operator), both sides evaluated",
        text="Decides four structural clauses of the element-wise operator property for every operator at once: each token accepted by "
             "semantic analysis has an SQL generation path; every element-wise SQL template (and every macro it calls) yields NULL when an "
             "operand is NULL; and/or/xor/not have the VTL three-valued truth tables; division by zero travels from the DIV template "
             "through error() to a catalogued runtime error; dataset-level if-then-else treats a null condition as else in its row "
             "filters. The values DuckDB computes (that + adds, that joins match the right rows) are not decided.",
        note="Trusts SQL semantics of DuckDB's scalar functions (NULL in -> NULL out), COALESCE, CASE, AND/OR. VTL's null rules are an "
             "oracle table in the checker. Found and repaired: null-condition row filter of if-then-else; isnull over a Boolean measure. Known findings (open): "
             "nested mono-measure operators `(DS_1 + DS_2) > 15` and `not(DS_1 > 1)` end in a raw BinderException (R01.13)."),

    "C08": dict(
        claimed=True, design="§3 C08",
        technique="macro-table extraction from the .sql libraries + integer evaluation of the parsed period-limit and period-shift expressions with DuckDB's // and % semantics over all (period, shift in -60..60) cells vs calendar arithmetic + sibling limit-table comparison + macro call-site/signature agreement; Date timeshift expression obtained by E6 and evaluated by the concrete SQL evaluator over a calendar grid (round trip, injectivity); time_agg macro text vs the calendar oracle (sa/calx.py); finite evaluation (datetime / calendar as primitives) of the Python calendar helpers over every leap-rule class of 1900-2100 against a calendar oracle; spelling grid; getyear template evaluated over a period grid; Python period patterns folded from their constant fragments and matched against the PeriodDuration limits; row filter of the loader's normalising UPDATE evaluated over the spelling grid (shared with C21)",
        text="Decides the arithmetic clauses of the calendar property that live in this repository: period limits must be year-aware for "
             "weeks and days, Python and SQL must agree on them, the carry/modulo arithmetic of period shifting must equal calendar "
             "arithmetic for every period number and every shift in -60..60 (so shifting by n then -n is the identity and distinct "
             "inputs stay distinct), and Python call sites must pass macro arguments in the order the macro declares. Does not decide "
             "anything computed by DuckDB date functions (time_agg, datediff, dateadd, getmonth).",
        note="Known findings: the SQL limits are the constants 52/365 (demonstrated collisions at week 53 / day 366). DuckDB's integer "
             "semantics (// truncates, % keeps the dividend's sign) is an external fact encoded in the evaluator."),

    "C19": dict(
        claimed=True, design="§3 C19",
        technique="decision table of the CREATE TABLE builder; CFG ordering/must-pass rules in post-load validation; regular-language inclusion (regex -> NFA -> product search with shortest witnesses) between load regexes and the language of real periods; docs tables vs loader accept-language through the parsed normalisation macro; CFG must-pass-through of the duplicate / temporal checks excluding only the documented skip branch; E6 composition of CSV read type and SELECT builder for Integer columns; interprocedural event summaries (normalise / duplicate / temporal / single-row) through same-module helpers, function specialisation under the skip flag; read-type + guard agreement for Integer; spelling grid with null-from-value clause; NOT NULL table incl. type-overridden columns; LIMIT-before-filter lint; _build_component evaluated over role x declared nullability; fetch time format (shared with C18); table-for-every-DataFrame CFG rule; canonicalisation under the load-validation switch (CFG specialised under the switch)",
        text="Decides the structural half of input rejection: NOT NULL constraints are emitted exactly for identifiers and non-nullable "
             "components; Time_Period values are normalised before duplicate/single-row/format checks, which lie on every path of every "
             "loader; the load regex admits only real periods (language inclusion with witnesses) and interval order is checked; every "
             "documented format and example is accepted. Automata decide these for ALL strings, which no generated table can.",
        note="Does not decide what DuckDB's own CAST accepts for Integer/Number/Boolean/Date text. Ten known findings (out-of-range "
             "periods accepted, reversed intervals accepted, documented Time forms rejected, three wrong documented examples)."),
    "C21": dict(
        claimed=True, design="§3 C21",
        technique="table agreement across five code sites + docs; Python renderers lowered by the finite decision-table evaluator and SQL macros evaluated from their parsed text on every (indicator, period number, leap/common year); round trip through the parsed normalisation macro and the load regex; spelling grid (family x padding x case) through the parsed normalisation macro; macro availability shared from C32; def-use rule on the Python literal normaliser; sequential written-globals inventory over the time-handling modules; canonicalisation under VTL_SKIP_LOAD_VALIDATION (CFG specialised under the switch); row filter of the loader's normalising UPDATE evaluated over the spelling grid",
        text="Decides that the four output formats are named consistently everywhere, that Python and SQL render every period of every "
             "indicator identically (or raise the same VTL error), that every rendered value normalises back to the same canonical, "
             "accepted period, that documented input spellings normalise to canonical periods, and that no format bypasses the "
             "representation step. Exhaustive over indicators and period numbers for one leap and one common year.",
        note="Years other than the two representatives are covered only to the extent the macros are year-independent text operations. "
             "Known findings: three wrong documented examples. Found and repaired: unmapped 2-1-19-21 (see C32)."),

    "C20": dict(
        claimed=True, design="§3 C20",
        technique="set comparison of coded rejections reachable (call graph) from the pandas validator vs the DuckDB loaders; regular-language symmetric difference (product automata with witnesses) of the two sides' temporal patterns; CFG ordering of the duplicate check; CFG must-pass-through of run()'s post-load checks (shared with C19); shared Integer CSV guard rule; spelling grid with null-from-value clause; memoised functions reading files; LIMIT-before-filter lint of the validation queries (shared with C19); configured-call rule for pandas read_csv on the validation side (keep_default_na=False, explicit na_values)",
        text="Decides agreement of the two sibling validators at the level where it is a property of the code's shape: both perform the "
             "same rejecting checks, both check duplicates on cast/normalised values, and the regular languages they accept for Date, "
             "Time and Time_Period are compared exactly, with a witness string for every difference. Automata quantify over all strings.",
        note="Dates/times are compared modulo digit ranges (Python validates ranges after its regex). Numeric types are not compared. "
             "Four known findings (extra columns; Date, Time and Time_Period language differences)."),
    "C18": dict(
        claimed=True, design="§3 C18",
        technique="CFG must-pass-through on the three loaders; per-type SQL of the CSV and DataFrame/Parquet SELECT builders obtained by lowering both builders over type x nullable x source type, compared for rejecting guards and for the Number conversion chain; header-order binding via C33; per-type comparison of the value-changing functions applied by the CSV and DataFrame/Parquet SELECT builders (E6); exact-carrier rule for the CSV read type; TIMESTAMP decision evaluated on model columns; model-connection evaluation of the fetch SELECT; partial-operation lint of the load error mapper; handle_sdmx_columns evaluated over header x structure combinations; CREATE TABLE vs cast-target override agreement per loader; fetch probe predicate evaluated on model rows (sub-second fractions); exact Integer carrier of the DataFrame loader; provenance rule: source types handed to the select-list builder come from the engine's description of the source",
        text="Decides the structural conditions for the three input forms to behave alike: one schema builder and one post-load "
             "validation on every loader's success path, failures mapped and the table dropped, identical rejecting guards per "
             "component type in the two SELECT builders, Number always converted from text, CSV columns bound by header order.",
        note="Does not decide equality of results for accepted inputs. Known finding: the Integer integrality guard exists only on the "
             "CSV path."),

    "C17": dict(
        claimed=True, design="§3 C17",
        technique="lock-coverage analysis of every access to the compiled parser's global buffer (lexical with-regions + caller-side coverage via the call graph); inventory of process-global state (module globals, class attributes, module-level containers) with writers/readers intersected with API reachability and classified; def-use of the session directory name; conditional classification re-checked against dynamically dispatched visitor methods; hand-rolled cache detector; module-level objects mutated through aliases; class-level mutable defaults mutated through an instance are inventoried as process globals; dependency-analysis visit methods count as API-reachable writers",
        text="Decides the structural conditions of thread safety that are visible in the code: the parser's single global buffer is only "
             "touched under the re-entrant parser_lock; every piece of process-global state on an API path is either protected, "
             "environment-derived, or reported; per-call resources have per-call unique names. A data race needs one specific "
             "interleaving to manifest - a static inventory finds the racing pair of sites without having to hit it.",
        note="Does not decide atomicity inside the C++ extension or DuckDB. Six known findings (registry, dataset_output, four operator "
             "class attributes used as scratch variables), three demonstrated with forced interleavings (triage/race_demo.py)."),
    "C10": dict(
        claimed=True, design="§3 C10",
        technique="def-use provenance of structure objects from interpreter.visit() to the returned Dataset/Scalar; AST shape rule on the fetch projection; who-may-write rule over structure fields (execution pipeline) and reviewed-writer table for role/nullable; structure model (E6) of membership (validator vs structure builder vs SELECT list); row-multiplicity rule for exists_in (JOIN keys vs identifiers of the probed operand); finite evaluation of If.validate over component nullability; vtl_tp_shift cells (shared with C08); operand-mutation effect analysis over the analytic / aggregation / time validators (shared with C12); declared measures == delivered measure columns for dataset-level analytic operators and for isnull (both sides evaluated); Set.validate evaluated on three operands over type / nullability triples (shared with C11)",
        text="Decides the structural clause of the property: run() returns the very structure objects its semantic pass (configured like "
             "semantic_analysis()) produced; the fetch query projects the declared components in declared order (no physical-order "
             "SELECT * when components are declared); nothing in the execution pipeline rewrites type/role/nullability/components of "
             "those objects; an Identifier cannot be made nullable at or after construction. Does not decide value conformance, "
             "identifier uniqueness or the at-most-one-datapoint clause (DuckDB evaluates the generated SQL).",
        note="Structure fields are assumed to change only through attribute stores / dict mutation (no setattr tricks exist). Known "
             "finding: fetch_result relabels Null-typed scalars from the DuckDB column type."),
    "C24": dict(
        claimed=True, design="§3 C24",
        technique="writer/reader agreement between the ASTString renderer (specialised to pretty mode by branch pruning) and the grammar + AST constructor: typed field-read inventory vs constructed node classes, operator dispatch vs grammar alternative shapes (ANTLR .g4 reader), elided defaults vs downstream defaults, literal/name formatting vs lexer tokens (constant-folded reserved-word table, quote-provenance analysis of the constructor), taint rule for text rewriting, CFG set/reset pairing of rendering flags; positional-list iteration rule (no filtering of params/children/operands); inventory of long-lived renderer instances (stateful class bound at module/class level); presence tests of Optional scalar fields must be `is None` (type read from the AST dataclasses), attributed to rendering mode; finite evaluation of the quote flag on names the grammar's IDENTIFIER does not admit; _break_parentheses evaluated on literal-bearing expressions (literals read back with the lexer's rule)",
        text="Decides the structural clauses of meaning preservation: prettify() loses no field of any node the parser can build; every "
             "operator is written in the shape the grammar reads back; parameters omitted as defaults are the defaults assumed when absent; "
             "numbers, booleans, nulls are written losslessly with the lexer's own spellings; every keyword is in the re-quoting table and "
             "every name whose quotes the constructor strips is re-quoted; rendered text is never rewritten without regard to quotes; "
             "comments are all attached and written verbatim; rendering flags cannot leak between statements. Found and repaired five "
             "defects. Does not decide that the output parses and evaluates identically (the parser cannot run here).",
        note="Grammar alternative <-> constructor method pairing relies on the ANTLR visitX naming / the constructor's ctx_id dispatch. "
             "Names that need quotes without being reserved words (e.g. 'my ds') are not covered. Known finding: 3.0 is written 3."),
    "C25": dict(
        claimed=True, design="§3 C25",
        technique="totality of ast_to_sdmx's isinstance dispatch over the return-class closure of the AST constructor's visitStatement (class hierarchy aware); def-use of the Transformation/Ruleset/UDO fields; per-branch counter/append ordering; compact-mode field-read inventory of the renderer; the literal/operator/default/name rules and the interprocedural text-rewrite taint rule shared with C24; positional-list iteration rule; one renderer instance per rendering (inventory of long-lived instances of the stateful renderer class); ruleset items evaluated on model nodes with a renderer model that marks rendered text; finite evaluation of ast_to_sdmx on a whole model script; sequential written-globals inventory over the API layer",
        text="Decides the structural clauses of scheme equivalence: every kind of top-level statement the parser can build is mapped "
             "(subclass before base), each assignment gives one Transformation carrying the statement's own result name, "
             "persistence constant and rendered right-hand side, item ids come from counters incremented once per item, definitions "
             "are rendered whole with type/scope labels following the node, the compact renderer loses no field and obeys the same "
             "lossless literal / operator-shape / naming rules as prettify, and the rendered texts are not rewritten afterwards. "
             "Does not decide that running the scheme gives the same results (parser and pysdmx needed).",
        note="pysdmx's generate_vtl_script (scheme -> script) is trusted. Known findings: ViralPropagationDef statements are dropped; "
             "3.0 written as 3."),
    "C23": dict(
        claimed=True, design="§3 C23",
        technique="lexical/brace-matched analysis of bindings.cpp (ParserState members vs resets before parser->start(), listener installation); statement-CFG must-pass-through / must-precede rules on the function that calls parse(); call-graph parse-path set checked for memoisation decorators and for process-global containers without per-parse reset (globals inventory); acquire/release pairing of the parser lock on normal and exceptional exits (incl. generator context managers); raise-site inventory with grammar-exhaustiveness of ctx_id dispatch chains (ANTLR .g4 reader); inventory of import-time instances of mutable in-repo classes used on the parse path; CFG dominance of the per-parse reset over every call that reaches a user of the container; lock obligation attributed to the branch of an acquire(timeout) condition that holds the lock; taint rule: caller text never the receiver of str.format; coded-exception sites of the AST modules (code catalogued, placeholders supplied; shared with C26); sequential written-globals inventory over vtlengine.AST; total-predicate rule for the file-system probe of load_vtl on possibly-script text",
        text="Decides the structural clauses of the parser property: every piece of the C++ parser's global state is reset per parse and "
             "errors of lexer and parser are collected; the Python side reads this parse's error after parse() and raises "
             "VTLSyntaxError with the parser's own position before the tree is used, on every path; no function on the parse path "
             "is memoised and no process-global container filled while parsing survives into the next parse; the parser lock "
             "cannot stay held after a failing parse; the parse path raises VTL errors only, except behind dispatch chains that "
             "are exhaustive over the grammar. Found and repaired: ruleset signatures leaking from one parse into the next.",
        note="Crashes/hangs inside the ANTLR C++ runtime (deep nesting, malformed UTF-8) and whether reported positions lie inside "
             "the input are not decided; bindings.cpp is analysed as text. 32 bare `raise NotImplementedError` sites behind tests on "
             "optional parts are counted, not decided. Eight known findings (built-in exceptions for grammar-valid constructs)."),
    "C03": dict(
        claimed=True, design="§3 C03",
        technique="typed field-read inventory of the SQL transpiler for Aggregation; paired-field rule (grouping/grouping_op); CFG must-reach of the translated having condition to the builder's HAVING in both aggregation paths; def-use provenance of the group-identifier lists (operand structure vs statement output structure); who-may-call rule (no WHERE on the aggregating builder); registry templates vs the grammar's aggregate operators (same-name rule); clause-scope coverage of the translated having / aggregate / grouping expressions; structure model (E6): Aggregation.validate vs the StructureVisitor's aggregation builder; decision table of the type-aware aggregate override; path form of the dependency traversal for aggregations; unknown-name resolution evaluated; time_agg grouping-key macro evaluated against the calendar (shared with C08); effect analysis of the interpreter's aggregation / having handlers (no mutation of the shared parts of an operand structure, instance-attribute hops followed; shared with C12)",
        text="Decides the structural clauses of aggregation: no part of the aggregation syntax is ignored by the SQL generation; the "
             "grouping list is interpreted with its by/except/all operator; a having condition cannot be dropped on any path; the "
             "identifiers that define the groups come from the operand and the grouping clause, not from the statement's final "
             "structure; no row filter precedes GROUP BY (groups cannot disappear); each of the ten aggregate operators is the SQL "
             "aggregate of the same name. Does not decide the aggregate values DuckDB computes.",
        note="Known finding: the no-grouping branch of the aggr clause uses the statement's output structure (nested use fails with a raw "
             "DuckDB error). Null handling inside DuckDB's aggregates is trusted."),
    "C04": dict(
        claimed=True, design="§3 C04",
        technique="typed field-read inventory for JoinOp/NvlJoinPair; constant folding of the join-keyword expression over the grammar's join tokens; sibling-site agreement in visit_JoinOp (FULL JOIN key coalescing in SELECT and ON; nvl defaults in every projection branch); CFG rule on the per-statement reset of join scratch state with wrapper summaries; restoring-context-manager rule for attribute rebinding; join model: abstract interpretation (E6) of Operators.Join.*.validate and SQLTranspiler.visit_JoinOp on small operand structures, comparing SELECT list with the semantic components and every ON clause with the relational definition (keys, referenced operand, join type); CFG rule alias-recorded-after-operand; finite evaluation of the join prefix stripping; Alias.validate evaluated for text and registered-dataset aliases; row filter of the output-representation UPDATE evaluated on outer-join NULL patterns; FullJoin.identifiers_validation evaluated on identifier-set relations (equal / subset / overlap)",
        text="Decides the structural clauses of joins: using / nvl / every clause are consumed; the four join operators select four "
             "different SQL joins; full-join keys are coalesced across the joined operands wherever the joined side is referenced; "
             "join scratch state cannot leak from one statement into the next; nvl defaults apply in every projection branch. Found "
             "and repaired: three-way full_join duplicated keys. Does not decide which rows DuckDB's join returns for the ON clause.",
        note="The choice of the left-hand alias of ON clauses for inner/left joins is not decided (seeded change C04_1 is missed)."),
    "C06": dict(
        claimed=True, design="§3 C06",
        technique="typed field-read inventory for Analytic/Windowing/OrderBy; paired-field rule (partition_by/partition_op, bounds/modes); guard-emission pairing on the CFG of the OVER-clause builder (strict ORDER BY guard); registry templates vs the grammar's analytic operators (same-name rule, sibling shape agreement); evaluation of the window-bound formatter over all bound shapes; abstract interpretation (E6) of visit_Windowing over every frame shape (offsets 0-3, unbounded, current; data points / range; date ordering) against the offset semantics of the frame; decision table (E6) of the AST constructor's window-limit ordering; spelling grid; window-kind comparisons vs grammar token texts; dependency handlers of analytic nodes (field matrix + every-path traversal, shared with C12); _resolve_udo_name evaluated on swapped / shifted operator bindings (no variable capture); declared measures of Analytic.validate == measure columns of the dataset-level analytic SELECT (both evaluated, 1 and 2 measures; shared with C10); existential TIMESTAMP decision of the DataFrame loader (shared with C18)",
        text="Decides the structural clauses of analytic invocations: partition, order, window and parameters all reach the OVER "
             "clause; `partition except` is honoured wherever the partition is used; ORDER BY is emitted exactly when the script "
             "has an order by and the frame exactly when it has a window; every analytic operator is the SQL window function of the "
             "same name with no null/duplicate modifiers and sibling operators agree; window types and bounds are mapped as VTL "
             "defines them. Does not decide the values DuckDB computes over a given OVER clause.",
        note="Analytic without order by (frame without ORDER BY) is reported under C15/C33, since C06 speaks about total orderings."),
    "C07": dict(
        claimed=True, design="§3 C07",
        technique="typed field-read inventory for the validation node classes; enum-member vs comparison-constant coverage of the mode dispatch; alias analysis from the ruleset/operator registries to mutation sites (interprocedural over transpiler methods); reader/writer agreement on the hierarchy pivot's presence columns; exact three-valued evaluation of the parsed SQL that filters invalid rows and gates errorcode/errorlevel; finite decision table (E6) of the errorcode/errorlevel literal helper (NULL iff absent); taint from the measure to the presence expression of the hierarchy pivot; structure model of check() (validator vs structure builder vs SELECT list); def-use rule on the hierarchical-ruleset sorter (sorted list = permutation of all rules); positional / definitional identification of SQL holes in the gating CASE and WHERE; effect analysis of the validation operators; def-use rule on the hierarchy `all` projection; hierarchy rule selection of visit_HROperation evaluated on rulesets with WHEN-guarded rules (which rules aggregate; one rule per code item)",
        text="Decides the structural clauses of validation: error codes/levels, imbalance, output and validation modes are all consumed; "
             "every validation mode is dispatched and zero substitution is tied to absence of a code item in exactly the *_zero modes; "
             "no statement can edit the ruleset definitions that later statements use; for check, check_datapoint and "
             "check_hierarchy the invalid-mode filter and the errorcode/errorlevel gating select exactly the FALSE outcome of a rule "
             "(truth tables over TRUE/FALSE/NULL, and over when/then outcomes). Does not decide the rule expressions' values or "
             "hierarchy's rule ordering.",
        note="SQL three-valued logic is an oracle in the checker. check_datapoint `components` is validated semantically only (reasoned exemption)."),
    "C28": dict(
        claimed=True, design="§3 C28",
        technique="CFG must-pass-through on the interpreter's statement loop (1-3-3-6 before store); def-use from ViralPropagationDef fields to the rule constructor and rule-field read inventory; table extraction (_AGG_BINARY/_AGG_GROUP vs grammar tokens); exact rational evaluation of the parsed two-operand SQL forms for associativity/commutativity vs the N-ary fold; structural order of CASE arms; order lint + paired-field rule for the group/window forms; call-site inventory of vp_* helpers per operator handler; UNION ALL rule on row sets gathered for a propagation reduction; viral-attribute shapes through interpreter and StructureVisitor models; enumerated CASE generated and evaluated for all value pairs; group form lowered per rule kind; aggregation structure model (viral projection); merged_viral_attribute_names evaluated over all occurrence patterns in 2 and 3 operands; _enumerated_single_case evaluated for rules with and without an else (unmatched value takes the default / NULL)",
        text="Decides the structural clauses of viral propagation: a result with a rule-less viral attribute cannot be stored; every "
             "part of a rule definition reaches the SQL generation; the four aggregate functions are in both tables and a two-operand "
             "form folded over N operands is associative and commutative or has its own N-ary form; two-value clauses are tested "
             "before one-value clauses; partition-only windows honour partition_op; the helpers are applied in binary, aggregation, "
             "join and analytic handlers and not in clauses or set operators. Found and repaired: avg folded pairwise over 3+ "
             "joined datasets. Does not decide the propagated values DuckDB computes.",
        note="Known findings: the enumerated fold over a group (list_reduce(list(col))) is input-order dependent (two forms)."),
    "C02": dict(
        claimed=True, design="§12.7 C02",
        technique="abstract interpretation over a finite structure domain (component names and roles): the interpreter's clause validators, the StructureVisitor's clause builders and the SQL clause handlers are read from source and evaluated by the E6 evaluator on mock structures for every small operand list; their component sets / SELECT lists / WHERE conditions are compared; three-valued evaluation of the filter predicate; restoring-context-manager rule; typed field-read inventory; calc with every role keyword (roles of validator vs builder), expression-scope analysis of nested SELECT levels, clause-scope coverage of translated component expressions; effect analysis of clause validators (operand mutation); path form of the dependency traversal; model evaluation of the final join un-qualification; join bookkeeping reset per statement (state discipline shared with C04/C12); prefix stripping after a join evaluated on abstract join results (dict key == component name, shared with C04)",
        text="Decides the structural half of the clause property: for calc, keep, drop, rename and sub the three pieces of code that say "
             "which components the result has (semantic validator, transpiler structure builder, SELECT list of the generated SQL) agree on "
             "every small operand list the validator accepts, i.e. the clause changes exactly the listed components; filter hands the "
             "condition itself to WHERE (kept iff TRUE, also in the window-function variant) and changes no column; sub removes the fixed "
             "identifiers and tests each with one equality; the clause scope is restored on every exit. Does not decide the per-datapoint "
             "values of calc expressions and filter conditions.",
        note="The abstract domain carries names and roles only (types and nullability are C10/C11's). SQLBuilder is modelled as an accumulator. "
             "Operand lists of length 1-2 over a dataset with 2 identifiers, 3 measures, an attribute and a viral attribute; join-qualified names "
             "(alias#component) are not in the domain."),
    "C29": dict(
        claimed=True, design="§12.7 C29",
        technique="inventory and receiver classification of every case-folding string method call in the package; shape rule on the VTL-name -> SQL-identifier function against DuckDB's case-insensitive identifier comparison (external fact encoded in the rule); clause model over case-variant component names (key == name, case-sensitive three-way comparison); CFG must-pass DROP in the deletion loop; must-reject cases of the clause validators; CFG pairing conn.register / unregister; semantic validators evaluated with case variants of existing component names",
        text="Decides the two places where this repository can merge names that differ only in case: the Python side never folds the "
             "case of a component, dataset or alias name (every .lower()/.upper()/... call is inventoried and classified; the two "
             "that touch names only attribute error messages), and the function that writes a VTL name into SQL is checked for "
             "injectivity under DuckDB's case-insensitive identifier comparison - it is not, which is the known finding: such "
             "structures fail with a raw DuckDB catalog error. Nothing inside DuckDB is decided.",
        note="DuckDB's identifier folding is an external fact (documented; confirmed by triage/c29_case_demo.py). Known finding: quote_name is the identity."),
}

NA_REASONS = {
    "C31": "SLL-vs-LL equivalence is a property of the ANTLR ATN simulator on the grammar's ambiguity structure; no "
           "grammar-level static criterion in reach decides it and the generated C++ cannot be analysed without its headers",
}
ALL = [f"C{i:02d}" for i in range(1, 34)]
