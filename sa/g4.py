"""ANTLR4 grammar reader for Vtl.g4 / VtlTokens.g4 (purpose-built, fails closed).

Parser rules become  Rule(name, [Alt(label, elems)])  with elements
    Tok(name)           lexer token reference (UPPERCASE identifier)
    Ref(name)           parser rule reference (lowercase identifier)
    Group([Alt...])     parenthesised alternatives
each carrying an optional element label (`op=`, `left=`, `condExpr+=`) and a suffix ('' ? * +).
Lexer rules that are plain literals become  TOKENS[name] = 'text'.
"""
from __future__ import annotations

import re
from dataclasses import dataclass, field
from pathlib import Path
from typing import Dict, Iterator, List, Optional, Set, Tuple, Union

from sa.core import AnalysisError, Program


@dataclass
class Elem:
    kind: str  # 'tok' | 'ref' | 'group' | 'lit'
    name: str = ""
    alts: List["Alt"] = field(default_factory=list)
    label: Optional[str] = None
    suffix: str = ""
    line: int = 0

    def optional(self) -> bool:
        return self.suffix in ("?", "*")

    def repeated(self) -> bool:
        return self.suffix in ("*", "+")


@dataclass
class Alt:
    label: Optional[str]
    elems: List[Elem]
    line: int = 0


@dataclass
class Rule:
    name: str
    alts: List[Alt]
    line: int = 0


_TOK = re.compile(r"""
    (?P<ws>\s+)
  | (?P<mlc>/\*.*?\*/)
  | (?P<slc>//[^\n]*)
  | (?P<lit>'(?:\\.|[^'\\])*')
  | (?P<id>[A-Za-z_][A-Za-z_0-9]*)
  | (?P<num>[0-9]+)
  | (?P<pluseq>\+=)
  | (?P<arrow>->)
  | (?P<range>\.\.)
  | (?P<cset>\[(?:\\.|[^\]\\])*\])
  | (?P<p>[:;|()?*+=\#~.{},<>])
""", re.S | re.X)


def _lex(text: str) -> List[Tuple[str, str, int]]:
    out = []
    i, line = 0, 1
    while i < len(text):
        m = _TOK.match(text, i)
        if not m:
            raise AnalysisError(f"g4: cannot tokenise at line {line}: {text[i:i+30]!r}")
        k = m.lastgroup
        s = m.group(0)
        if k not in ("ws", "mlc", "slc"):
            out.append((k, s, line))
        line += s.count("\n")
        i = m.end()
    return out


class _Parser:
    def __init__(self, toks: List[Tuple[str, str, int]]) -> None:
        self.t = toks
        self.i = 0

    def peek(self, off: int = 0) -> Tuple[str, str, int]:
        j = self.i + off
        return self.t[j] if j < len(self.t) else ("eof", "", -1)

    def eat(self, s: Optional[str] = None) -> Tuple[str, str, int]:
        k = self.peek()
        if s is not None and k[1] != s:
            raise AnalysisError(f"g4: expected {s!r} at line {k[2]}, found {k[1]!r}")
        self.i += 1
        return k

    def rules(self) -> Dict[str, Rule]:
        out: Dict[str, Rule] = {}
        # header: (parser|lexer)? grammar X ; options {...}
        while self.peek()[1] in ("parser", "lexer", "grammar", "options", "fragment") or self.peek(1)[1] != ":":
            if self.peek()[0] == "eof":
                return out
            if self.peek()[1] == "fragment":
                self.eat()
                break
            if self.peek()[1] == "options":
                while self.peek()[1] != "}":
                    self.eat()
                self.eat("}")
                continue
            while self.peek()[1] != ";":
                self.eat()
            self.eat(";")
        while self.peek()[0] != "eof":
            if self.peek()[1] == "fragment":
                self.eat()
            k, name, line = self.eat()
            if k != "id":
                raise AnalysisError(f"g4: rule name expected at line {line}, found {name!r}")
            self.eat(":")
            alts = self.alts(top=True)
            self.eat(";")
            out[name] = Rule(name, alts, line)
        return out

    def alts(self, top: bool = False) -> List[Alt]:
        res = [self.alt(top)]
        while self.peek()[1] == "|":
            self.eat()
            res.append(self.alt(top))
        return res

    def alt(self, top: bool) -> Alt:
        elems: List[Elem] = []
        line = self.peek()[2]
        label = None
        while True:
            k, s, ln = self.peek()
            if s in ("|", ";", ")") or k == "eof":
                break
            if s == "#":
                self.eat()
                label = self.eat()[1]
                continue
            if s == "->":  # lexer command
                self.eat()
                self.eat()
                if self.peek()[1] == "(":
                    while self.eat()[1] != ")":
                        pass
                continue
            elems.append(self.elem())
        return Alt(label, elems, line)

    def elem(self) -> Elem:
        k, s, ln = self.peek()
        lab = None
        if k == "id" and self.peek(1)[1] in ("=", "+="):
            lab = s
            self.eat()
            self.eat()
            k, s, ln = self.peek()
        if s == "~":
            self.eat()
            inner = self.elem()
            e = Elem("lit", "~" + (inner.name or "(...)"), line=ln)
            e.suffix = inner.suffix
            e.label = lab
            return e
        if s == "(":
            self.eat()
            alts = self.alts()
            self.eat(")")
            e = Elem("group", "", alts, line=ln)
        elif k == "id":
            self.eat()
            e = Elem("tok" if s[0].isupper() else "ref", s, line=ln)
        elif k in ("lit", "cset"):
            self.eat()
            e = Elem("lit", s, line=ln)
            if self.peek()[0] == "range":
                self.eat()
                hi = self.eat()[1]
                e.name = f"{s}..{hi}"
        elif s == ".":
            self.eat()
            e = Elem("lit", ".", line=ln)
        else:
            raise AnalysisError(f"g4: unexpected {s!r} at line {ln}")
        if self.peek()[1] in ("?", "*", "+"):
            e.suffix = self.eat()[1]
            if self.peek()[1] == "?":  # non-greedy
                self.eat()
        e.label = lab
        return e


@dataclass
class Grammar:
    rules: Dict[str, Rule]
    tokens: Dict[str, str]  # lexer token -> literal text (only for plain-literal tokens)
    lexer_rules: Dict[str, Rule]

    def labelled_alts(self) -> Dict[str, List[Tuple[Rule, Alt]]]:
        out: Dict[str, List[Tuple[Rule, Alt]]] = {}
        for r in self.rules.values():
            for a in r.alts:
                if a.label:
                    out.setdefault(a.label, []).append((r, a))
        return out

    def token_text(self, name: str) -> Optional[str]:
        return self.tokens.get(name)

    def label_tokens(self, alt: Alt, label: str) -> Optional[Set[str]]:
        """Lexer tokens the element labelled `label=` of this alternative can be (None if it is not a token set)."""
        for e in iter_elems(alt.elems):
            if e.label == label:
                return self.elem_tokens(e)
        return None

    def elem_tokens(self, e: Elem, _depth: int = 0) -> Optional[Set[str]]:
        if e.kind == "tok":
            return {e.name}
        if e.kind == "group":
            out: Set[str] = set()
            for a in e.alts:
                if len(a.elems) != 1:
                    return None
                s = self.elem_tokens(a.elems[0], _depth + 1)
                if s is None:
                    return None
                out |= s
            return out
        if e.kind == "ref" and _depth < 6 and e.name in self.rules:
            out = set()
            for a in self.rules[e.name].alts:
                if len(a.elems) != 1:
                    return None
                s = self.elem_tokens(a.elems[0], _depth + 1)
                if s is None:
                    return None
                out |= s
            return out
        return None

    def first_tokens(self, alt: Alt) -> Optional[Set[str]]:
        if not alt.elems:
            return None
        e = alt.elems[0]
        if e.optional():
            return None
        return self.elem_tokens(e)


def iter_elems(elems: List[Elem]) -> Iterator[Elem]:
    for e in elems:
        yield e
        if e.kind == "group":
            for a in e.alts:
                yield from iter_elems(a.elems)


def load(P: Program) -> Grammar:
    gdir = P.root / "AST" / "Grammar"
    pg, lg = gdir / "Vtl.g4", gdir / "VtlTokens.g4"
    if not pg.exists() or not lg.exists():
        raise AnalysisError("anchor vanished: Vtl.g4 / VtlTokens.g4")
    rules = _Parser(_lex(pg.read_text())).rules()
    lrules = _Parser(_lex(lg.read_text())).rules()
    tokens: Dict[str, str] = {}
    for name, r in lrules.items():
        if len(r.alts) == 1 and len(r.alts[0].elems) == 1 and r.alts[0].elems[0].kind == "lit" \
                and r.alts[0].elems[0].name.startswith("'") and ".." not in r.alts[0].elems[0].name:
            lit = r.alts[0].elems[0].name[1:-1]
            tokens[name] = lit.replace("\\'", "'").replace("\\\\", "\\")
    if len(rules) < 60 or len(tokens) < 150:
        raise AnalysisError(f"g4: only {len(rules)} parser rules / {len(tokens)} literal tokens read (anchor changed)")
    return Grammar(rules, tokens, lrules)
