"""SQL lint: `/` between two INTEGER-typed operands.  DuckDB's `/` is always floating-point division (1.0+ semantics:
`(4 - 1) / 3 + 1` is 2.0 and CAST(… AS VARCHAR) gives '2.0'; integer division is `//`).  An index, period number or
count computed with `/` therefore becomes a DOUBLE; written into an identifier-like text it yields e.g. '2020-Q2.0'.

The rule needs no statistics: it is a typing fact of the engine.  Integer-typed (closed under + - * // % and unary minus):
integer literals, the date-part / length / position functions, CAST(… AS <integer type>).  Anything else (a column, a macro
parameter, a hole) is of unknown type and never reported."""
from __future__ import annotations

from typing import List, Optional, Tuple

from sa import sqlexpr, sqlx

INT_FUNCS = {"year", "month", "day", "isodow", "isoyear", "weekofyear", "week", "quarter", "dayofyear", "dayofweek", "dayofmonth", "hour", "minute",
             "length", "len", "strlen", "instr", "position", "strpos", "datediff", "date_diff", "ascii", "bit_length", "octet_length", "levenshtein",
             "hamming", "damerau_levenshtein", "array_length", "list_count", "count"}
INT_TYPES = {"INTEGER", "INT", "BIGINT", "SMALLINT", "TINYINT", "HUGEINT", "UBIGINT", "UINTEGER", "INT4", "INT8", "INT2", "LONG"}


def is_int(e: sqlexpr.E) -> bool:
    if e.kind == "lit":
        return (isinstance(e.val, int) and not isinstance(e.val, bool)) or (isinstance(e.val, str) and e.val.isdigit())
    if e.kind == "call":
        return str(e.val).lower() in INT_FUNCS
    if e.kind == "cast":
        return str(e.val).upper().split("(")[0] in INT_TYPES
    if e.kind == "unop" and e.val in ("-", "+"):
        return is_int(e.args[0])
    if e.kind == "binop" and e.val in ("+", "-", "*", "//", "%"):
        return all(is_int(a) for a in e.args)
    return False


def _walk(e: sqlexpr.E):
    yield e
    for a in e.args:
        if isinstance(a, sqlexpr.E):
            yield from _walk(a)
    if isinstance(e.extra, (list, tuple)):
        for x in e.extra:
            if isinstance(x, sqlexpr.E):
                yield from _walk(x)
            elif isinstance(x, (list, tuple)):
                for y in x:
                    if isinstance(y, sqlexpr.E):
                        yield from _walk(y)
    elif isinstance(e.extra, sqlexpr.E):
        yield from _walk(e.extra)


def issues(text: str) -> List[Tuple[int, str]]:
    """(offset of the `/`, text of the division) for every int / int division in a SQL text (macro body or skeleton)"""
    toks = sqlx.tokenize(text)
    out: List[Tuple[int, str]] = []
    seen = set()
    for i, t in enumerate(toks):
        if t.text != "/":
            continue
        # innermost parenthesised group containing the operator, widened until it parses
        depth, j = 0, i
        starts: List[int] = []
        while j >= 0:
            if toks[j].text == ")":
                depth += 1
            elif toks[j].text == "(":
                if depth == 0:
                    starts.append(j)
                else:
                    depth -= 1
            j -= 1
        parsed: Optional[sqlexpr.E] = None
        for s in starts:
            e_idx = sqlx.matching_paren(toks, s)
            if e_idx >= len(toks):
                continue
            frag = text[toks[s].pos + 1: toks[e_idx].pos]
            try:
                parsed = sqlexpr.parse(frag)
            except sqlexpr.ParseError:
                continue
            hits = [x for x in _walk(parsed) if x.kind == "binop" and x.val == "/"]
            if hits:
                for h in hits:
                    if all(is_int(a) for a in h.args):
                        key = (toks[s].pos, repr(h))
                        if key not in seen and not any(k[1] == repr(h) and k[0] <= toks[s].pos for k in seen):
                            seen.add(key)
                            out.append((t.pos, _render(h)))
                break
    # de-duplicate by rendered text
    uniq, res = set(), []
    for pos, r in out:
        if r not in uniq:
            uniq.add(r)
            res.append((pos, r))
    return res


def _render(e: sqlexpr.E) -> str:
    if e.kind == "lit":
        return str(e.val)
    if e.kind in ("ident", "ph"):
        return str(e.val)
    if e.kind == "call":
        return f"{str(e.val).upper()}({', '.join(_render(a) for a in e.args)})"
    if e.kind == "cast":
        return f"CAST({_render(e.args[0])} AS {e.val})"
    if e.kind == "binop":
        return f"({_render(e.args[0])} {e.val} {_render(e.args[1])})"
    if e.kind == "unop":
        return f"{e.val}{_render(e.args[0])}"
    return e.kind


def rule(rep, P, rule_id: str, only_macros=None, skeleton_prefixes=None) -> int:
    """report every int / int division in the macro libraries (optionally only some macros) and in the Python SQL skeletons"""
    from sa.core import Finding
    n = 0
    macros = sqlx.load_macros(P)
    for name, m in sorted(macros.items()):
        if only_macros is not None and name.lower() not in only_macros:
            continue
        ndiv = sum(1 for t in sqlx.tokenize(m.body) if t.text in ("/", "//"))
        if ndiv:
            n += ndiv
            rep.instance(rule_id, f"division/macro:{name}", nontrivial=True, sample={"divisions": ndiv})
        for pos, r in issues(m.body):
            rep.add(Finding(rule_id, f"{rule_id}/int-division/macro:{name}/{r}", m.file, m.line + m.body.count("\n", 0, pos), f"macro:{name}",
                            f"`{r}` divides two integers with `/`: in DuckDB that is floating-point division ((4 - 1) / 3 + 1 = 2.0, written '2.0' by CAST(… AS VARCHAR)); the sibling macros "
                            f"use `//`. A period number / index computed this way is written with a decimal point (e.g. '2020-Q2.0') or compares unequal to the integer it should be"))
    if skeleton_prefixes is not None:
        for sk in sqlx.iter_skeletons(P):
            if not sk.module.name.startswith(tuple(skeleton_prefixes)):
                continue
            ndiv = sum(1 for t in sqlx.tokenize(sk.text) if t.text in ("/", "//"))
            if ndiv:
                n += ndiv
                rep.instance(rule_id, f"division/{sk.where}:{sk.line}", nontrivial=True, sample={"divisions": ndiv})
            for _pos, r in issues(sk.text):
                rep.add(Finding(rule_id, f"{rule_id}/int-division/{sk.where}/{r}", sk.module.rel, sk.line, sk.where,
                                f"`{r}` divides two integers with `/` in generated SQL: DuckDB's `/` is floating-point division; use `//` for an integer result"))
    return n
