"""Mini SQL expression parser + abstract evaluators (nullness, three-valued logic) for operator templates and macro bodies.

Grammar subset (what the repo's templates and scalar macro bodies use): literals, identifiers (optionally qualified /
struct field access), placeholders {0} {1} and holes ⟦…⟧, function calls, CAST(x AS T), x::T, unary -/+/NOT, binary
+ - * / % || = <> != < > <= >= AND OR, IS [NOT] NULL, IS [NOT] DISTINCT FROM, [NOT] IN (…), [NOT] BETWEEN a AND b,
[NOT] LIKE, CASE [x] WHEN … THEN … [ELSE …] END, parenthesised expressions, struct literals {…}, list literals […],
lambdas (a, b) -> expr (opaque), subqueries (opaque).
Anything else raises ParseError (callers turn that into ANALYSIS-ERROR or skip with a recorded reason).
"""
from __future__ import annotations

from dataclasses import dataclass, field
from typing import Any, Callable, Dict, List, Optional, Tuple

from sa.sqlx import Tok, tokenize


class ParseError(Exception):
    pass


@dataclass
class E:
    kind: str  # lit | null | ident | ph | call | cast | unop | binop | isnull | isdistinct | in | between | case | opaque | struct | field
    val: Any = None
    args: List["E"] = field(default_factory=list)
    extra: Any = None

    def __repr__(self) -> str:
        return f"{self.kind}:{self.val}({', '.join(map(repr, self.args))})"


BIN_PREC = {"OR": 1, "AND": 2, "=": 4, "<>": 4, "!=": 4, "<": 4, ">": 4, "<=": 4, ">=": 4, "LIKE": 4, "ILIKE": 4,
            "||": 6, "+": 7, "-": 7, "*": 8, "/": 8, "//": 8, "%": 8, "->": 0}


class Parser:
    def __init__(self, text: str, let: bool = False) -> None:
        self.toks = tokenize(text)
        self.i = 0
        self.let = let  # parse `(SELECT e FROM (SELECT e1 AS n1, …) AS a)` as a let-binding instead of an opaque subquery

    def _binding_select(self) -> List[List[Tuple[str, "E"]]]:
        """after `(`: SELECT item [, item …] [FROM ( <binding select> ) [[AS] alias]] `)` - a row source without a table: returns the
        binding layers, innermost first.  item: <expr> AS name | name"""
        self.eat("SELECT")
        binds: List[Tuple[str, E]] = []
        while True:
            ex = self.expr(0)
            if self.up() == "AS":
                self.eat()
                nm = self.eat().text.strip('"')
            elif ex.kind == "ident":
                nm = str(ex.val).strip('"')
            else:
                raise ParseError("select item without a name")
            binds.append((nm, ex))
            if self.peek() is not None and self.peek().text == ",":
                self.eat()
                continue
            break
        layers: List[List[Tuple[str, E]]] = []
        if self.up() == "FROM":
            self.eat()
            self.eat("(")
            layers = self._binding_select()
            if self.up() == "AS":
                self.eat()
            if self.peek() is not None and self.peek().kind in ("ident", "qident") and self.peek().text != ")":
                self.eat()
        self.eat(")")
        return layers + [binds]

    def try_let(self) -> Optional[E]:
        """at `SELECT` just after `(`: SELECT <expr> FROM ( <binding select> ) [[AS] alias] )"""
        save = self.i
        try:
            self.eat("SELECT")
            body = self.expr(0)
            self.eat("FROM")
            self.eat("(")
            layers = self._binding_select()
            if self.up() == "AS":
                self.eat()
            if self.peek() is not None and self.peek().kind in ("ident", "qident") and self.peek().text != ")":
                self.eat()
            self.eat(")")
            return E("let", None, [body], extra=layers)
        except (ParseError, IndexError):
            self.i = save
            return None

    def peek(self, k: int = 0) -> Optional[Tok]:
        return self.toks[self.i + k] if self.i + k < len(self.toks) else None

    def up(self, k: int = 0) -> str:
        t = self.peek(k)
        return t.up if t else ""

    def eat(self, text: Optional[str] = None) -> Tok:
        t = self.peek()
        if t is None or (text is not None and t.up != text.upper()):
            raise ParseError(f"expected {text!r} at token {self.i} ({t.text if t else 'EOF'})")
        self.i += 1
        return t

    def parse(self) -> E:
        e = self.expr(0)
        if self.peek() is not None:
            raise ParseError(f"trailing input at token {self.i}: {self.peek().text!r}")
        return e

    def expr(self, minp: int) -> E:
        left = self.unary()
        while True:
            t = self.peek()
            if t is None:
                return left
            u = t.up
            if u == "IS":
                if 3 < minp:
                    return left
                self.eat()
                neg = False
                if self.up() == "NOT":
                    self.eat()
                    neg = True
                if self.up() == "NULL":
                    self.eat()
                    left = E("isnull", neg, [left])
                elif self.up() == "DISTINCT":
                    self.eat()
                    self.eat("FROM")
                    right = self.expr(5)
                    left = E("isdistinct", neg, [left, right])
                elif self.up() in ("TRUE", "FALSE"):
                    v = self.eat().up == "TRUE"
                    left = E("istruth", (v, neg), [left])
                else:
                    raise ParseError("IS ?")
                continue
            if u == "NOT" and self.up(1) in ("IN", "BETWEEN", "LIKE", "ILIKE"):
                if 3 < minp:
                    return left
                self.eat()
                left = self.postfix_pred(left, True)
                continue
            if u in ("IN", "BETWEEN"):
                if 3 < minp:
                    return left
                left = self.postfix_pred(left, False)
                continue
            if u == "::":
                self.eat()
                ty = self.type_name()
                left = E("cast", ty, [left])
                continue
            if t.text == "." and self.peek(1) is not None and self.peek(1).kind in ("ident", "qident"):
                self.eat()
                left = E("field", self.eat().text, [left])
                continue
            if t.text == "[":
                self.eat()
                parts = []
                if self.peek() is not None and self.peek().text != ":":
                    parts.append(self.expr(0))
                while self.peek() is not None and self.peek().text == ":":
                    self.eat()
                    if self.peek() is not None and self.peek().text not in ("]", ":"):
                        parts.append(self.expr(0))
                self.eat("]")
                left = E("call", "list_extract", [left] + parts)
                continue
            if u in BIN_PREC and (t.kind in ("op", "ident")):
                p = BIN_PREC[u]
                if p < minp or u == "->":
                    return left
                self.eat()
                right = self.expr(p + 1)
                left = E("binop", u, [left, right])
                continue
            return left

    def postfix_pred(self, left: E, neg: bool) -> E:
        u = self.up()
        if u == "IN":
            self.eat()
            if self.peek() is not None and self.peek().text == "(":
                self.eat("(")
                items = []
                if self.up() in ("SELECT", "WITH"):
                    self.skip_balanced()
                    return E("in", neg, [left, E("opaque", "subquery")])
                while self.peek() is not None and self.peek().text != ")":
                    items.append(self.expr(0))
                    if self.peek() is not None and self.peek().text == ",":
                        self.eat()
                self.eat(")")
                return E("in", neg, [left] + items)
            right = self.unary()
            return E("in", neg, [left, right])
        if u == "BETWEEN":
            self.eat()
            lo = self.expr(5)
            self.eat("AND")
            hi = self.expr(5)
            return E("between", neg, [left, lo, hi])
        if u in ("LIKE", "ILIKE"):
            self.eat()
            right = self.expr(5)
            e = E("binop", "LIKE", [left, right])
            return E("unop", "NOT", [e]) if neg else e
        raise ParseError("predicate")

    def skip_balanced(self) -> None:
        depth = 1
        while self.peek() is not None and depth > 0:
            t = self.eat()
            if t.text == "(":
                depth += 1
            elif t.text == ")":
                depth -= 1

    def type_name(self) -> str:
        parts = [self.eat().text]
        if self.peek() is not None and self.peek().text == "(":
            self.eat()
            depth = 1
            while depth:
                t = self.eat()
                depth += (t.text == "(") - (t.text == ")")
        while self.peek() is not None and self.peek().text == "[":
            self.eat()
            self.eat("]")
        return parts[0].upper()

    def unary(self) -> E:
        t = self.peek()
        if t is None:
            raise ParseError("unexpected end")
        u = t.up
        if u == "NOT":
            self.eat()
            return E("unop", "NOT", [self.expr(3)])
        if t.text in ("-", "+"):
            self.eat()
            return E("unop", t.text, [self.expr(9)])
        return self.primary()

    def primary(self) -> E:  # noqa: C901
        t = self.eat()
        u = t.up
        if t.kind in ("number", "string"):
            return E("lit", t.text)
        if t.kind == "hole":
            return E("ph", t.text)
        if t.kind == "fmt":
            return E("ph", t.text)
        if t.text == "(":
            if self.up() in ("SELECT", "WITH"):
                if self.let and self.up() == "SELECT":
                    got = self.try_let()
                    if got is not None:
                        return got
                self.skip_balanced()
                return E("opaque", "subquery")
            # lambda (a, b) -> expr
            save = self.i
            names = []
            ok = True
            while True:
                nt = self.peek()
                if nt is not None and nt.kind == "ident":
                    names.append(self.eat().text)
                    if self.peek() is not None and self.peek().text == ",":
                        self.eat()
                        continue
                    break
                ok = False
                break
            if ok and self.peek() is not None and self.peek().text == ")" and self.up(1) == "->":
                self.eat(")")
                self.eat("->")
                body = self.expr(0)
                return E("lambda", names, [body])
            self.i = save
            e = self.expr(0)
            if self.peek() is not None and self.peek().text == ",":
                items = [e]
                while self.peek() is not None and self.peek().text == ",":
                    self.eat()
                    items.append(self.expr(0))
                self.eat(")")
                return E("tuple", None, items)
            self.eat(")")
            return e
        if t.text == "{":
            fields = []
            while self.peek() is not None and self.peek().text != "}":
                k = self.eat().text
                self.eat(":")
                fields.append((k, self.expr(0)))
                if self.peek() is not None and self.peek().text == ",":
                    self.eat()
            self.eat("}")
            return E("struct", [k for k, _ in fields], [v for _, v in fields])
        if t.text == "[":
            items = []
            while self.peek() is not None and self.peek().text != "]":
                items.append(self.expr(0))
                if self.peek() is not None and self.peek().text == ",":
                    self.eat()
            self.eat("]")
            return E("list", None, items)
        if u == "NULL":
            return E("null")
        if u in ("TRUE", "FALSE"):
            return E("lit", u)
        if u == "CASE":
            operand = None
            if self.up() != "WHEN":
                operand = self.expr(0)
            whens = []
            while self.up() == "WHEN":
                self.eat()
                c = self.expr(0)
                self.eat("THEN")
                r = self.expr(0)
                whens.append((c, r))
            els = None
            if self.up() == "ELSE":
                self.eat()
                els = self.expr(0)
            self.eat("END")
            return E("case", operand, [x for w in whens for x in w], els)
        if u in ("CAST", "TRY_CAST") and self.peek() is not None and self.peek().text == "(":
            self.eat("(")
            e = self.expr(0)
            self.eat("AS")
            ty = self.type_name()
            self.eat(")")
            return E("cast", ty, [e], extra=u)
        if u == "INTERVAL":
            v = self.primary()
            unit = "DAY"
            if self.peek() is not None and self.peek().kind == "ident" and self.up() in ("DAY", "DAYS", "MONTH", "MONTHS", "YEAR", "YEARS"):
                unit = self.eat().up.rstrip("S")
            return E("call", "interval", [v], extra=unit)
        if t.kind in ("ident", "qident"):
            if self.peek() is not None and self.peek().text == "(":
                self.eat("(")
                args = []
                if self.up() == "DISTINCT":
                    self.eat()
                if self.peek() is not None and self.peek().text == "*":
                    self.eat()
                while self.peek() is not None and self.peek().text != ")":
                    if self.up() in ("SELECT", "WITH"):
                        self.skip_balanced()
                        return E("call", t.text.lower(), [E("opaque", "subquery")])
                    args.append(self.expr(0))
                    if self.up() in ("ORDER", "IGNORE", "RESPECT"):
                        # aggregate modifiers: consume to the closing paren
                        depth = 0
                        while self.peek() is not None and not (self.peek().text == ")" and depth == 0):
                            x = self.eat()
                            depth += (x.text == "(") - (x.text == ")")
                        break
                    if self.peek() is not None and self.peek().text == ",":
                        self.eat()
                self.eat(")")
                e = E("call", t.text.lower(), args)
                if self.up() == "OVER":
                    self.eat()
                    self.eat("(")
                    self.skip_balanced()
                    e = E("window", t.text.lower(), args)
                return e
            return E("ident", t.text)
        raise ParseError(f"unexpected token {t.text!r}")


def parse(text: str, let: bool = False) -> E:
    return Parser(text, let=let).parse()


# ---- nullness abstract interpretation ---------------------------------------------------------------------
NULL, NONNULL, TOP, BOTTOM = "NULL", "NONNULL", "TOP", "BOTTOM"  # BOTTOM: never returns (error())
NULL_SAFE_FUNCS = {"coalesce", "ifnull", "nvl", "concat", "concat_ws", "list_value", "struct_pack", "error", "greatest_", "nullif_"}


class Nullness:
    """Evaluate whether an expression is NULL when one designated variable is NULL and all others are unknown.
    Conditions evaluate over {T, F, N, ?}."""

    def __init__(self, macros: Dict[str, Any], env: Dict[str, str]) -> None:
        self.macros = macros
        self.env = env
        self.depth = 0
        self.unknown_calls: List[str] = []

    def val(self, e: E) -> str:  # noqa: C901
        k = e.kind
        if k == "null":
            return NULL
        if k == "lit":
            return NONNULL
        if k in ("ph", "ident"):
            return self.env.get(str(e.val), self.env.get(str(e.val).lower(), TOP))
        if k == "field":
            return self.val(e.args[0])
        if k in ("opaque", "lambda", "window", "list", "tuple"):
            return TOP
        if k == "struct":
            return NONNULL
        if k == "cast":
            return self.val(e.args[0]) if e.extra != "TRY_CAST" else (NULL if self.val(e.args[0]) == NULL else TOP)
        if k == "unop":
            if e.val == "NOT":
                return self.val(e.args[0])
            return self.val(e.args[0])
        if k == "binop":
            if e.val in ("AND", "OR"):
                c = self.cond(e)
                return {"T": NONNULL, "F": NONNULL, "N": NULL}.get(c, TOP)
            a, b = self.val(e.args[0]), self.val(e.args[1])
            if BOTTOM in (a, b):
                return BOTTOM
            if NULL in (a, b):
                return NULL
            return NONNULL if a == NONNULL and b == NONNULL and e.val not in ("/", "%") else TOP
        if k in ("isnull", "isdistinct", "istruth"):
            return NONNULL
        if k == "in":
            return NULL if self.val(e.args[0]) == NULL else TOP
        if k == "between":
            vs = [self.val(a) for a in e.args]
            return NULL if vs[0] == NULL else TOP  # x BETWEEN a AND b = x>=a AND x<=b : NULL bound may still give FALSE
        if k == "case":
            return self.case(e)
        if k == "call":
            name = str(e.val).lower()
            if name in ("coalesce", "ifnull"):
                vs = [self.val(a) for a in e.args]
                if all(v == NULL for v in vs):
                    return NULL
                if any(v == NONNULL for v in vs):
                    return NONNULL
                return TOP
            if name == "nullif":
                return NULL if self.val(e.args[0]) == NULL else TOP
            if name == "error":
                return BOTTOM
            if name in self.macros and self.depth < 6:
                m = self.macros[name]
                if m.table:
                    return TOP
                try:
                    body = parse(m.body)
                except ParseError:
                    self.unknown_calls.append(name)
                    return TOP
                env2 = {}
                for p, a in zip(m.params, e.args):
                    env2[p] = self.val(a)
                sub = Nullness(self.macros, env2)
                sub.depth = self.depth + 1
                r = sub.val(body)
                self.unknown_calls += sub.unknown_calls
                return r
            # ordinary scalar function: NULL on any NULL argument (DuckDB default for scalar functions)
            vs = [self.val(a) for a in e.args]
            if name in ("concat", "concat_ws", "list_value", "struct_pack", "hash", "typeof"):
                return TOP
            if NULL in vs:
                return NULL
            return TOP
        return TOP

    def case(self, e: E) -> str:
        pairs = list(zip(e.args[0::2], e.args[1::2]))
        results: List[str] = []
        definitely_taken = False
        for c, r in pairs:
            if e.val is not None:  # simple CASE x WHEN v: x = v
                cv = "N" if self.val(e.val) == NULL or self.val(c) == NULL else "?"
            else:
                cv = self.cond(c)
            if cv in ("F", "N"):
                continue
            results.append(self.val(r))
            if cv == "T":
                definitely_taken = True
                break
        if not definitely_taken:
            results.append(self.val(e.extra) if e.extra is not None else NULL)
        results = [r for r in results if r != BOTTOM] or [BOTTOM]
        if results == [BOTTOM]:
            return BOTTOM
        if all(r == NULL for r in results):
            return NULL
        if all(r == NONNULL for r in results):
            return NONNULL
        return TOP

    def cond(self, e: E) -> str:
        """three-valued truth of a condition: T, F, N or ? (unknown)"""
        k = e.kind
        if k == "lit":
            return {"TRUE": "T", "FALSE": "F"}.get(str(e.val).upper(), "?")
        if k == "null":
            return "N"
        if k == "isnull":
            v = self.val(e.args[0])
            if v == TOP:
                return "?"
            r = v == NULL
            return "T" if (r != e.val) else "F"
        if k == "unop" and e.val == "NOT":
            c = self.cond(e.args[0])
            return {"T": "F", "F": "T", "N": "N"}.get(c, "?")
        if k == "binop" and e.val in ("AND", "OR"):
            a, b = self.cond(e.args[0]), self.cond(e.args[1])
            if e.val == "AND":
                if "F" in (a, b):
                    return "F"
                if a == "T" and b == "T":
                    return "T"
                if "?" in (a, b):
                    return "?"
                return "N"
            if "T" in (a, b):
                return "T"
            if a == "F" and b == "F":
                return "F"
            if "?" in (a, b):
                return "?"
            return "N"
        if k == "isdistinct":
            return "?"
        v = self.val(e)
        return "N" if v == NULL else "?"


# ---- three-valued logic evaluation (exact, over T/F/N) ---------------------------------------------------------
def eval3(e: E, env: Dict[str, Optional[bool]], macros: Dict[str, Any], depth: int = 0) -> Optional[bool]:
    """SQL three-valued evaluation of a boolean expression over variables bound to True/False/None."""
    k = e.kind
    if k in ("ph", "ident"):
        key = str(e.val)
        if key in env:
            return env[key]
        if key.lower() in env:
            return env[key.lower()]
        raise ParseError(f"free variable {key}")
    if k == "lit":
        u = str(e.val).upper()
        if u in ("TRUE", "FALSE"):
            return u == "TRUE"
        raise ParseError("non-boolean literal")
    if k == "null":
        return None
    if k == "unop" and e.val == "NOT":
        v = eval3(e.args[0], env, macros, depth)
        return None if v is None else (not v)
    if k == "binop" and e.val in ("AND", "OR"):
        a, b = eval3(e.args[0], env, macros, depth), eval3(e.args[1], env, macros, depth)
        if e.val == "AND":
            if a is False or b is False:
                return False
            return None if (a is None or b is None) else True
        if a is True or b is True:
            return True
        return None if (a is None or b is None) else False
    if k == "binop" and e.val in ("=", "<>", "!="):
        a, b = eval3(e.args[0], env, macros, depth), eval3(e.args[1], env, macros, depth)
        if a is None or b is None:
            return None
        return (a == b) if e.val == "=" else (a != b)
    if k == "isnull":
        v = eval3(e.args[0], env, macros, depth)
        return (v is None) != e.val
    if k == "istruth":
        v = eval3(e.args[0], env, macros, depth)
        want, neg = e.val
        return (v is want) != neg
    if k == "isdistinct":
        a, b = eval3(e.args[0], env, macros, depth), eval3(e.args[1], env, macros, depth)
        return (a is not b and a != b) != e.val if not (a is None and b is None) else bool(e.val)
    if k == "call" and str(e.val).lower() in ("coalesce", "ifnull"):
        for a in e.args:
            v = eval3(a, env, macros, depth)
            if v is not None:
                return v
        return None
    if k == "case":
        for c, r in zip(e.args[0::2], e.args[1::2]):
            if e.val is not None:
                cv = eval3(E("binop", "=", [e.val, c]), env, macros, depth)
            else:
                cv = eval3(c, env, macros, depth)
            if cv is True:
                return eval3(r, env, macros, depth)
        return eval3(e.extra, env, macros, depth) if e.extra is not None else None
    if k == "cast":
        return eval3(e.args[0], env, macros, depth)
    if k == "call" and str(e.val).lower() in macros and depth < 5:
        m = macros[str(e.val).lower()]
        env2 = {p: eval3(a, env, macros, depth) for p, a in zip(m.params, e.args)}
        return eval3(parse(m.body), env2, macros, depth + 1)
    raise ParseError(f"construct {k}:{e.val} not evaluable in three-valued logic")
