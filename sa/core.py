"""E0 - program loader, name/callee resolver, class hierarchy, constant folding, reporting.

Pure stdlib `ast`.  Nothing from vtlengine is imported or executed: every fact comes from the
source text of the working tree under REPO (default /repo; VERIF_REPO overrides it for the
self-tests, which analyse scratch copies).
"""
from __future__ import annotations

import ast
import re
import json
import os
import sys
import time
from dataclasses import dataclass, field
from pathlib import Path
from typing import Any, Dict, Iterable, Iterator, List, Optional, Sequence, Set, Tuple

VERIF = Path(__file__).resolve().parent.parent
REPO = Path(os.environ.get("VERIF_REPO", "/repo"))
PKG = "vtlengine"


class AnalysisError(Exception):
    """The analysis itself cannot proceed (vanished anchor, unmodelled construct, floor not met).
    Reported as ANALYSIS-ERROR, exit code 2 - never a pass and never a VIOLATION."""


# --------------------------------------------------------------------------------------
# program model
# --------------------------------------------------------------------------------------


@dataclass
class FuncInfo:
    qualname: str  # vtlengine.mod.Class.meth / vtlengine.mod.func
    module: "ModuleInfo"
    node: ast.AST  # FunctionDef | AsyncFunctionDef
    cls: Optional["ClassInfo"] = None
    parent: Optional["FuncInfo"] = None

    @property
    def name(self) -> str:
        return self.node.name  # type: ignore[attr-defined]

    @property
    def decorators(self) -> List[str]:
        out = []
        for d in self.node.decorator_list:  # type: ignore[attr-defined]
            if isinstance(d, ast.Call):
                d = d.func
            out.append(dotted(d) or "?")
        return out

    @property
    def params(self) -> List[str]:
        a = self.node.args  # type: ignore[attr-defined]
        return [x.arg for x in a.posonlyargs + a.args] + ([a.vararg.arg] if a.vararg else []) + [
            x.arg for x in a.kwonlyargs
        ] + ([a.kwarg.arg] if a.kwarg else [])

    def loc(self) -> str:
        return f"{self.module.rel}:{self.node.lineno}"  # type: ignore[attr-defined]


@dataclass
class ClassInfo:
    qualname: str
    module: "ModuleInfo"
    node: ast.ClassDef
    bases: List[str] = field(default_factory=list)  # resolved qualified names (or raw dotted)
    methods: Dict[str, FuncInfo] = field(default_factory=dict)
    attrs: Dict[str, ast.AST] = field(default_factory=dict)  # class-level assignments

    @property
    def name(self) -> str:
        return self.node.name


@dataclass
class ModuleInfo:
    name: str
    path: Path
    rel: str
    source: str
    tree: ast.Module
    is_pkg: bool
    imports: Dict[str, str] = field(default_factory=dict)  # local name -> qualified target
    functions: Dict[str, FuncInfo] = field(default_factory=dict)  # top-level
    classes: Dict[str, ClassInfo] = field(default_factory=dict)
    assigns: Dict[str, ast.AST] = field(default_factory=dict)  # module-level NAME = value


def dotted(node: ast.AST) -> Optional[str]:
    """a.b.c for Name/Attribute chains, else None."""
    parts: List[str] = []
    while isinstance(node, ast.Attribute):
        parts.append(node.attr)
        node = node.value
    if isinstance(node, ast.Name):
        parts.append(node.id)
        return ".".join(reversed(parts))
    return None


class Program:
    def __init__(self, repo: Path = REPO, subdir: str = "src/vtlengine") -> None:
        self.repo = Path(repo)
        self.root = self.repo / subdir
        if not self.root.is_dir():
            raise AnalysisError(f"source root {self.root} not found")
        self.modules: Dict[str, ModuleInfo] = {}
        self.functions: Dict[str, FuncInfo] = {}
        self.classes: Dict[str, ClassInfo] = {}
        self._mro_cache: Dict[str, List[ClassInfo]] = {}
        self._load()

    # ---- loading -------------------------------------------------------------------
    def _load(self) -> None:
        for path in sorted(self.root.rglob("*.py")):
            relp = path.relative_to(self.root.parent)
            parts = list(relp.with_suffix("").parts)
            is_pkg = parts[-1] == "__init__"
            if is_pkg:
                parts = parts[:-1]
            name = ".".join(parts)
            src = path.read_text(encoding="utf-8")
            try:
                tree = ast.parse(src, filename=str(path))
            except SyntaxError as e:
                raise AnalysisError(f"cannot parse {path}: {e}")
            for parent in ast.walk(tree):
                for ch in ast.iter_child_nodes(parent):
                    ch._parent = parent  # type: ignore[attr-defined]
            m = ModuleInfo(name, path, str(path.relative_to(self.repo)), src, tree, is_pkg)
            self.modules[name] = m
        for m in self.modules.values():
            self._index_module(m)
        for c in self.classes.values():
            c.bases = [self.resolve_expr(m_, b) or (dotted(b) or "?") for m_, b in
                       ((c.module, b) for b in c.node.bases)]

    def _index_module(self, m: ModuleInfo) -> None:
        pkg = m.name if m.is_pkg else m.name.rsplit(".", 1)[0]
        for node in ast.walk(m.tree):
            if isinstance(node, ast.Import):
                for a in node.names:
                    if a.asname:
                        m.imports[a.asname] = a.name
                    else:
                        m.imports[a.name.split(".")[0]] = a.name.split(".")[0]
            elif isinstance(node, ast.ImportFrom):
                base = node.module or ""
                if node.level:
                    p = pkg.split(".")
                    p = p[: len(p) - (node.level - 1)]
                    base = ".".join(p + ([node.module] if node.module else []))
                for a in node.names:
                    m.imports[a.asname or a.name] = f"{base}.{a.name}"
        for node in m.tree.body:
            self._index_stmt(m, node)

    def _index_stmt(self, m: ModuleInfo, node: ast.stmt) -> None:
        if isinstance(node, (ast.FunctionDef, ast.AsyncFunctionDef)):
            f = FuncInfo(f"{m.name}.{node.name}", m, node)
            m.functions[node.name] = f
            self._register_func(f)
        elif isinstance(node, ast.ClassDef):
            c = ClassInfo(f"{m.name}.{node.name}", m, node)
            m.classes[node.name] = c
            self.classes[c.qualname] = c
            for st in node.body:
                if isinstance(st, (ast.FunctionDef, ast.AsyncFunctionDef)):
                    f = FuncInfo(f"{c.qualname}.{st.name}", m, st, cls=c)
                    c.methods[st.name] = f
                    self._register_func(f)
                elif isinstance(st, ast.Assign):
                    for t in st.targets:
                        if isinstance(t, ast.Name):
                            c.attrs[t.id] = st.value
                elif isinstance(st, ast.AnnAssign) and isinstance(st.target, ast.Name) and st.value is not None:
                    c.attrs[st.target.id] = st.value
        elif isinstance(node, ast.Assign):
            for t in node.targets:
                if isinstance(t, ast.Name):
                    m.assigns[t.id] = node.value
        elif isinstance(node, ast.AnnAssign) and isinstance(node.target, ast.Name) and node.value is not None:
            m.assigns[node.target.id] = node.value
        elif isinstance(node, (ast.If, ast.Try)):
            for st in ast.iter_child_nodes(node):
                if isinstance(st, ast.stmt):
                    self._index_stmt(m, st)

    def _register_func(self, f: FuncInfo) -> None:
        self.functions[f.qualname] = f
        for sub in ast.walk(f.node):
            if sub is f.node:
                continue
            if isinstance(sub, (ast.FunctionDef, ast.AsyncFunctionDef)) and enclosing_function(sub) is f.node:
                g = FuncInfo(f"{f.qualname}.<locals>.{sub.name}", f.module, sub, cls=None, parent=f)
                self._register_func(g)

    # ---- lookups ---------------------------------------------------------------------
    def module(self, name: str) -> ModuleInfo:
        if name not in self.modules:
            raise AnalysisError(f"anchor vanished: module {name}")
        return self.modules[name]

    def func(self, qualname: str) -> FuncInfo:
        if qualname not in self.functions:
            raise AnalysisError(f"anchor vanished: function {qualname}")
        return self.functions[qualname]

    def cls(self, qualname: str) -> ClassInfo:
        if qualname not in self.classes:
            raise AnalysisError(f"anchor vanished: class {qualname}")
        return self.classes[qualname]

    def canonical(self, q: str, _depth: int = 0) -> str:
        """Follow re-exports: vtlengine.A.b where module vtlengine.A imports b from elsewhere."""
        if _depth > 8 or q in self.functions or q in self.classes or q in self.modules:
            return q
        if "." in q:
            head, last = q.rsplit(".", 1)
            head_c = self.canonical(head, _depth + 1)
            if head_c in self.modules:
                m = self.modules[head_c]
                if last in m.functions or last in m.classes or last in m.assigns:
                    return f"{head_c}.{last}"
                if last in m.imports:
                    tgt = m.imports[last]
                    if tgt != q:
                        return self.canonical(tgt, _depth + 1)
                if f"{head_c}.{last}" in self.modules:
                    return f"{head_c}.{last}"
            if head_c in self.classes:
                return f"{head_c}.{last}"
            if head_c != head:
                return f"{head_c}.{last}"
        return q

    def resolve_expr(self, m: ModuleInfo, node: ast.AST) -> Optional[str]:
        """Qualified name of a Name/Attribute chain evaluated at module scope of `m`."""
        d = dotted(node)
        if d is None:
            return None
        head, *rest = d.split(".")
        if head in m.imports:
            q = ".".join([m.imports[head]] + rest)
        elif head in m.functions or head in m.classes or head in m.assigns:
            q = ".".join([m.name, head] + rest)
        else:
            return None
        return self.canonical(q)

    # ---- class hierarchy ---------------------------------------------------------------
    def mro(self, c: ClassInfo) -> List[ClassInfo]:
        if c.qualname in self._mro_cache:
            return self._mro_cache[c.qualname]
        out: List[ClassInfo] = [c]
        seen = {c.qualname}
        # simple left-to-right depth-first linearisation without duplicates (the repo has no
        # diamond whose order matters for the attributes looked up here)
        for b in c.bases:
            bc = self.classes.get(b)
            if bc is None:
                continue
            for x in self.mro(bc):
                if x.qualname not in seen:
                    seen.add(x.qualname)
                    out.append(x)
        self._mro_cache[c.qualname] = out
        return out

    def is_subclass(self, c: str, base: str) -> bool:
        ci = self.classes.get(c)
        if ci is None:
            return c == base
        return any(x.qualname == base for x in self.mro(ci)) or base in self.all_bases(ci)

    def all_bases(self, c: ClassInfo) -> Set[str]:
        out: Set[str] = set()
        for x in self.mro(c):
            out.update(x.bases)
        return out

    def subclasses(self, base: str) -> List[ClassInfo]:
        return [c for c in self.classes.values() if c.qualname != base and self.is_subclass(c.qualname, base)]

    def lookup_method(self, c: ClassInfo, name: str) -> Optional[FuncInfo]:
        for x in self.mro(c):
            if name in x.methods:
                return x.methods[name]
        return None

    def lookup_attr(self, c: ClassInfo, name: str) -> Optional[Tuple[ClassInfo, ast.AST]]:
        for x in self.mro(c):
            if name in x.attrs:
                return x, x.attrs[name]
        return None

    # ---- iteration helpers ---------------------------------------------------------------
    def iter_functions(self) -> Iterator[FuncInfo]:
        return iter(self.functions.values())

    def enclosing(self, m: ModuleInfo, node: ast.AST) -> Tuple[Optional[FuncInfo], Optional[ClassInfo]]:
        fn = enclosing_function(node)
        f: Optional[FuncInfo] = None
        if fn is not None:
            for cand in self.functions.values():
                if cand.node is fn:
                    f = cand
                    break
        cl = None
        p = getattr(node, "_parent", None)
        while p is not None:
            if isinstance(p, ast.ClassDef):
                cl = self.classes.get(f"{m.name}.{p.name}")
                break
            p = getattr(p, "_parent", None)
        return f, cl

    def func_of_node(self, fn_node: ast.AST) -> Optional[FuncInfo]:
        idx = getattr(self, "_node_index", None)
        if idx is None:
            idx = {id(f.node): f for f in self.functions.values()}
            self._node_index = idx
        return idx.get(id(fn_node))

    # ---- call resolution -------------------------------------------------------------------
    def resolve_call(self, f: FuncInfo, call: ast.Call) -> List[str]:
        """Qualified names of possible in-repo callees of `call` made inside `f` ([] if unknown /
        external).  self./cls. calls include subclass overrides (dynamic dispatch)."""
        fn = call.func
        m = f.module
        owner = f
        while owner.cls is None and owner.parent is not None:
            owner = owner.parent
        cls = owner.cls
        if isinstance(fn, ast.Name):
            # nested local function
            g = f
            while g is not None:
                q = f"{g.qualname}.<locals>.{fn.id}"
                if q in self.functions:
                    return [q]
                g = g.parent  # type: ignore[assignment]
            if fn.id == "cls" and cls is not None and "classmethod" in owner.decorators:
                # cls(...) inside a classmethod constructs the owning class (or a subclass)
                out0 = self._callable_targets(cls.qualname)
                for sc in self.subclasses(cls.qualname):
                    for t in self._callable_targets(sc.qualname):
                        if t not in out0:
                            out0.append(t)
                return out0
            q2 = self.resolve_expr(m, fn)
            return self._callable_targets(q2)
        if isinstance(fn, ast.Attribute):
            base = fn.value
            if isinstance(base, ast.Name) and base.id in ("self", "cls") and cls is not None:
                out = []
                mm = self.lookup_method(cls, fn.attr)
                if mm:
                    out.append(mm.qualname)
                for sc in self.subclasses(cls.qualname):
                    if fn.attr in sc.methods:
                        out.append(sc.methods[fn.attr].qualname)
                return out
            if (isinstance(base, ast.Call) and isinstance(base.func, ast.Name) and base.func.id == "super"
                    and cls is not None):
                for x in self.mro(cls)[1:]:
                    if fn.attr in x.methods:
                        return [x.methods[fn.attr].qualname]
                return []
            q = self.resolve_expr(m, fn)
            if q:
                t = self._callable_targets(q)
                if t:
                    return t
            qb = self.resolve_expr(m, base)
            if qb and qb in self.classes:
                mm = self.lookup_method(self.classes[qb], fn.attr)
                if mm:
                    return [mm.qualname]
            # receiver typed by a parameter / local annotation naming an in-repo class
            if isinstance(base, ast.Name):
                out2: List[str] = []
                for cq in self._annotated_classes(f, base.id):
                    mm = self.lookup_method(self.classes[cq], fn.attr)
                    if mm:
                        out2.append(mm.qualname)
                    for sc in self.subclasses(cq):
                        if fn.attr in sc.methods:
                            out2.append(sc.methods[fn.attr].qualname)
                if out2:
                    return out2
            # last resort: the method name is defined by very few in-repo classes
            cands = self._methods_by_name().get(fn.attr, [])
            if 1 <= len(cands) <= 3 and not fn.attr.startswith("__") and fn.attr not in _COMMON_EXTERNAL_METHODS:
                return list(cands)
        return []

    def _annotated_classes(self, f: FuncInfo, var: str) -> List[str]:
        import re as _re
        anns: List[ast.AST] = []
        a = f.node.args  # type: ignore[attr-defined]
        for x in a.posonlyargs + a.args + a.kwonlyargs:
            if x.arg == var and x.annotation is not None:
                anns.append(x.annotation)
        for n in ast.walk(f.node):
            if isinstance(n, ast.AnnAssign) and isinstance(n.target, ast.Name) and n.target.id == var:
                anns.append(n.annotation)
        out: List[str] = []
        for an in anns:
            text = an.value if isinstance(an, ast.Constant) and isinstance(an.value, str) else ast.unparse(an)
            for tok in _re.findall(r"[A-Za-z_][\w.]*", text):
                try:
                    q = self.resolve_expr(f.module, ast.parse(tok, mode="eval").body)
                except SyntaxError:
                    q = None
                if q and q in self.classes and q not in out:
                    out.append(q)
        return out

    def _methods_by_name(self) -> Dict[str, List[str]]:
        idx = getattr(self, "_mbn", None)
        if idx is None:
            idx = {}
            for c in self.classes.values():
                for mn, mf in c.methods.items():
                    idx.setdefault(mn, []).append(mf.qualname)
            self._mbn = idx
        return idx

    def _callable_targets(self, q: Optional[str]) -> List[str]:
        if not q:
            return []
        if q in self.functions:
            return [q]
        if q in self.classes:
            init = self.lookup_method(self.classes[q], "__init__") or self.lookup_method(self.classes[q], "__post_init__")
            return [init.qualname] if init else []
        if "." in q:
            head, last = q.rsplit(".", 1)
            if head in self.classes:
                mm = self.lookup_method(self.classes[head], last)
                if mm:
                    return [mm.qualname]
        return []

    # ---- constant folding ---------------------------------------------------------------------
    def const_values(self, f: Optional[FuncInfo], m: ModuleInfo, node: ast.AST, _depth: int = 0) -> Optional[Set[Any]]:
        """Finite set of constant values (str/int/bool/None) `node` can take, or None if unknown."""
        if _depth > 6:
            return None
        if isinstance(node, ast.Constant):
            return {node.value}
        if isinstance(node, ast.IfExp):
            a = self.const_values(f, m, node.body, _depth + 1)
            b = self.const_values(f, m, node.orelse, _depth + 1)
            return None if a is None or b is None else a | b
        if isinstance(node, ast.JoinedStr):
            outs: Set[str] = {""}
            for v in node.values:
                if isinstance(v, ast.Constant):
                    opts: Optional[Set[Any]] = {v.value}
                elif isinstance(v, ast.FormattedValue) and v.format_spec is None and v.conversion == -1:
                    opts = self.const_values(f, m, v.value, _depth + 1)
                else:
                    opts = None
                if opts is None or len(opts) * len(outs) > 64:
                    return None
                outs = {a + str(b) for a in outs for b in opts}
            return set(outs)
        if isinstance(node, ast.BinOp) and isinstance(node.op, ast.Add):
            a = self.const_values(f, m, node.left, _depth + 1)
            b = self.const_values(f, m, node.right, _depth + 1)
            if a is None or b is None:
                return None
            try:
                return {x + y for x in a for y in b}
            except TypeError:
                return None
        if isinstance(node, ast.Name):
            # local single-target assignments inside f (all of them: union)
            if f is not None:
                vals: Set[Any] = set()
                found = False
                for sub in ast.walk(f.node):
                    if isinstance(sub, ast.Assign) and any(isinstance(t, ast.Name) and t.id == node.id for t in sub.targets):
                        found = True
                        v = self.const_values(f, m, sub.value, _depth + 1)
                        if v is None:
                            return None
                        vals |= v
                    elif isinstance(sub, ast.AnnAssign) and isinstance(sub.target, ast.Name) and sub.target.id == node.id and sub.value is not None:
                        found = True
                        v = self.const_values(f, m, sub.value, _depth + 1)
                        if v is None:
                            return None
                        vals |= v
                    elif isinstance(sub, (ast.For, ast.comprehension)) and isinstance(sub.target, ast.Name) and sub.target.id == node.id:
                        found = True
                        it = sub.iter
                        if isinstance(it, (ast.Tuple, ast.List, ast.Set)):
                            for e in it.elts:
                                v = self.const_values(f, m, e, _depth + 1)
                                if v is None:
                                    return None
                                vals |= v
                        else:
                            return None
                    elif isinstance(sub, (ast.AugAssign,)) and isinstance(sub.target, ast.Name) and sub.target.id == node.id:
                        return None
                if found:
                    if node.id in f.params:
                        return None
                    return _refine_by_guards(node, vals)
                if node.id in f.params:
                    return None
                if f.parent is not None:
                    return self.const_values(f.parent, m, node, _depth + 1)
            q = self.resolve_expr(m, node)
            return self._const_of_qual(q, _depth)
        if isinstance(node, ast.Attribute):
            q = self.resolve_expr(m, node)
            if q:
                return self._const_of_qual(q, _depth)
            # self.X / cls.X class constant
            if isinstance(node.value, ast.Name) and node.value.id in ("self", "cls") and f is not None:
                owner = f
                while owner.cls is None and owner.parent is not None:
                    owner = owner.parent
                if owner.cls is not None:
                    vals2: Set[Any] = set()
                    cands = [owner.cls] + self.subclasses(owner.cls.qualname)
                    for c in cands:
                        got = self.lookup_attr(c, node.attr)
                        if got is None:
                            continue
                        v = self.const_values(None, got[0].module, got[1], _depth + 1)
                        if v is None:
                            return None
                        vals2 |= v
                    return vals2 or None
        return None

    def _const_of_qual(self, q: Optional[str], _depth: int) -> Optional[Set[Any]]:
        if not q or "." not in q:
            return None
        head, last = q.rsplit(".", 1)
        if head in self.modules and last in self.modules[head].assigns:
            mm = self.modules[head]
            return self.const_values(None, mm, mm.assigns[last], _depth + 1)
        if head in self.classes:
            got = self.lookup_attr(self.classes[head], last)
            if got:
                return self.const_values(None, got[0].module, got[1], _depth + 1)
        return None


def _refine_by_guards(use: ast.Name, vals: Set[Any]) -> Set[Any]:
    """Drop values excluded by enclosing `if x is not None:` / `if x is None: … else:` / `if x:` guards
    (the only flow-sensitivity the constant folder has)."""
    child: ast.AST = use
    p = getattr(use, "_parent", None)
    vals = set(vals)
    while p is not None and not isinstance(p, (ast.FunctionDef, ast.AsyncFunctionDef)):
        if isinstance(p, ast.If):
            in_body = any(child is st for st in p.body)
            in_else = any(child is st for st in p.orelse)
            t = p.test
            if (isinstance(t, ast.Compare) and isinstance(t.left, ast.Name) and t.left.id == use.id and len(t.ops) == 1
                    and isinstance(t.comparators[0], ast.Constant) and t.comparators[0].value is None):
                if (isinstance(t.ops[0], ast.IsNot) and in_body) or (isinstance(t.ops[0], ast.Is) and in_else):
                    vals.discard(None)
                elif (isinstance(t.ops[0], ast.Is) and in_body) or (isinstance(t.ops[0], ast.IsNot) and in_else):
                    vals &= {None}
            elif isinstance(t, ast.Name) and t.id == use.id and in_body:
                vals = {v for v in vals if v}
        child = p
        p = getattr(p, "_parent", None)
    return vals


_COMMON_EXTERNAL_METHODS = {"get", "items", "values", "keys", "update", "append", "extend", "copy", "pop", "add", "remove", "sort", "join",
                            "format", "strip", "split", "replace", "lower", "upper", "startswith", "endswith", "execute", "close", "read",
                            "write", "fetchone", "fetchall", "fetchdf", "register", "unregister", "exists", "mkdir", "validate", "visit",
                            "check", "cast", "map", "apply", "rename", "drop", "astype", "sql", "to_csv", "index", "count", "insert", "clear",
                            "setdefault", "discard", "union", "intersection", "isnull", "any", "all", "tolist", "parse", "match", "search",
                            "sub", "group", "encode", "decode", "load", "dump", "loads", "dumps", "open", "name", "is_included"}


def enclosing_function(node: ast.AST) -> Optional[ast.AST]:
    p = getattr(node, "_parent", None)
    while p is not None:
        if isinstance(p, (ast.FunctionDef, ast.AsyncFunctionDef)):
            return p
        p = getattr(p, "_parent", None)
    return None


def walk_no_nested(fn_node: ast.AST) -> Iterator[ast.AST]:
    """ast.walk over a function body, not descending into nested defs/classes/lambdas."""
    stack = list(ast.iter_child_nodes(fn_node))
    while stack:
        n = stack.pop()
        yield n
        if isinstance(n, (ast.FunctionDef, ast.AsyncFunctionDef, ast.ClassDef, ast.Lambda)):
            continue
        stack.extend(ast.iter_child_nodes(n))


def src(node: ast.AST) -> str:
    try:
        return ast.unparse(node)
    except Exception:  # pragma: no cover
        return "<?>"


# --------------------------------------------------------------------------------------
# findings / report / evidence
# --------------------------------------------------------------------------------------


@dataclass
class Finding:
    rule: str
    key: str  # rule + construct, stable under reformatting
    file: str
    line: int
    func: str
    message: str
    path: Optional[List[str]] = None


def load_known(prop: str) -> Tuple[Dict[str, str], List[str]]:
    """-> ({key: what} for open entries of `prop`, [fixed lines])"""
    p = VERIF / "known_findings.txt"
    open_: Dict[str, str] = {}
    fixed: List[str] = []
    if not p.exists():
        return open_, fixed
    for line in p.read_text().splitlines():
        line = line.strip()
        if not line or line.startswith("#"):
            continue
        if line.startswith("fixed:"):
            if f"property={prop} " in line:
                fixed.append(line)
            continue
        if line.startswith("open:"):
            body = line[len("open:"):].strip()
            head, _, what = body.partition("::")
            fields = dict(kv.split("=", 1) for kv in head.split() if "=" in kv)
            if fields.get("property") == prop:
                open_[fields.get("key", "")] = what.strip()
    return open_, fixed


class Report:
    def __init__(self, prop: str, tier: str) -> None:
        self.prop = prop
        self.tier = tier
        self.t0 = time.time()
        self.findings: List[Finding] = []
        self.instances = 0
        self.nontrivial: Set[str] = set()
        self.samples: List[Any] = []
        self.rules: Dict[str, Dict[str, Any]] = {}
        self.info: List[str] = []
        self.analysed: Dict[str, Any] = {}
        self.assumptions: List[str] = []
        self.explanation = ""
        self.exempt: List[Dict[str, str]] = []

    def rule(self, rid: str, text: str) -> None:
        self.rules.setdefault(rid, {"text": text, "instances": 0, "violations": 0})

    def instance(self, rid: str, key: str, nontrivial: bool = True, sample: Any = None) -> None:
        self.instances += 1
        self.rules.setdefault(rid, {"text": "", "instances": 0, "violations": 0})["instances"] += 1
        if nontrivial:
            self.nontrivial.add(f"{rid}/{key}")
        if sample is not None and len(self.samples) < 12 and sum(1 for s in self.samples if s.get("rule") == rid) < 3:
            self.samples.append({"rule": rid, "instance": key, "detail": sample})

    def add(self, f: Finding) -> None:
        if any(g.key == f.key for g in self.findings):
            return
        self.findings.append(f)
        self.rules.setdefault(f.rule, {"text": "", "instances": 0, "violations": 0})["violations"] += 1

    def floor(self, what: str, got: int, minimum: int) -> None:
        if got < minimum:
            raise AnalysisError(f"instance floor not met for {what}: {got} < {minimum} (rule would pass vacuously)")

    def note(self, msg: str) -> None:
        self.info.append(msg)

    def exemption(self, rule: str, symbol: str, reason: str) -> None:
        self.exempt.append({"rule": rule, "symbol": symbol, "reason": reason})

    # ---- finish -------------------------------------------------------------------------
    def finish(self) -> int:
        known, fixed = load_known(self.prop)
        ev_dir = Path(os.environ.get("VERIF_EVIDENCE_DIR", str(VERIF / "evidence")))
        (ev_dir / "replay").mkdir(parents=True, exist_ok=True)
        unlisted: List[Finding] = []
        listed: List[Finding] = []
        for f in self.findings:
            (listed if f.key in known else unlisted).append(f)
        seen_known: Set[str] = set()
        for f in listed:
            if f.key in seen_known:
                continue
            seen_known.add(f.key)
            print(f"KNOWN-FINDING: property={self.prop} {f.key} :: {known[f.key]} [{f.file}:{f.line}]")
        stale = sorted(set(known) - seen_known)
        for k in stale:
            print(f"NOTE: listed finding no longer reported (repaired or construct gone): {k}")
        for msg in self.info:
            print(f"INFO: {msg}")
        rc = 0
        for i, f in enumerate(unlisted):
            rp = ev_dir / "replay" / f"{self.prop}_{i}.json"
            rp.write_text(json.dumps(f.__dict__, indent=1))
            print(f"  {f.file}:{f.line} {f.func} — {f.rule} — {f.message}")
            print(f"VIOLATION property={self.prop} replay={rp}")
            rc = 1
        wall = time.time() - self.t0
        seed = int(os.environ.get("VERIF_SEED", "0") or 0)
        ev = {
            "property_id": self.prop,
            "tier": self.tier,
            "seed": seed,
            "level": "other",
            "coverage": {
                "explanation": self.explanation or "static rule checking over the source of /repo's working tree",
                "evaluations": self.instances,
                "distinct_nontrivial": len(self.nontrivial),
                "rule": "one evaluation = one rule instance (site/cell/path/obligation) enumerated from the source; "
                        "non-trivial = the instance has content to check (see per-rule notes); distinct = distinct rule/key",
                "samples": self.samples or [{"note": "no instance sampled"}],
                "obligations": self.instances,
                "discharged": self.instances - len(self.findings),
                "exhaustive": True,
                "rules": self.rules,
                "analysed": self.analysed,
                "exemptions": self.exempt,
                "known_findings_reported": sorted(seen_known),
                "fixed_findings_on_record": fixed,
                "information": self.info,
            },
            "assumptions": self.assumptions,
            "wall_s": round(wall, 3),
            "violations": len(unlisted),
        }
        (ev_dir / f"{self.prop}.json").write_text(json.dumps(ev, indent=1, default=str))
        print(f"{self.prop} [{self.tier}] rules={len(self.rules)} instances={self.instances} "
              f"nontrivial={len(self.nontrivial)} findings={len(self.findings)} "
              f"(known={len(listed)}, unlisted={len(unlisted)}) wall={wall:.2f}s")
        for rid, r in sorted(self.rules.items()):
            print(f"   {rid}: instances={r['instances']} violations={r['violations']}  {r['text'][:110]}")
        return rc


_PROGRAM: Optional[Program] = None


def program() -> Program:
    global _PROGRAM
    if _PROGRAM is None:
        _PROGRAM = Program()
    return _PROGRAM


# ---------------------------------------------------------------------------------------------------------------
# statement keys that survive a renaming of local variables
_LOCALS_CACHE: Dict[int, Set[str]] = {}


def local_names(fn: ast.AST) -> Set[str]:
    """names bound inside a function (assignments, loop / comprehension / with / except targets, walrus) that are not parameters"""
    k = id(fn)
    if k in _LOCALS_CACHE:
        return _LOCALS_CACHE[k]
    a = getattr(fn, "args", None)
    params: Set[str] = set()
    if a is not None:
        params = {x.arg for x in a.posonlyargs + a.args + a.kwonlyargs} | ({a.vararg.arg} if a.vararg else set()) | ({a.kwarg.arg} if a.kwarg else set())
    out: Set[str] = set()
    for n in ast.walk(fn):
        if isinstance(n, ast.Name) and isinstance(n.ctx, (ast.Store, ast.Del)):
            out.add(n.id)
        elif isinstance(n, ast.ExceptHandler) and n.name:
            out.add(n.name)
    out -= params
    _LOCALS_CACHE[k] = out
    return out


def norm_locals(text: str, fn: ast.AST) -> str:
    """`text` (source of a statement of fn) with every local variable of fn replaced by `§`: a key for triage tables that does not
    change when locals are renamed.  Attribute names, keyword names, parameters, globals and string contents are kept."""
    import io
    import tokenize as _tk
    loc = local_names(fn)
    if not loc:
        return text
    out: List[str] = []
    try:
        toks = list(_tk.generate_tokens(io.StringIO(text).readline))
    except (_tk.TokenError, IndentationError, SyntaxError):
        return re.sub(r"(?<![\w.])(" + "|".join(map(re.escape, sorted(loc, key=len, reverse=True))) + r")(?!\w)", "§", text)
    prev = None
    last_end = (1, 0)
    for t in toks:
        if t.type in (_tk.ENDMARKER, _tk.NEWLINE, _tk.NL, _tk.INDENT, _tk.DEDENT):
            continue
        if t.start[0] == last_end[0] and t.start[1] > last_end[1]:
            out.append(" " * (t.start[1] - last_end[1]))
        s_ = t.string
        if t.type == _tk.NAME and s_ in loc and not (prev is not None and prev.string == "."):
            s_ = "§"
        out.append(s_)
        prev = t
        last_end = t.end
    return "".join(out)
