"""Thorough tier: the checker is tested in both directions on scratch copies of /repo's CURRENT src/ and docs/
(made under the system temp directory, outside /repo and /verif, and removed again before returning).

must stay silent (exit 0, same known findings) on behaviour-preserving edits:
  N1  every Python source re-emitted through ast.unparse (layout, quoting, parenthesisation, comments and line numbers all
      change; the program does not)
  N2  every function-local variable that no nested scope captures renamed (tools/rename_locals.py): rules must recognise values by
      what they are (definition, position, role in a call), not by the name of the local that holds them; finding keys must not
      contain local names
  N3  every run of consecutive plain method / function definitions reversed; SQL library files re-indented with a comment line before
      every CREATE (tools/reorder_defs.py): nothing may depend on the order of definitions or on positions inside the .sql files
  N4  nested calls in argument position hoisted into fresh temporaries (tools/extract_temps.py): a rule must follow a value through
      a local it is parked in
must fire (exit 1, VIOLATION) on variants that break the property while still compiling:
  S*  every change kept under /verif/seeded/<ID>_*/ that names this property in `caught_by`
  F*  the repository's own `fix:` commits for this property applied in reverse (from known_findings.txt `fixed:` lines)

A self-test failure is a defect of the checker, not of the repository: it is reported as SELFTEST-FAILURE and makes the
thorough run exit 2 (never a VIOLATION line)."""
from __future__ import annotations

import ast
import json
import os
import re
import shutil
import subprocess
import sys
import tempfile
from concurrent.futures import ThreadPoolExecutor
from pathlib import Path
from typing import Dict, List, Optional, Tuple

VERIF = Path(__file__).resolve().parent.parent
REPO = Path(os.environ.get("VERIF_REPO", "/repo"))
PY = sys.executable


def _copy_tree(dst: Path) -> None:
    for sub in ("src", "docs"):
        if (REPO / sub).is_dir():
            shutil.copytree(REPO / sub, dst / sub, ignore=shutil.ignore_patterns("__pycache__", "*.pyc", "*.so"))


def _run_check(prop: str, root: Path) -> Tuple[int, List[str], List[str]]:
    ev = root / "_evidence"
    ev.mkdir(exist_ok=True)
    env = dict(os.environ, VERIF_REPO=str(root), VERIF_EVIDENCE_DIR=str(ev), VERIF_TIER="quick")
    r = None
    for attempt in (1, 2):  # a loaded machine (many checks self-testing at once) can make one run crawl: retry once with a longer limit before giving up
        try:
            r = subprocess.run([PY, "-m", "sa.check", prop, "--tier", "quick"], cwd=str(VERIF), env=env, capture_output=True, text=True, timeout=1800 * attempt)
            break
        except subprocess.TimeoutExpired:
            if attempt == 2:
                return 2, [f"ANALYSIS-ERROR property={prop}: self-test run on {root.name} did not finish within {1800 * attempt} s (machine overloaded?)"], []
    assert r is not None
    lines = r.stdout.splitlines()
    viol = [lines[i - 1].strip() for i, l in enumerate(lines) if l.startswith("VIOLATION") and i > 0]
    known = sorted(l.split(" :: ")[0] for l in lines if l.startswith("KNOWN-FINDING:"))
    if r.returncode == 2:
        viol = [l for l in lines if l.startswith("ANALYSIS-ERROR")] or [r.stderr[-300:]]
    return r.returncode, viol, known


def _normalise(root: Path) -> int:
    n = 0
    for p in sorted((root / "src").rglob("*.py")):
        try:
            tree = ast.parse(p.read_text())
        except SyntaxError:
            continue
        p.write_text(ast.unparse(tree) + "\n")
        n += 1
    return n


def _apply(root: Path, diff_text: str, reverse: bool = False) -> Optional[str]:
    cmd = ["patch", "-p1", "-s", "-f", "--no-backup-if-mismatch", "-d", str(root)] + (["-R"] if reverse else [])
    r = subprocess.run(cmd, input=diff_text, capture_output=True, text=True)
    if r.returncode != 0:
        return (r.stdout + r.stderr).strip()[-200:]
    return None


def _compiles(root: Path, diff_text: str) -> bool:
    for m in re.finditer(r"^\+\+\+ b/(\S+\.py)", diff_text, re.M):
        f = root / m.group(1)
        if f.exists():
            try:
                compile(f.read_text(), str(f), "exec")
            except SyntaxError:
                return False
    return True


def _variants(prop: str) -> List[Tuple[str, str, bool]]:
    """(label, diff text, reverse)"""
    out: List[Tuple[str, str, bool]] = []
    for d in sorted((VERIF / "seeded").glob(f"*")):
        meta = d / "meta.json"
        if not meta.exists():
            continue
        try:
            m = json.loads(meta.read_text())
        except Exception:
            continue
        if prop in (m.get("caught_by") or []) and (d / "patch.diff").exists():
            out.append((f"S:{d.name}", (d / "patch.diff").read_text(), False))
    kf = VERIF / "known_findings.txt"
    if kf.exists() and (REPO / ".git").exists():
        for line in kf.read_text().splitlines():
            mm = re.match(rf"fixed:\s+property={prop}\s+([0-9a-f]{{7,40}})\b", line)
            if mm:
                r = subprocess.run(["git", "-C", str(REPO), "show", mm.group(1), "--", "src"], capture_output=True, text=True)
                if r.returncode == 0 and r.stdout.strip() and not any(lbl == f"F:{mm.group(1)}" for lbl, _d, _r in out):
                    out.append((f"F:{mm.group(1)}", r.stdout, True))
    return out


def run_for(prop: str) -> int:
    base = Path(tempfile.mkdtemp(prefix=f"sa_selftest_{prop}_"))
    results: List[Dict[str, object]] = []
    failures: List[str] = []
    try:
        # reference run on a plain copy (what the quick tier sees)
        ref = base / "ref"
        ref.mkdir()
        _copy_tree(ref)
        rc0, v0, k0 = _run_check(prop, ref)
        if rc0 != 0:
            print(f"SELFTEST: reference run of {prop} on the copied tree exits {rc0}; self-test skipped (the main run reports it)")
            return 0
        # N1
        nroot = base / "n1"
        nroot.mkdir()
        _copy_tree(nroot)
        nfiles = _normalise(nroot)
        rc, v, k = _run_check(prop, nroot)
        ok = rc == 0 and k == k0
        results.append({"variant": "N1:ast.unparse-normalised sources", "files": nfiles, "expected": "silent, same known findings", "exit": rc, "ok": ok})
        if not ok:
            failures.append(f"N1 (behaviour-preserving re-formatting of {nfiles} files): exit {rc}; " + ("; ".join(v[:2]) if v else f"known findings differ: {sorted(set(k) ^ set(k0))[:2]}"))
        # N2
        n2root = base / "n2"
        n2root.mkdir()
        _copy_tree(n2root)
        rr = subprocess.run([PY, str(VERIF / "tools" / "rename_locals.py"), str(n2root)], capture_output=True, text=True, timeout=600)
        nren = int((rr.stdout.strip().splitlines() or ["0"])[-1]) if rr.returncode == 0 and (rr.stdout.strip().splitlines() or ["x"])[-1].isdigit() else -1
        if nren <= 0:
            failures.append(f"N2: tools/rename_locals.py failed on the scratch copy: {rr.stderr[-200:]}")
        else:
            rc, v, k = _run_check(prop, n2root)
            ok = rc == 0 and k == k0
            results.append({"variant": "N2:function-local variables renamed", "renamed": nren, "expected": "silent, same known findings", "exit": rc, "ok": ok})
            if not ok:
                failures.append(f"N2 (behaviour-preserving renaming of {nren} function-local variables): exit {rc}; " + ("; ".join(x[:200] for x in v[:2]) if v else f"known findings differ: {sorted(set(k) ^ set(k0))[:2]}"))
        # N3
        n3root = base / "n3"
        n3root.mkdir()
        _copy_tree(n3root)
        rr = subprocess.run([PY, str(VERIF / "tools" / "reorder_defs.py"), str(n3root)], capture_output=True, text=True, timeout=600)
        nre = int((rr.stdout.strip().splitlines() or ["0"])[-1]) if rr.returncode == 0 and (rr.stdout.strip().splitlines() or ["x"])[-1].isdigit() else -1
        if nre <= 0:
            failures.append(f"N3: tools/reorder_defs.py failed on the scratch copy: {rr.stderr[-200:]}")
        else:
            rc, v, k = _run_check(prop, n3root)
            ok = rc == 0 and k == k0
            results.append({"variant": "N3:runs of plain definitions reversed, SQL files re-indented and commented", "edits": nre, "expected": "silent, same known findings", "exit": rc, "ok": ok})
            if not ok:
                failures.append(f"N3 (behaviour-preserving re-ordering of definitions, {nre} edits): exit {rc}; " + ("; ".join(x[:200] for x in v[:2]) if v else f"known findings differ: {sorted(set(k) ^ set(k0))[:2]}"))
        # N4
        n4root = base / "n4"
        n4root.mkdir()
        _copy_tree(n4root)
        rr = subprocess.run([PY, str(VERIF / "tools" / "extract_temps.py"), str(n4root)], capture_output=True, text=True, timeout=600)
        nho = int((rr.stdout.strip().splitlines() or ["0"])[-1]) if rr.returncode == 0 and (rr.stdout.strip().splitlines() or ["x"])[-1].isdigit() else -1
        if nho <= 0:
            failures.append(f"N4: tools/extract_temps.py failed on the scratch copy: {rr.stderr[-200:]}")
        else:
            rc, v, k = _run_check(prop, n4root)
            ok = rc == 0 and k == k0
            results.append({"variant": "N4:call arguments that are calls hoisted into temporaries", "edits": nho, "expected": "silent, same known findings", "exit": rc, "ok": ok})
            if not ok:
                failures.append(f"N4 (behaviour-preserving hoisting of {nho} nested calls into temporaries): exit {rc}; " + ("; ".join(x[:200] for x in v[:2]) if v else f"known findings differ: {sorted(set(k) ^ set(k0))[:2]}"))
        # S*/F*
        vars_ = _variants(prop)

        def one(item: Tuple[str, str, bool]) -> Dict[str, object]:
            label, diff, rev = item
            root = base / re.sub(r"[^A-Za-z0-9_]", "_", label)
            root.mkdir()
            _copy_tree(root)
            err = _apply(root, diff, rev)
            if err is not None:
                return {"variant": label, "skipped": f"does not apply to the current tree: {err[:80]}", "ok": True}
            if not _compiles(root, diff):
                return {"variant": label, "skipped": "variant does not compile", "ok": True}
            rc_, v_, _k = _run_check(prop, root)
            shutil.rmtree(root, ignore_errors=True)
            return {"variant": label, "expected": "VIOLATION", "exit": rc_, "ok": rc_ == 1, "first": (v_[0][:160] if v_ else "")}
        try:
            busy = os.getloadavg()[0] > (os.cpu_count() or 16)
        except OSError:
            busy = False
        with ThreadPoolExecutor(max_workers=min(4 if busy else 16, max(1, len(vars_)))) as ex:
            for res in ex.map(one, vars_):
                results.append(res)
                if not res["ok"]:
                    failures.append(f"{res['variant']}: expected a VIOLATION, check exited {res.get('exit')} {res.get('first', '')}")
    finally:
        shutil.rmtree(base, ignore_errors=True)
    fired = sum(1 for r in results if r.get("expected") == "VIOLATION" and r["ok"])
    skipped = sum(1 for r in results if "skipped" in r)
    print(f"SELFTEST {prop}: neutral variants silent={sum(1 for r in results if str(r['variant']).startswith('N') and r['ok'])}/{sum(1 for r in results if str(r['variant']).startswith('N'))}, "
          f"breaking variants caught={fired}/{sum(1 for r in results if r.get('expected') == 'VIOLATION')}, skipped={skipped}")
    for r in results:
        print(f"   {r['variant']}: " + (f"skipped ({r['skipped']})" if "skipped" in r else f"exit {r['exit']} ({'as expected' if r['ok'] else 'UNEXPECTED'})"))
    # record in the evidence file written by the main run
    ev_dir = Path(os.environ.get("VERIF_EVIDENCE_DIR", str(VERIF / "evidence")))
    evp = ev_dir / f"{prop}.json"
    if evp.exists():
        try:
            ev = json.loads(evp.read_text())
            ev["coverage"]["selftest"] = results
            evp.write_text(json.dumps(ev, indent=1, default=str))
        except Exception:
            pass
    if failures:
        for f in failures:
            print(f"SELFTEST-FAILURE property={prop}: {f}")
        print(f"ANALYSIS-ERROR property={prop}: the checker failed its own self-test (see SELFTEST-FAILURE lines); its verdict is not to be trusted")
        return 2
    return 0
