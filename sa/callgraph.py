"""Whole-program call graph over the resolved program (E0)."""
from __future__ import annotations

import ast
from typing import Dict, List, Optional, Set, Tuple

from sa.core import FuncInfo, Program, walk_no_nested

_CACHE: Dict[int, "CallGraph"] = {}


class CallGraph:
    def __init__(self, P: Program) -> None:
        self.P = P
        self.callees: Dict[str, Set[str]] = {}
        self.callers: Dict[str, Set[str]] = {}
        self.sites: Dict[Tuple[str, str], List[ast.Call]] = {}
        self.unresolved = 0
        self.resolved = 0
        for f in P.iter_functions():
            self.callees.setdefault(f.qualname, set())
            for n in walk_no_nested(f.node):
                if isinstance(n, ast.Call):
                    ts = P.resolve_call(f, n)
                    if ts:
                        self.resolved += 1
                    else:
                        self.unresolved += 1
                    for t in ts:
                        self.callees[f.qualname].add(t)
                        self.callers.setdefault(t, set()).add(f.qualname)
                        self.sites.setdefault((f.qualname, t), []).append(n)
            # nested functions are considered called by their parent
        for f in P.iter_functions():
            if f.parent is not None:
                self.callees.setdefault(f.parent.qualname, set()).add(f.qualname)
                self.callers.setdefault(f.qualname, set()).add(f.parent.qualname)

    def reachable_from(self, roots: List[str]) -> Set[str]:
        seen: Set[str] = set()
        stack = list(roots)
        while stack:
            q = stack.pop()
            if q in seen:
                continue
            seen.add(q)
            stack.extend(self.callees.get(q, ()))
        return seen

    def callers_closure(self, targets: List[str]) -> Set[str]:
        seen: Set[str] = set()
        stack = list(targets)
        while stack:
            q = stack.pop()
            if q in seen:
                continue
            seen.add(q)
            stack.extend(self.callers.get(q, ()))
        return seen


def callgraph(P: Program) -> CallGraph:
    if id(P) not in _CACHE:
        _CACHE[id(P)] = CallGraph(P)
    return _CACHE[id(P)]
