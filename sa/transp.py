"""Rules shared by the checks on the SQL transpiler's operator handlers (C03, C04, C06, C07, C28).

RT.1  field coverage: every semantic field of a node class is read (typed attribution) by the SQL transpiler / structure visitor
RT.2  paired fields: a function that reads a value field whose meaning depends on a modifier field (partition_by/partition_op,
      grouping/grouping_op, start/start_mode ...) reads the modifier too
RT.3  state discipline of the transpiler object across statements:
      (a) scratch attributes that expression handlers mutate are re-initialised on every path of the per-statement loop
      (b) attributes rebound by handlers are rebound only inside context managers that restore them in `finally`
      (c) definition registries (rulesets, operators) are written only by the definition handlers, and nothing reachable from
          them is mutated by an expression handler
"""
from __future__ import annotations

import ast
from typing import Dict, List, Optional, Set, Tuple

from sa import e7, render
from sa.cfg import CFG
from sa.core import AnalysisError, Finding, FuncInfo, Program, Report, src, walk_no_nested

TR = "vtlengine.duckdb_transpiler.Transpiler.SQLTranspiler"
SV = "vtlengine.duckdb_transpiler.Transpiler.structure_visitor.StructureVisitor"
CARRIERS = ["vtlengine.duckdb_transpiler.Transpiler._ParsedHRRule"]
MUTATORS = {"add", "update", "pop", "popitem", "clear", "setdefault", "append", "extend", "insert", "remove", "discard", "sort", "reverse"}

_T: Optional[render.TypedReads] = None


def typed(P: Program) -> render.TypedReads:
    global _T
    if _T is None:
        _T = render.TypedReads(P, False, [TR, SV], carriers=CARRIERS)
    return _T


def fnd(rule: str, key: str, f: FuncInfo, line: int, msg: str, path=None) -> Finding:
    return Finding(rule, f"{rule}/{key}", f.module.rel, line, f.qualname, msg, path)


def handler_of(P: Program, cname: str) -> FuncInfo:
    T = typed(P)
    for name in (f"visit_{cname}",):
        if name in T.owners:
            return T.owners[name]
    cands = [f for n, f in T.owners.items() if n.startswith(f"visit_{cname}_")]
    if cands:
        return cands[0]
    return T.owners["visit_Start"]


def field_coverage(P: Program, rep: Report, rule: str, classes: List[str], exempt: Dict[Tuple[str, str], str], what: str) -> None:
    T = typed(P)
    NC = T.NC
    n = 0
    for cname in classes:
        if cname not in NC:
            raise AnalysisError(f"{rule}: node class {cname} vanished")
        h = handler_of(P, cname)
        for f in [x for x in NC[cname].fields if x not in e7.POSITIONAL]:
            n += 1
            key = f"{cname}.{f}"
            if (cname, f) in exempt:
                rep.instance(rule, key, nontrivial=False)
                rep.exemption(rule, key, exempt[(cname, f)])
                continue
            rep.instance(rule, key, sample={"read_in": sorted({a for a, _ in T.reads.get((cname, f), [])})[:4]})
            if not T.has(cname, f):
                rep.add(fnd(rule, key, h, h.node.lineno,
                            f"no code of the SQL transpiler reads {cname}.{f} (or its value is discarded): that part of the {what} is accepted by the parser "
                            f"and by semantic analysis but has no effect on the SQL that computes the result"))
    rep.floor(f"{rule} fields", n, 3)


def paired_fields(P: Program, rep: Report, rule: str, pairs: List[Tuple[str, str, str]], why: str) -> None:
    """pairs: (class, value field, modifier field)"""
    T = typed(P)
    for cname, val, mod in pairs:
        readers = sorted({m for m, _ in T.reads.get((cname, val), [])})
        if not readers:
            raise AnalysisError(f"{rule}: nobody reads {cname}.{val} (anchor vanished; see the coverage rule)")
        for m in readers:
            rep.instance(rule, f"{cname}.{val}+{mod}/{m}")
            mods = {mm for mm, _ in T.reads.get((cname, mod), [])}
            if m not in mods:
                f = T.owners[m]
                line = min(l for mm, l in T.reads[(cname, val)] if mm == m)
                rep.add(fnd(rule, f"{cname}.{val}+{mod}/{m}", f, line,
                            f"{m} reads {cname}.{val} but never {cname}.{mod}: {why}"))


# ------------------------------------------------------------------------------------------------------------------
def _self_attr_writes(fn: ast.AST) -> List[Tuple[str, str, ast.AST]]:
    """(attribute, kind, node) for every write to self.<attr>: 'rebind' | 'item' | 'mut:<method>'"""
    out: List[Tuple[str, str, ast.AST]] = []
    for n in walk_no_nested(fn):
        tg: List[ast.AST] = []
        if isinstance(n, ast.Assign):
            tg = list(n.targets)
        elif isinstance(n, (ast.AugAssign, ast.AnnAssign)):
            tg = [n.target]
        elif isinstance(n, ast.Delete):
            tg = list(n.targets)
        for t in tg:
            for tt in (t.elts if isinstance(t, (ast.Tuple, ast.List)) else [t]):
                base, kind = tt, "rebind"
                while isinstance(base, ast.Subscript):
                    base, kind = base.value, "item"
                if isinstance(base, ast.Attribute) and isinstance(base.value, ast.Name) and base.value.id == "self":
                    out.append((base.attr, kind, n))
        if isinstance(n, ast.Call) and isinstance(n.func, ast.Attribute) and n.func.attr in MUTATORS:
            b = n.func.value
            while isinstance(b, ast.Subscript):
                b = b.value
            if isinstance(b, ast.Attribute) and isinstance(b.value, ast.Name) and b.value.id == "self":
                out.append((b.attr, f"mut:{n.func.attr}", n))
    return out


DEFINITION_HANDLERS = {"visit_Operator", "visit_DPRuleset", "_visit_HRuleset", "visit_HRuleset"}
INIT_METHODS = {"__init__", "__post_init__"}


def _resets_on_all_paths(P: Program, f: FuncInfo, attr: str, depth: int = 0) -> bool:
    """every normal path through f passes a re-initialisation of self.<attr> (rebinding to a fresh container / .clear())"""
    g = CFG(f.node)
    rs = _reset_nodes(P, f, g, attr, depth)
    return bool(rs) and g.path_avoiding(g.entry, lambda x: x is g.exit, lambda x: x in rs, follow_exc=False) is None


def _is_fresh(v: ast.AST) -> bool:
    if isinstance(v, (ast.Dict, ast.List, ast.Set)) and not (getattr(v, "keys", None) or getattr(v, "elts", None)):
        return True
    if isinstance(v, ast.Call) and isinstance(v.func, ast.Name) and v.func.id in ("dict", "set", "list") and not v.args and not v.keywords:
        return True
    return isinstance(v, ast.Constant)


def _reset_nodes(P: Program, f: FuncInfo, g: CFG, attr: str, depth: int) -> Set:
    out = set()
    for n in g.nodes:
        st = n.stmt
        if st is None or n.kind != "stmt":
            continue
        if isinstance(st, ast.Assign) and any(src(t) == f"self.{attr}" for t in st.targets) and _is_fresh(st.value):
            out.add(n)
        elif isinstance(st, ast.Expr) and isinstance(st.value, ast.Call) and src(st.value.func) == f"self.{attr}.clear":
            out.add(n)
        elif depth < 2:
            # a call of a self-method that resets the attribute on all of ITS normal paths
            for c in ast.walk(st):
                if isinstance(c, ast.Call) and isinstance(c.func, ast.Attribute) and src(c.func.value) == "self":
                    for tq in P.resolve_call(f, c)[:2]:
                        h = P.functions.get(tq)
                        if h is not None and h is not f and _resets_on_all_paths(P, h, attr, depth + 1):
                            out.add(n)
    return out


def state_discipline(P: Program, rep: Report, rule: str, only_attrs: Optional[Set[str]] = None, parts: str = "abcd") -> None:  # noqa: C901
    T = typed(P)
    tr = P.cls(TR)
    vs = tr.methods.get("visit_Start")
    if vs is None:
        raise AnalysisError("anchor vanished: SQLTranspiler.visit_Start")
    writes: Dict[str, List[Tuple[str, str, ast.AST]]] = {}
    for name, f in T.owners.items():
        for attr, kind, node in _self_attr_writes(f.node):
            writes.setdefault(attr, []).append((name, kind, node))
    if len(writes) < 8:
        raise AnalysisError(f"only {len(writes)} written attributes of the transpiler found (anchor changed)")
    # ---- (a) scratch containers mutated by expression handlers
    if "a" in parts:
        g = CFG(vs.node, for_nonempty=False)
        loop = next((n for n in walk_no_nested(vs.node) if isinstance(n, ast.For) and src(n.iter).endswith(".children")), None)
        if loop is None:
            raise AnalysisError("visit_Start: per-statement loop not found")
        for attr, ws in sorted(writes.items()):
            if only_attrs is not None and attr not in only_attrs:
                continue
            handlers = {m for m, k, _ in ws if k != "rebind" and m not in INIT_METHODS and m not in DEFINITION_HANDLERS and m != "visit_Start"
                        and not _is_scope_manager(T.owners[m]) and not _is_stack_helper(T.owners[m])}
            if not handlers:
                continue
            rep.instance(rule, f"scratch/{attr}", sample={"mutated_by": sorted(handlers)[:5]})
            # statements of the Assignment branch that visit the statement
            visits = [n for n in g.nodes if n.stmt is not None and n.kind == "stmt" and _in(loop, n.stmt)
                      and any(isinstance(c, ast.Call) and src(c.func) == "self.visit" for c in ast.walk(n.stmt))
                      and _under_isinstance(n.stmt, loop, "Assignment")]
            if not visits:
                raise AnalysisError("visit_Start: `self.visit(child)` of the assignment branch not found")
            rs = _reset_nodes(P, vs, g, attr, 0)
            loop_head = [n for n in g.nodes if n.kind == "loop" and n.stmt is loop]
            for v in visits:
                # from the visit to the next iteration / the end without passing a reset
                p = g.path_avoiding(v, lambda x: x is g.exit or x in loop_head, lambda x: x in rs, follow_exc=False)
                if p is not None:
                    rep.add(fnd(rule, f"scratch/{attr}", vs, v.lineno,
                                f"self.{attr} is filled by {', '.join(sorted(handlers)[:3])} while a statement is transpiled, and there is a path from that "
                                f"statement to the next one on which it is not re-initialised: what one statement left in it changes the SQL of later statements"))
                    break
    # ---- (b) rebinds outside init / visit_Start only inside restoring context managers
    if "b" in parts:
        for attr, ws in sorted(writes.items()):
            if only_attrs is not None and attr not in only_attrs:
                continue
            for m, kind, node in ws:
                if kind != "rebind" or m in INIT_METHODS or m == "visit_Start" or m in DEFINITION_HANDLERS:
                    continue
                f = T.owners[m]
                if isinstance(f.node, ast.FunctionDef) and any(src(d).endswith("setter") for d in f.node.decorator_list):
                    continue
                key = f"rebind/{attr}/{m}"
                rep.instance(rule, key)
                if _is_scope_manager(f) and _restored_in_finally(f, attr):
                    continue
                if _is_stack_helper(f):
                    continue
                if isinstance(node, ast.Assign) and _is_fresh(node.value) and not isinstance(node.value, ast.Constant):
                    continue  # re-initialisation to a fresh empty container (per-statement reset is rule (a))
                rep.add(fnd(rule, key, f, node.lineno,
                            f"{m} rebinds self.{attr} outside a context manager that restores it in `finally`: the value survives the handler "
                            f"(on exceptions and on normal return alike) and leaks into whatever is transpiled next"))
    # ---- (c) registries
    if "c" in parts:
        regs = {a for a, ws in writes.items() if any(m in DEFINITION_HANDLERS for m, _k, _n in ws)}
        if not regs:
            raise AnalysisError("no definition registry found (visit_Operator / visit_DPRuleset / _visit_HRuleset write none)")
        for attr in sorted(regs):
            for m, kind, node in writes[attr]:
                if m in INIT_METHODS or m in DEFINITION_HANDLERS:
                    continue
                f = T.owners[m]
                if isinstance(f.node, ast.FunctionDef) and any(src(d).endswith("setter") for d in f.node.decorator_list):
                    continue
                rep.instance(rule, f"registry-write/{attr}/{m}")
                rep.add(fnd(rule, f"registry-write/{attr}/{m}", f, node.lineno,
                            f"{m} writes the definition registry self.{attr}; only the definition handlers may: an expression handler that edits it "
                            f"changes what later statements see"))
            _registry_alias_mutations(P, rep, rule, attr)
    # ---- (d) push/pop helpers are paired on every exit
    if "d" in parts:
        pushes = {n for n in T.owners if n.startswith("_push_")}
        for name, f in T.owners.items():
            calls = [c for c in walk_no_nested(f.node) if isinstance(c, ast.Call) and isinstance(c.func, ast.Attribute) and c.func.attr in pushes and src(c.func.value) == "self"]
            if not calls or _is_stack_helper(f):
                continue
            g = CFG(f.node)
            for c in calls:
                pop = "_pop_" + c.func.attr[len("_push_"):]
                rep.instance(rule, f"stack/{name}/{c.func.attr}")
                a_nodes = [x for x in g.nodes if x.stmt is not None and x.kind == "stmt" and any(y is c for y in ast.walk(x.stmt))]
                rel = {x for x in g.nodes if x.stmt is not None and x.kind == "stmt" and any(isinstance(y, ast.Call) and isinstance(y.func, ast.Attribute) and y.func.attr == pop for y in ast.walk(x.stmt))}
                bad = None
                for a in a_nodes:
                    for s_ in g.norm_succ.get(a, set()):
                        if s_ in rel:
                            continue
                        for ex in (g.exit, g.raise_exit):
                            p = g.path_avoiding(s_, lambda x, ex=ex: x is ex, lambda x: x in rel) if s_ is not ex else [s_]
                            if p is not None:
                                bad = "normal" if ex is g.exit else "exception"
                if bad:
                    rep.add(fnd(rule, f"stack/{name}/{c.func.attr}", f, c.lineno,
                                f"self.{c.func.attr}(...) is not followed by self.{pop}() on a path to the {bad} exit of {name}: the parameter scope of this "
                                f"operator call stays on the stack and later names resolve against it"))


def _in(loop: ast.AST, st: ast.AST) -> bool:
    return any(x is st for x in ast.walk(loop))


def _under_isinstance(st: ast.AST, loop: ast.AST, cls: str) -> bool:
    p = getattr(st, "_parent", None)
    while p is not None and p is not loop:
        if isinstance(p, ast.If) and "isinstance" in src(p.test) and cls in src(p.test) and any(x is st for b in p.body for x in ast.walk(b)):
            return True
        p = getattr(p, "_parent", None)
    return False


def _is_scope_manager(f: FuncInfo) -> bool:
    return any(d.split(".")[-1] == "contextmanager" for d in f.decorators)


def _is_stack_helper(f: FuncInfo) -> bool:
    return f.name.startswith(("_push_", "_pop_", "push_", "pop_"))


def _restored_in_finally(f: FuncInfo, attr: str) -> bool:
    for n in ast.walk(f.node):
        if isinstance(n, ast.Try) and n.finalbody:
            for st in n.finalbody:
                if isinstance(st, ast.Assign) and any(src(t) == f"self.{attr}" for t in st.targets) and isinstance(st.value, ast.Name):
                    # the restored value was saved from the attribute before the change
                    saved = st.value.id
                    if any(isinstance(a, ast.Assign) and any(isinstance(t, ast.Name) and t.id == saved for t in a.targets) and src(a.value) == f"self.{attr}"
                           for a in ast.walk(f.node)):
                        return True
    return False


# objects taken out of a registry and then mutated
REGISTRY_MUTATION_OK: Dict[Tuple[str, str], str] = {
    ("_ensure_rule_names", "rule.name = str(i + 1)"): "definition-time normalisation called by the definition handlers themselves: unnamed rules get their ordinal as name, once "
                                                       "(skipped as soon as any rule has a name); not an expression handler",
}


def _registry_alias_mutations(P: Program, rep: Report, rule: str, attr: str) -> None:  # noqa: C901
    T = typed(P)
    work: List[Tuple[str, frozenset]] = []
    for name in T.owners:
        if name in DEFINITION_HANDLERS or name in INIT_METHODS:
            continue
        work.append((name, frozenset()))
    done: Set[Tuple[str, frozenset]] = set()
    while work:
        name, tparams = work.pop(0)
        if (name, tparams) in done:
            continue
        done.add((name, tparams))
        f = T.owners[name]
        fn = f.node
        tainted: Set[str] = set(tparams)

        def from_registry(e: ast.AST) -> bool:
            """e denotes the registry, or an object reachable from it by subscripts / attributes / dict views"""
            if isinstance(e, ast.Attribute) and e.attr == attr and isinstance(e.value, ast.Name) and e.value.id == "self":
                return True
            if isinstance(e, ast.Name):
                return e.id in tainted
            if isinstance(e, (ast.Subscript, ast.Attribute, ast.Starred)):
                return from_registry(e.value)
            if isinstance(e, ast.Call) and isinstance(e.func, ast.Attribute) and e.func.attr in ("get", "items", "values", "setdefault", "pop"):
                return from_registry(e.func.value)
            if isinstance(e, ast.IfExp):
                return from_registry(e.body) or from_registry(e.orelse)
            if isinstance(e, ast.BoolOp):
                return any(from_registry(v) for v in e.values)
            if isinstance(e, (ast.Tuple, ast.List)):
                return any(from_registry(v) for v in e.elts)
            return False

        def is_copy(e: ast.AST) -> bool:
            # fresh containers built from registry content do not alias the registry's own container (elements still do)
            return isinstance(e, (ast.ListComp, ast.DictComp, ast.SetComp, ast.GeneratorExp, ast.JoinedStr, ast.Compare, ast.BoolOp)) or \
                (isinstance(e, ast.Call) and isinstance(e.func, ast.Name) and e.func.id in ("list", "dict", "set", "sorted", "len", "str", "tuple", "copy", "deepcopy", "any", "all", "isinstance")) or \
                (isinstance(e, ast.Call) and isinstance(e.func, ast.Attribute) and e.func.attr in ("copy", "deepcopy", "join", "format", "keys"))
        for _ in range(4):
            for n in walk_no_nested(fn):
                if isinstance(n, ast.Assign) and from_registry(n.value) and not is_copy(n.value):
                    for t in n.targets:
                        if isinstance(t, ast.Name):
                            tainted.add(t.id)
                if isinstance(n, (ast.For, ast.comprehension)) and from_registry(n.iter):
                    for t in ast.walk(n.target):
                        if isinstance(t, ast.Name):
                            tainted.add(t.id)
        if not tainted:
            continue
        for n in walk_no_nested(fn):
            site = None
            if isinstance(n, (ast.Assign, ast.AugAssign, ast.Delete)):
                tg = n.targets if isinstance(n, (ast.Assign, ast.Delete)) else [n.target]
                for t in tg:
                    base = t
                    deref = False
                    while isinstance(base, (ast.Subscript, ast.Attribute)) and not (isinstance(base, ast.Attribute) and isinstance(base.value, ast.Name) and base.value.id == "self"):
                        base = base.value
                        deref = True
                    if deref and isinstance(base, ast.Name) and base.id in tainted:
                        site = n
            if isinstance(n, ast.Call) and isinstance(n.func, ast.Attribute) and n.func.attr in MUTATORS:
                b = n.func.value
                while isinstance(b, (ast.Subscript, ast.Attribute)) and not (isinstance(b, ast.Attribute) and isinstance(b.value, ast.Name) and b.value.id == "self"):
                    b = b.value
                if isinstance(b, ast.Name) and b.id in tainted:
                    site = n
            if site is not None:
                stmt = src(site)[:60]
                key = f"registry-alias/{attr}/{name}/{stmt[:40]}"
                rep.instance(rule, key)
                ok = next((v for (fn_, pre), v in REGISTRY_MUTATION_OK.items() if fn_ == name and stmt.startswith(pre)), None)
                if ok:
                    rep.exemption(rule, key, ok)
                    continue
                rep.add(fnd(rule, key, f, site.lineno,
                            f"`{stmt}` mutates an object taken from the definition registry self.{attr} (ruleset / operator definitions shared by every statement): "
                            f"a statement transpiled later sees the edited definition, so its result depends on which statements came before it"))
            # follow into self-methods
            if isinstance(n, ast.Call) and isinstance(n.func, ast.Attribute) and src(n.func.value) in ("self", "cls") and n.func.attr in T.owners \
                    and n.func.attr != "visit" and not n.func.attr.startswith("visit_"):
                callee = T.owners[n.func.attr]
                params = [p_ for p_ in callee.params if p_ not in ("self", "cls")]
                tp = {params[i] for i, a in enumerate(n.args) if i < len(params) and from_registry(a) and not is_copy(a)}
                tp |= {k.arg for k in n.keywords if k.arg in params and from_registry(k.value) and not is_copy(k.value)}
                if tp and n.func.attr not in DEFINITION_HANDLERS:
                    work.append((n.func.attr, frozenset(tp)))


# ---------------------------------------------------------------------------------------------------------------
# RT.5  component-level expressions are translated inside the clause scope of their dataset
COMPONENT_EXPR_SOURCES = {"children", "having_clause", "grouping"}
SCOPE_EXEMPT: Dict[Tuple[str, str], str] = {
    ("visit_RegularAggregation_sub", "child.right"): "the fixed value of a sub clause is a SCALAR expression: it must not be resolved against the dataset's columns, so it is translated outside the clause scope on purpose",
}


def scope_coverage(P: Program, rep: Report, rule: str, only: Optional[Set[str]] = None) -> int:
    """In every SQLTranspiler method that opens `with self._clause_scope(ds)`, each `self.visit*(e)` whose argument derives
    (through local assignments / loop targets) from the component-level parts of the node - the clause's children, an
    aggregation's having_clause or grouping items - lies inside such a with-block.  Outside it, `_in_clause` /
    `_current_dataset` are those of the enclosing context: a component name resolves as a dataset or scalar, and operators
    whose clause form differs from their dataset form (count(), time_agg, …) are translated in the wrong form."""
    ci = P.classes[TR]
    n = 0
    for name, f in sorted(ci.methods.items()):
        text = src(f.node)
        if "_clause_scope(" not in text or name == "_clause_scope" or (only is not None and name not in only):
            continue
        tainted: Set[str] = set()

        def is_tainted(e: ast.AST) -> bool:
            for x in ast.walk(e):
                if isinstance(x, ast.Attribute) and x.attr in COMPONENT_EXPR_SOURCES:
                    return True
                if isinstance(x, ast.Name) and x.id in tainted:
                    return True
            return False
        changed = True
        while changed:
            changed = False
            for st in ast.walk(f.node):
                tgts: List[ast.AST] = []
                val: Optional[ast.AST] = None
                if isinstance(st, ast.Assign):
                    tgts, val = st.targets, st.value
                elif isinstance(st, ast.AnnAssign) and st.value is not None:
                    tgts, val = [st.target], st.value
                elif isinstance(st, (ast.For, ast.comprehension)):
                    tgts, val = [st.target], st.iter
                elif isinstance(st, ast.NamedExpr):
                    tgts, val = [st.target], st.value
                if val is None or not is_tainted(val):
                    continue
                for t in tgts:
                    for x in ast.walk(t):
                        if isinstance(x, ast.Name) and x.id not in tainted:
                            tainted.add(x.id)
                            changed = True

        def walk(node: ast.AST, inside: bool) -> None:
            nonlocal n
            for ch in ast.iter_child_nodes(node):
                iw = inside
                if isinstance(node, ast.With) and ch in node.body and any("_clause_scope" in src(it.context_expr) for it in node.items):
                    iw = True
                if (isinstance(ch, ast.Call) and isinstance(ch.func, ast.Attribute) and isinstance(ch.func.value, ast.Name) and ch.func.value.id == "self"
                        and ch.func.attr.startswith("visit") and ch.args and is_tainted(ch.args[0])):
                    arg = src(ch.args[0])
                    why = SCOPE_EXEMPT.get((name, arg))
                    n += 1
                    rep.instance(rule, f"scope/{name}/{arg}", nontrivial=why is None, sample={"call": src(ch)[:80], "inside-clause-scope": iw, "exempt": why})
                    if not iw and why is None:
                        rep.add(fnd(rule, f"scope/{name}/{arg}", f, ch.lineno,
                                    f"`{src(ch)[:80]}` translates a component-level expression (it derives from the node's children / having / grouping) outside every "
                                    f"`with self._clause_scope(…)` block of {name}: names in it are not resolved against the operand's components and operators with a "
                                    f"clause-specific form (count(), time_agg, …) are translated in their dataset form"))
                walk(ch, iw)
        walk(f.node, False)
    return n


# ---------------------------------------------------------------------------------------------------------------
# RT.6  the SQL builder every handler relies on: what is added is what is built
BUILDER = "vtlengine.duckdb_transpiler.Transpiler.sql_builder.SQLBuilder"


def builder_contract(P: Program, rep: Report, rule: str, parts: str = "whgj") -> None:
    """The real SQLBuilder class is instantiated inside the evaluator (dataclass field defaults read from source; every method is the
    repository's) and driven with marker arguments.  Contract, as the handlers use it:
      w  every where() / where_all() condition is in the WHERE clause, conjoined with AND (sub adds one condition per fixed identifier)
      h  every having() condition is in the HAVING clause - also when no GROUP BY column was added (an aggregation without grouping, or
         `group except` naming every identifier, still has a having / the `HAVING COUNT(*) > 0` guard of empty inputs)
      g  every group_by() column is in GROUP BY
      j  join(…, join_type=<token>) writes the token's own keyword, the ON condition and the alias"""
    from sa import structmodel as sm
    from sa.e6 import Raised, Unmodelled
    M = sm.Model(P)
    fb = P.lookup_method(P.classes[BUILDER], "build")

    def drive(calls: List[Tuple[str, tuple, dict]]) -> str:
        b = sm.instantiate(M, BUILDER)
        try:
            for name, args, kw in calls:
                sm.call_method(M, b, name, *args, **kw)
            return str(sm.call_method(M, b, "build"))
        except (Unmodelled, Raised) as e:
            raise AnalysisError(f"{rule}: SQLBuilder outside the evaluator's language: {e}")

    def clause(sql: str, kw: str) -> Optional[str]:
        import re as _re
        m = _re.search(r"\b" + kw + r"\b(.*?)(?=\bWHERE\b|\bGROUP BY\b|\bHAVING\b|\bORDER BY\b|\bLIMIT\b|$)", sql)
        return m.group(1).strip() if m else None
    base = [("select", ("⟦a⟧",), {}), ("from_table", ("⟦T⟧", "t"), {})]
    if "w" in parts:
        sql = drive(base + [("where", ("⟦c1⟧",), {}), ("where", ("⟦c2⟧",), {}), ("where_all", (["⟦c3⟧", "⟦c4⟧"],), {})])
        got = clause(sql, "WHERE")
        rep.instance(rule, "builder/where-accumulates", sample={"sql": sql})
        if got is None or sorted(x.strip() for x in got.split(" AND ")) != ["⟦c1⟧", "⟦c2⟧", "⟦c3⟧", "⟦c4⟧"]:
            rep.add(fnd(rule, "builder/where-accumulates", fb, fb.node.lineno,
                        f"where(c1), where(c2), where_all([c3, c4]) builds `{sql}`: the WHERE clause must be the conjunction of ALL four conditions - a clause that adds one condition per "
                        f"item (sub with two fixed identifiers) otherwise filters on the last one only"))
    if "h" in parts:
        for label, extra in (("with-group-by", [("group_by", ("⟦g⟧",), {})]), ("without-group-by", [])):
            sql = drive(base + extra + [("having", ("⟦h1⟧",), {}), ("having", ("⟦h2⟧",), {})])
            got = clause(sql, "HAVING")
            rep.instance(rule, f"builder/having/{label}", sample={"sql": sql})
            if got is None or sorted(x.strip() for x in got.split(" AND ")) != ["⟦h1⟧", "⟦h2⟧"]:
                rep.add(fnd(rule, f"builder/having/{label}", fb, fb.node.lineno,
                            f"having(h1), having(h2) {label.replace('-', ' ')} builds `{sql}`: both conditions must reach the HAVING clause - an aggregation whose resolved GROUP BY list is empty "
                            f"(`group except` naming every identifier, or no grouping at all) otherwise ignores its having condition and the empty-input guard"))
    if "g" in parts:
        sql = drive(base + [("group_by", ("⟦g1⟧", "⟦g2⟧"), {}), ("group_by", ("⟦g3⟧",), {})])
        got = clause(sql, "GROUP BY")
        rep.instance(rule, "builder/group-by", sample={"sql": sql})
        if got is None or [x.strip() for x in got.split(",")] != ["⟦g1⟧", "⟦g2⟧", "⟦g3⟧"]:
            rep.add(fnd(rule, "builder/group-by", fb, fb.node.lineno, f"group_by(g1, g2), group_by(g3) builds `{sql}`: GROUP BY must list g1, g2, g3"))
    if "j" in parts:
        for tok, kw in (("inner_join", "INNER"), ("left_join", "LEFT"), ("full_join", "FULL")):
            sql = drive(base + [("join", ("⟦U⟧", "u"), {"on": "⟦on⟧", "join_type": tok})])
            rep.instance(rule, f"builder/join/{tok}", sample={"sql": sql})
            if f"{kw} JOIN ⟦U⟧ AS u ON ⟦on⟧" not in sql:
                rep.add(fnd(rule, f"builder/join/{tok}", fb, fb.node.lineno, f"join(U, u, on=…, join_type='{tok}') builds `{sql}`; expected `{kw} JOIN ⟦U⟧ AS u ON ⟦on⟧`"))
