"""C26 - every coded VTL error uses a catalogued code and fills its placeholders (DESIGN §2).

R26.1 code exists in the catalogue (codes resolved by constant propagation to a finite set)
R26.2 placeholders(message) ⊆ keyword names supplied at the site
R26.3 a code passed positionally to InputValidationException is bound to `message`
R26.4 the coded constructors stay total (only centralised_messages[code]["message"].format(**kwargs))
R26.5 every catalogue entry has a well-formed format string using named placeholders only
"""
from __future__ import annotations

import ast
import re
import string
from typing import Any, Dict, List, Optional, Set, Tuple

from sa.core import AnalysisError, Finding, Program, Report, dotted, program, src, walk_no_nested

EXC_MOD = "vtlengine.Exceptions"
CODED = ["SemanticError", "RunTimeError", "DataLoadError", "InputValidationException"]
RESERVED = {"code", "comp_code", "lino", "colno", "message"}
CODE_RE = re.compile(r"^\d+(-\d+){2,3}$")


def load_catalogue(P: Program) -> Tuple[Dict[str, dict], ast.AST]:
    m = P.module("vtlengine.Exceptions.messages")
    node = m.assigns.get("centralised_messages")
    if node is None:
        raise AnalysisError("anchor vanished: centralised_messages")
    try:
        cat = ast.literal_eval(node)
    except Exception as e:
        raise AnalysisError(f"centralised_messages is no longer a literal: {e}")
    if not isinstance(cat, dict):
        raise AnalysisError("centralised_messages is not a dict literal")
    return cat, node


def placeholders(msg: str) -> Tuple[Set[str], bool]:
    names: Set[str] = set()
    positional = False
    for _, field, _, _ in string.Formatter().parse(msg):
        if field is None:
            continue
        root = re.split(r"[.\[]", field, 1)[0]
        if root == "" or root.isdigit():
            positional = True
        else:
            names.add(root)
    return names, positional


def message_of(entry) -> Optional[str]:
    if isinstance(entry, dict):
        return entry.get("message")
    if isinstance(entry, str):
        return entry
    return None


def coded_classes(P: Program) -> Dict[str, str]:
    """qualified class name -> kind (one of CODED) for the coded classes and their subclasses."""
    out: Dict[str, str] = {}
    for k in CODED:
        q = f"{EXC_MOD}.{k}"
        P.cls(q)
        out[q] = k
        for sc in P.subclasses(q):
            if "__init__" not in sc.methods:  # inherits the coded constructor
                out[sc.qualname] = k
    return out


def iter_calls(P: Program):
    """(module, funcinfo|None, call) for every call expression in the package."""
    for m in P.modules.values():
        for node in ast.walk(m.tree):
            if isinstance(node, ast.Call):
                from sa.core import enclosing_function
                fn = enclosing_function(node)
                f = P.func_of_node(fn) if fn is not None else None
                yield m, f, node


def _in_annotation(n: ast.AST) -> bool:
    p = getattr(n, "_parent", None)
    c = n
    while p is not None:
        if isinstance(p, ast.AnnAssign) and p.annotation is c:
            return True
        if isinstance(p, ast.arg):
            return True
        c, p = p, getattr(p, "_parent", None)
    return False


def _is_catalogue_message(e: ast.AST) -> bool:
    """centralised_messages[<name>]["message"] (structural, not textual)"""
    return (isinstance(e, ast.Subscript) and isinstance(e.slice, ast.Constant) and e.slice.value == "message"
            and isinstance(e.value, ast.Subscript) and isinstance(e.value.value, ast.Name)
            and e.value.value.id == "centralised_messages" and isinstance(e.value.slice, ast.Name))


def _reaching(fn: ast.AST, e: ast.AST) -> ast.AST:
    """Follow a local name to its definition when it has exactly one assignment in the function."""
    seen = 0
    while isinstance(e, ast.Name) and seen < 5:
        defs = [n.value for n in ast.walk(fn) if isinstance(n, ast.Assign)
                and any(isinstance(t, ast.Name) and t.id == e.id for t in n.targets)]
        defs += [n for n in ast.walk(fn) if isinstance(n, ast.AugAssign) and isinstance(n.target, ast.Name)
                 and n.target.id == e.id]
        if len(defs) != 1 or isinstance(defs[0], ast.AugAssign):
            return e
        e = defs[0]
        seen += 1
    return e


def site_name(m, f, call) -> str:
    return f.qualname if f is not None else f"{m.name}.<module>"


def run(rep: Report, tier: str) -> None:
    P = program()
    rep.explanation = ("Every constructor call of a coded VTL exception in src/vtlengine (raised or returned) is "
                       "enumerated from the AST with callee resolution through import aliases; its code argument is "
                       "folded to a finite set of strings and checked against the catalogue literal in "
                       "Exceptions/messages.py; the message's placeholders are compared with the keywords supplied.")
    rep.rule("R26.1", "code argument resolves to catalogued code(s)")
    rep.rule("R26.2", "every placeholder of the message is supplied as a keyword")
    rep.rule("R26.3", "a code is never passed as the positional message of InputValidationException")
    rep.rule("R26.4", "coded constructors only index centralised_messages[code]['message'] and format(**kwargs)")
    rep.rule("R26.5", "catalogue entries: dict/str with a well-formed message using named placeholders")
    cat, _ = load_catalogue(P)
    classes = coded_classes(P)
    rep.rule("R26.6", "building the arguments of a coded error cannot itself fail on an unset class attribute: a table lookup keyed by `cls.<attr>` (declared default None) "
                      "inside the arguments sits under a test of that attribute")
    arguments_cannot_raise_on_none(P, rep, "R26.6")

    # R26.5 ------------------------------------------------------------------------------
    ph: Dict[str, Set[str]] = {}
    for code, entry in cat.items():
        msg = message_of(entry)
        key = f"R26.5/{code}"
        rep.instance("R26.5", code, nontrivial=True)
        bad = None
        if not isinstance(code, str) or not CODE_RE.match(code):
            bad = f"catalogue key {code!r} is not of the form d-d-d[-d]"
        elif msg is None or not isinstance(msg, str):
            bad = f"catalogue entry {code} has no 'message' string"
        else:
            try:
                names, positional = placeholders(msg)
                if positional:
                    bad = f"message of {code} uses a positional placeholder; constructors format with **kwargs only"
                ph[code] = names
            except ValueError as e:
                bad = f"message of {code} is not a valid format string: {e}"
        if bad:
            rep.add(Finding("R26.5", key, "src/vtlengine/Exceptions/messages.py", 1, "centralised_messages", bad))

    # R26.1-3 ----------------------------------------------------------------------------
    nsites, per_kind = coded_sites(P, rep, cat, classes, ph, ("R26.1", "R26.2", "R26.3"))

    # R26.4 ------------------------------------------------------------------------------
    for k in CODED:
        c = P.cls(f"{EXC_MOD}.{k}")
        init = c.methods.get("__init__")
        if init is None:
            raise AnalysisError(f"anchor vanished: {k}.__init__")
        nformat = 0
        body_nodes = [n for st in init.node.body for n in ast.walk(st)
                      if not _in_annotation(n)]
        for node in body_nodes:
            if isinstance(node, ast.Subscript):
                # allowed: centralised_messages[code] and centralised_messages[code]["message"]
                base = node.value
                ok = (isinstance(base, ast.Name) and base.id == "centralised_messages" and isinstance(node.slice, ast.Name)
                      and node.slice.id == "code") or (
                    isinstance(base, ast.Subscript) and isinstance(base.value, ast.Name)
                    and base.value.id == "centralised_messages" and isinstance(node.slice, ast.Constant)
                    and node.slice.value == "message")
                rep.instance("R26.4", f"{k}.__init__/subscript/{src(node)}")
                if not ok:
                    rep.add(Finding("R26.4", f"R26.4/{k}.__init__/subscript/{src(node)}", c.module.rel, node.lineno,
                                    init.qualname, f"constructor indexes {src(node)}: may raise before the error is built"))
            elif isinstance(node, ast.Call) and isinstance(node.func, ast.Attribute) and node.func.attr in ("format", "format_map"):
                nformat += 1
                rep.instance("R26.4", f"{k}.__init__/format/{src(node.func.value)}")
                ok = (_is_catalogue_message(_reaching(init.node, node.func.value)) and not node.args
                      and len(node.keywords) == 1 and node.keywords[0].arg is None
                      and isinstance(node.keywords[0].value, ast.Name) and node.keywords[0].value.id == "kwargs")
                if not ok:
                    rep.add(Finding("R26.4", f"R26.4/{k}.__init__/format/{src(node)[:60]}", c.module.rel, node.lineno,
                                    init.qualname, f"constructor formats with {src(node)[:80]} instead of "
                                    f"centralised_messages[code]['message'].format(**kwargs)"))
            elif isinstance(node, ast.BinOp) and isinstance(node.op, ast.Mod):
                rep.add(Finding("R26.4", f"R26.4/{k}.__init__/percent-format", c.module.rel, node.lineno, init.qualname,
                                "%-formatting in a coded constructor"))
        if nformat == 0:
            raise AnalysisError(f"{k}.__init__ no longer formats a catalogue message (anchor changed)")

    rep.analysed = {"modules": len(P.modules), "functions": len(P.functions), "constructor_call_sites": nsites,
                    "per_class": per_kind, "catalogue_codes": len(cat)}
    rep.assumptions = ["exception classes are referenced through names resolvable by import analysis "
                       "(no getattr/alias through containers)",
                       "str.format semantics: unknown extra keywords are ignored, missing ones raise KeyError"]
    rep.floor("coded exception constructor sites", nsites, 400)
    rep.floor("catalogue codes", len(cat), 230)


def placeholder_table(cat: Dict[str, Any]) -> Dict[str, Set[str]]:
    out: Dict[str, Set[str]] = {}
    for code, entry in cat.items():
        msg = message_of(entry)
        if isinstance(msg, str):
            try:
                out[code] = placeholders(msg)[0]
            except ValueError:
                pass
    return out


def coded_sites(P: Program, rep: Report, cat: Dict[str, Any], classes: Dict[str, str], ph: Dict[str, Set[str]], rules: Tuple[str, str, str],
                prefixes: Optional[Tuple[str, ...]] = None):
    """Every constructor call of a coded VTL exception: the code resolves to catalogued codes, every placeholder of the message is supplied.
    Shared with C23 (restricted to the AST constructor modules: a raise site that cannot build its error aborts create_ast with a KeyError)."""
    r1, r2, r3 = rules
    per_kind = {k: 0 for k in CODED}
    nsites = 0
    for m, f, call in iter_calls(P):
        q = P.resolve_expr(m, call.func)
        if q not in classes or (prefixes is not None and not m.name.startswith(prefixes)):
            continue
        kind = classes[q]
        nsites += 1
        per_kind[kind] += 1
        fname = site_name(m, f, call)
        kw = {k.arg: k.value for k in call.keywords if k.arg is not None}
        splats = [k.value for k in call.keywords if k.arg is None]
        code_node: Optional[ast.AST] = None
        if "code" in kw:
            code_node = kw["code"]
        elif kind == "InputValidationException":
            if len(call.args) >= 4:
                code_node = call.args[3]
        elif call.args:
            code_node = call.args[0]
        if any(isinstance(a, ast.Starred) for a in call.args):
            raise AnalysisError(f"{m.rel}:{call.lineno} *args in coded exception call not modelled")

        if kind == "InputValidationException" and code_node is None:
            # uncoded message form; R26.3: the message must not be a code
            first = call.args[0] if call.args else kw.get("message")
            vals = P.const_values(f, m, first) if first is not None else None
            looks_code = vals is not None and any(isinstance(v, str) and CODE_RE.match(v) for v in vals)
            named = set(kw) - RESERVED
            rep.instance(r3, f"{fname}/{src(first)[:40] if first is not None else ''}",
                         nontrivial=bool(looks_code or named),
                         sample={"site": f"{m.rel}:{call.lineno}", "call": src(call)[:120]})
            if looks_code:
                rep.add(Finding(r3, f"{r3}/{fname}/{sorted(vals)[0]}", m.rel, call.lineno, fname,
                                f"InputValidationException({src(first)}, …): the code is bound to `message`; "
                                f"nothing is rendered and the error carries no code"))
            continue
        if code_node is None:
            rep.add(Finding(r1, f"{r1}/{fname}/<no-code>", m.rel, call.lineno, fname,
                            f"{kind}() constructed without a code argument: {src(call)[:100]}"))
            continue
        codes = P.const_values(f, m, code_node)
        if codes is None or not all(isinstance(c, str) for c in codes) or not codes:
            raise AnalysisError(f"{m.rel}:{call.lineno} {fname}: code argument `{src(code_node)}` does not resolve "
                                f"to a finite set of strings")
        supplied = set(kw) - RESERVED
        for sp in splats:
            if isinstance(sp, ast.Name) and f is not None:
                # **name: the name's single local definition must be a dict literal with constant keys
                defs_ = [n_.value for n_ in walk_no_nested(f.node) if isinstance(n_, (ast.Assign, ast.AnnAssign)) and getattr(n_, "value", None) is not None
                         and any(isinstance(t_, ast.Name) and t_.id == sp.id for t_ in (n_.targets if isinstance(n_, ast.Assign) else [n_.target]))]
                if len(defs_) == 1:
                    sp = defs_[0]
            if isinstance(sp, ast.Subscript) and isinstance(sp.value, ast.Name) and sp.value.id in m.assigns and isinstance(m.assigns[sp.value.id], ast.Dict) \
                    and m.assigns[sp.value.id].values and all(isinstance(v_, ast.Dict) and all(isinstance(k_, ast.Constant) for k_ in v_.keys) for v_ in m.assigns[sp.value.id].values):
                # **TABLE[key] over a module-level table of dict literals: the keywords every row supplies
                rows_ = [{k_.value for k_ in v_.keys} for v_ in m.assigns[sp.value.id].values]  # type: ignore[union-attr]
                common_ = set.intersection(*rows_)
                sp = ast.Dict(keys=[ast.Constant(value=k_) for k_ in sorted(common_)], values=[ast.Constant(value=None) for _ in common_])
            if isinstance(sp, ast.Dict) and all(isinstance(k, ast.Constant) for k in sp.keys):
                keys_ = {k.value for k in sp.keys}  # type: ignore[union-attr]
                dup_ = sorted((keys_ & set(kw)) | {k_ for k_ in keys_ if sum(1 for s2 in splats if isinstance(s2, ast.Dict) and any(isinstance(q, ast.Constant) and q.value == k_ for q in s2.keys)) > 1})
                if dup_:
                    rep.add(Finding(r2, f"{r2}/{fname}/duplicate-keyword/{','.join(map(str, dup_))}", m.rel, call.lineno, fname,
                                    f"{kind}(…) receives the keyword(s) {dup_} twice (explicitly and through the ** dictionary): Python raises TypeError "
                                    f"`got multiple values for keyword argument` before the VTL error is built"))
                supplied |= keys_
            else:
                raise AnalysisError(f"{m.rel}:{call.lineno} {fname}: **{src(sp)} splat in coded exception call "
                                    f"is not a dict literal")
        for code in sorted(codes):
            rep.instance(r1, f"{fname}/{code}", nontrivial=True,
                         sample={"site": f"{m.rel}:{call.lineno}", "kind": kind, "code": code,
                                 "resolved_from": src(code_node)[:60]})
            if code not in cat:
                rep.add(Finding(r1, f"{r1}/{fname}/{code}", m.rel, call.lineno, fname,
                                f"{kind} code {code!r} is not in centralised_messages → KeyError on construction"))
                continue
            need = ph.get(code)
            if need is None:
                continue
            rep.instance(r2, f"{fname}/{code}/{','.join(sorted(supplied))}", nontrivial=bool(need),
                         sample={"site": f"{m.rel}:{call.lineno}", "code": code, "placeholders": sorted(need),
                                 "supplied": sorted(supplied)} if need else None)
            missing = need - supplied
            if missing:
                rep.add(Finding(r2, f"{r2}/{fname}/{code}/{','.join(sorted(missing))}", m.rel, call.lineno, fname,
                                f"{kind}({code!r}) does not supply placeholder(s) {sorted(missing)} of "
                                f"{message_of(cat[code])!r} → KeyError in str.format"))

    return nsites, per_kind


def _none_default_attrs(P: Program) -> Set[str]:
    """class attributes declared with the default None somewhere in src/vtlengine (`x: T = None` / `x = None` in a class body)."""
    out: Set[str] = set()
    for m in P.modules.values():
        for c in m.classes.values():
            for st in c.node.body:
                if isinstance(st, ast.AnnAssign) and isinstance(st.target, ast.Name) and isinstance(st.value, ast.Constant) and st.value.value is None:
                    out.add(st.target.id)
                elif isinstance(st, ast.Assign) and isinstance(st.value, ast.Constant) and st.value.value is None:
                    out.update(t.id for t in st.targets if isinstance(t, ast.Name))
    return out


def arguments_cannot_raise_on_none(P: Program, rep: Report, rule: str) -> None:
    """An argument of a coded constructor that indexes a table with `cls.<attr>` / `self.<attr>` where <attr> is a class attribute whose declared default is None
    must sit under a test of that attribute (the repo's idiom: `if cls.type_to_check is not None`): otherwise building the error's arguments raises KeyError(None)
    for the operators that leave the attribute unset, and the coded error is never constructed."""
    none_attrs = _none_default_attrs(P)
    names = set(CODED) | {q.rsplit(".", 1)[1] for q in coded_classes(P)}
    n = 0
    for f in P.iter_functions():
        calls = [c for c in ast.walk(f.node) if isinstance(c, ast.Call) and (dotted(c.func) or "").split(".")[-1] in names]
        if not calls:
            continue
        guards = [g for g in ast.walk(f.node) if isinstance(g, (ast.If, ast.IfExp, ast.While, ast.Assert))]
        for c in calls:
            for kw in list(c.keywords) + [ast.keyword(arg=None, value=a) for a in c.args]:
                for s in ast.walk(kw.value):
                    if not (isinstance(s, ast.Subscript) and isinstance(s.slice, ast.Attribute) and isinstance(s.slice.value, ast.Name)
                            and s.slice.value.id in ("cls", "self") and s.slice.attr in none_attrs):
                        continue
                    n += 1
                    attr = src(s.slice)
                    guarded = any(attr in src(g.test) and g.lineno <= c.lineno <= (g.end_lineno or g.lineno) for g in guards)
                    key = f"{f.qualname}/{src(s)[:50]}"
                    rep.instance(rule, key, nontrivial=True, sample={"subscript": src(s), "guarded_by_test_of": attr if guarded else None})
                    if not guarded:
                        rep.add(Finding(rule, f"{rule}/{key}", f.module.rel, s.lineno, f.qualname,
                                        f"argument `{src(s)}` of the coded error indexes a table with {attr}, a class attribute whose declared default is None, and no test of "
                                        f"{attr} encloses the raise: for the operators that leave it None the lookup raises KeyError(None) while the arguments are built, so a "
                                        f"raw KeyError escapes instead of the coded VTL error"))
    rep.floor(f"{rule} table lookups keyed by a may-be-None class attribute in coded-error arguments", n, 1)
