"""C03 - aggregations group and summarise as specified (DESIGN §3 C03).  Structural clauses decided:

R03.1 the SQL transpiler reads every field of Aggregation (op, operand, grouping_op, grouping, having_clause)
R03.2 the grouping list is only read where grouping_op (group by / group except / group all) is honoured
R03.3 in both aggregation paths (standalone and aggr clause) a having clause, once translated, reaches the query's HAVING on
      every path
R03.4 the identifiers that define the groups are derived from the OPERAND's structure and the grouping clause - never from
      the structure of the statement's final result (which differs as soon as the aggregation is not the outermost operation)
R03.5 the aggregating SELECT has no row filter before GROUP BY (a WHERE would make groups without a qualifying datapoint
      disappear; VTL returns one datapoint per group of the operand)
R03.6 every aggregate operator of the grammar has an SQL template that is the SQL aggregate of the same name applied to the
      operand and nothing else
R03.7 a grouping identifier that the SELECT list computes with an expression (time_agg over the time identifier) is grouped by
      that same expression, in both aggregation paths (grouping by its output name would make DuckDB group by the SOURCE column
      of that name: one group per original period, duplicate identifiers in the result)
R03.8 the having condition, the aggregate expressions of an aggr clause and computed grouping items (time_agg) are component-level
      expressions of the operand: each is translated inside a `_clause_scope` of the operand (outside it count() means COUNT(*)
      instead of "datapoints with a non-null measure", and a component name resolves as a dataset)
R03.9 an aggregation used as the operand of another operator: Aggregation.validate and StructureVisitor._build_aggregation_structure are
      evaluated (E6) for sum / count / min / avg x {no grouping, group by, group except} and must declare the same components and
      roles (grouping identifiers, measures or int_var, viral attributes)
R03.10 the type-aware aggregate override _build_agg_expr is evaluated (E6) over operator x component type x {clause, dataset}: where it
      returns an expression, that expression applies the operator's own SQL aggregate, and for operators whose result can be
      fractional (avg, median, stddev*, var*) it does not cast the aggregate to an integer type
Not decided: the values DuckDB computes; null handling inside DuckDB's aggregates.
"""
from __future__ import annotations

import ast
import re
from typing import Dict, List, Optional, Set, Tuple

from sa import astctor, e7, g4, registryx, sqlx, transp
from sa.cfg import CFG
from sa.core import norm_locals, AnalysisError, Finding, FuncInfo, Program, Report, program, src, walk_no_nested

TR = transp.TR
AGG_FUNCS = [f"{TR}.visit_Aggregation", f"{TR}.visit_RegularAggregation_aggr"]


def _norm(t: Optional[ast.AST]) -> str:
    return src(t).replace(" ", "") if t is not None else "always"


def run(rep: Report, tier: str) -> None:  # noqa: C901
    P = program()
    G = g4.load(P)
    NC = e7.node_classes(P)
    rep.explanation = ("Typed field-read inventory of the transpiler for Aggregation; def-use provenance of the group-identifier lists in both aggregation "
                       "paths; CFG must-reach of the translated having condition to the builder's HAVING; who-may-call rule (no WHERE on the aggregating builder); "
                       "aggregate operator templates from the registry vs the grammar's operator list (same-name rule).")
    rep.rule("R03.1", "transpiler reads every field of Aggregation")
    rep.rule("R03.2", "grouping read together with grouping_op")
    rep.rule("R03.3", "a translated having condition reaches .having() on every path")
    rep.rule("R03.4", "group identifiers derive from the operand's structure and the grouping clause, not from the statement's output structure")
    rep.rule("R03.5", "no row filter (WHERE) on the aggregating SELECT")
    rep.rule("R03.6", "every aggregate operator has the same-name SQL aggregate as template")
    transp.field_coverage(P, rep, "R03.1", ["Aggregation"], {}, "aggregation")
    transp.paired_fields(P, rep, "R03.2", [("Aggregation", "grouping", "grouping_op")],
                         "the list means `group by` these, `group except` these, or is absent for `group all`; code using it alone groups by the excepted identifiers")

    # ---- R03.3 having ----
    for q in AGG_FUNCS:
        f = P.func(q)
        g = CFG(f.node)
        # variables assigned from a visit of (something derived from) having_clause
        hc_names = {"having_clause"}
        hv_vars: Set[str] = set()
        for _ in range(3):
            for n in walk_no_nested(f.node):
                if isinstance(n, ast.Assign) and len(n.targets) == 1 and isinstance(n.targets[0], ast.Name):
                    txt = src(n.value)
                    if any(h in txt for h in hc_names) and "visit" not in txt and "is not None" not in txt:
                        hc_names.add(n.targets[0].id)
                    if "visit" in txt and any(h in txt for h in hc_names):
                        hv_vars.add(n.targets[0].id)
        rep.instance("R03.3", f"{f.name}/having-translated", sample={"vars": sorted(hv_vars)})
        if not hv_vars:
            rep.add(transp.fnd("R03.3", f"{f.name}/having-translated", f, f.node.lineno,
                               f"{f.name} never translates the aggregation's having_clause: `... group by Id_1 having count() > 1` returns all groups"))
            continue
        for v in sorted(hv_vars):
            A = [x for x in g.nodes if x.kind == "stmt" and isinstance(x.stmt, ast.Assign) and any(isinstance(t, ast.Name) and t.id == v for t in x.stmt.targets)
                 and "visit" in src(x.stmt.value)]
            H = {x for x in g.nodes if x.kind == "stmt" and x.stmt is not None and any(
                isinstance(c, ast.Call) and isinstance(c.func, ast.Attribute) and c.func.attr == "having" and c.args and src(c.args[0]) == v for c in ast.walk(x.stmt))}
            # `if <v>:` guarding the attachment: its false branch is infeasible once the condition has been translated
            H |= {x for x in g.nodes if x.kind == "test" and isinstance(x.stmt, ast.If) and src(x.stmt.test) in (v, f"{v} is not None")
                  and any(isinstance(c, ast.Call) and isinstance(c.func, ast.Attribute) and c.func.attr == "having" for st in x.stmt.body for c in ast.walk(st))}
            rep.instance("R03.3", f"{f.name}/{v}/attached")
            if not H:
                rep.add(transp.fnd("R03.3", f"{f.name}/{v}/attached", f, A[0].lineno if A else f.node.lineno,
                                   f"the translated having condition `{v}` is never passed to the query builder's .having(): the clause has no effect"))
                continue
            for a in A:
                p = g.path_avoiding(a, lambda x: x is g.exit, lambda x: x in H, follow_exc=False)
                if p is not None:
                    rep.add(transp.fnd("R03.3", f"{f.name}/{v}/attached", f, a.lineno,
                                       f"there is a path from the translation of the having condition (`{v}`) to the end of {f.name} that does not attach it with .having()"))
                    break

    # ---- R03.4 provenance of group identifiers ----
    f = P.func(f"{TR}.visit_RegularAggregation_aggr")
    n_assign = 0
    # the group-identifier variable = the local the GROUP BY list is built from (builder.group_by(*[... for x in <var>]))
    gvars: Set[str] = set()
    for c in walk_no_nested(f.node):
        if isinstance(c, ast.Call) and isinstance(c.func, ast.Attribute) and c.func.attr == "group_by":
            for a in c.args:
                for x in ast.walk(a):
                    if isinstance(x, ast.comprehension):
                        gvars |= {y.id for y in ast.walk(x.iter) if isinstance(y, ast.Name)}
                    elif isinstance(x, ast.Starred) and isinstance(x.value, ast.Name):
                        gvars.add(x.value.id)
    if not gvars:
        raise AnalysisError("visit_RegularAggregation_aggr: no builder.group_by(...) over a local list found: R03.4 has lost its anchor")
    # locals that hold (something derived from) the statement's output structure
    out_tainted: Set[str] = set()
    for _ in range(4):
        for d in walk_no_nested(f.node):
            if isinstance(d, (ast.Assign, ast.AnnAssign)) and d.value is not None:
                tg = d.targets if isinstance(d, ast.Assign) else [d.target]
                if "_get_output_dataset" in src(d.value) or any(isinstance(x, ast.Name) and x.id in out_tainted for x in ast.walk(d.value)):
                    if not any(isinstance(t, ast.Name) and t.id in gvars for t in tg):
                        out_tainted |= {t.id for t in tg if isinstance(t, ast.Name)}
    for n in walk_no_nested(f.node):
        if isinstance(n, ast.Assign) and any(isinstance(t, ast.Name) and t.id in gvars for t in n.targets):
            if isinstance(n.value, ast.List) and not n.value.elts:
                continue
            n_assign += 1
            # enclosing branch test
            p = getattr(n, "_parent", None)
            test = None
            while p is not None and not isinstance(p, (ast.FunctionDef, ast.AsyncFunctionDef)):
                if isinstance(p, ast.If):
                    test = p.test
                    break
                p = getattr(p, "_parent", None)
            key = "aggr-clause/group_ids/" + (norm_locals(src(test), f.node).replace(" ", "") if test is not None else "always")
            names = {x.id for x in ast.walk(n.value) if isinstance(x, ast.Name)}
            rep.instance("R03.4", key, sample={"value": src(n.value)})
            bad = bool(names & out_tainted) or "_get_output_dataset" in src(n.value)
            if bad:
                rep.add(transp.fnd("R03.4", key, f, n.lineno,
                                   f"under `{src(test) if test is not None else 'always'}` the aggr clause takes its group identifiers from the statement's OUTPUT structure "
                                   f"(`{src(n.value)[:80]}`): when the clause is not the last operation of the statement (another clause or operator follows and changes the "
                                   f"identifiers) it groups by the wrong columns or names columns the operand does not have"))
    rep.floor("R03.4 group_ids definitions", n_assign, 3)
    for q in (f"{transp.SV}._resolve_group_cols", f"{TR}.visit_Aggregation", f"{TR}._build_agg_group_cols"):
        h = P.func(q)
        rep.instance("R03.4", f"{h.name}/no-output-structure")
        for c in walk_no_nested(h.node):
            if isinstance(c, ast.Call) and isinstance(c.func, ast.Attribute) and c.func.attr == "_get_output_dataset":
                rep.add(transp.fnd("R03.4", f"{h.name}/no-output-structure", h, c.lineno,
                                   f"{h.name} consults the statement's output structure: the groups of a nested aggregation would follow the outer result's identifiers"))
    va = P.func(f"{TR}.visit_Aggregation")
    def _defs(name: str) -> List[ast.AST]:
        return [n.value for n in walk_no_nested(va.node) if isinstance(n, (ast.Assign, ast.AnnAssign)) and n.value is not None
                and any(isinstance(t, ast.Name) and t.id == name for t in (n.targets if isinstance(n, ast.Assign) else [n.target]))]

    def _resolve1(e: ast.AST) -> ast.AST:
        seen = 0
        while isinstance(e, ast.Name) and seen < 4:
            d = _defs(e.id)
            if len(d) != 1:
                break
            e, seen = d[0], seen + 1
        return e
    rg = [c for c in walk_no_nested(va.node) if isinstance(c, ast.Call) and isinstance(c.func, ast.Attribute) and c.func.attr == "_resolve_group_cols" and len(c.args) >= 2]
    universe_ok = False
    if len(rg) == 1:
        u = _resolve1(rg[0].args[1])
        if isinstance(u, ast.Call) and isinstance(u.func, ast.Attribute) and u.func.attr == "get_identifiers_names" and not u.args:
            base = _resolve1(u.func.value)
            universe_ok = isinstance(base, ast.Call) and isinstance(base.func, ast.Attribute) and base.func.attr == "_get_dataset_structure" \
                and len(base.args) == 1 and src(base.args[0]) == "node.operand"
    rep.instance("R03.4", "visit_Aggregation/all_ids")
    if not universe_ok:
        rep.add(transp.fnd("R03.4", "visit_Aggregation/all_ids", va, va.node.lineno, "the identifier universe of a standalone aggregation is not the operand's identifiers (ds.get_identifiers_names())"))

    # ---- R03.5 no WHERE ----
    for q in AGG_FUNCS:
        f = P.func(q)
        rep.instance("R03.5", f"{f.name}/no-where")
        for c in walk_no_nested(f.node):
            if isinstance(c, ast.Call) and isinstance(c.func, ast.Attribute) and c.func.attr in ("where", "where_all"):
                rep.add(transp.fnd("R03.5", f"{f.name}/no-where", f, c.lineno,
                                   f"`{src(c)[:70]}` filters datapoints before GROUP BY in the aggregating query: a group whose datapoints are all filtered out "
                                   f"disappears from the result instead of appearing with a null / zero aggregate"))
        for sk in sqlx.iter_skeletons(P):
            if sk.func is f and any(t.up == "WHERE" for t in sqlx.tokenize(sk.text)) and any(t.up == "GROUP" for t in sqlx.tokenize(sk.text)):
                rep.add(transp.fnd("R03.5", f"{f.name}/no-where", f, sk.line, "an aggregating SQL text of this function contains WHERE before GROUP BY"))

    # ---- R03.7 computed grouping identifier: SELECT expression == GROUP BY expression ----
    rep.rule("R03.7", "a computed grouping identifier is grouped by the expression the SELECT list computes it with")
    gc = P.func(f"{TR}._build_agg_group_cols")
    found = False
    for n in walk_no_nested(gc.node):
        if not isinstance(n, ast.If):
            continue
        sel_var = None
        for st in n.body:
            for c in ast.walk(st):
                if isinstance(c, ast.Call) and isinstance(c.func, ast.Attribute) and c.func.attr == "append" and c.args and isinstance(c.args[0], ast.JoinedStr):
                    js = c.args[0]
                    if len(js.values) >= 2 and isinstance(js.values[0], ast.FormattedValue) and isinstance(js.values[1], ast.Constant) and str(js.values[1].value).startswith(" AS "):
                        sel_var = src(js.values[0].value)
        if sel_var is None:
            continue
        found = True
        rep.instance("R03.7", "standalone/select-expr==group-expr", sample=sel_var)
        grouped = any(isinstance(c, ast.Call) and isinstance(c.func, ast.Attribute) and c.func.attr == "append" and c.args and src(c.args[0]) == sel_var
                      for st in n.body for c in ast.walk(st))
        rets = [r for r in walk_no_nested(gc.node) if isinstance(r, ast.Return) and isinstance(r.value, ast.Tuple) and len(r.value.elts) == 2]
        if not grouped or not rets:
            rep.add(transp.fnd("R03.7", "standalone/select-expr==group-expr", gc, n.lineno,
                               f"the SELECT list computes the grouping identifier as `{{{sel_var}}} AS <name>` but the GROUP BY list of the same branch does not receive `{sel_var}`: "
                               f"grouping by the output name groups by the source column (DuckDB resolves the name to the input column before the alias), so "
                               f"sum(DS group all time_agg(\"A\")) returns one datapoint per original period with duplicate identifiers"))
    if not found:
        raise AnalysisError("_build_agg_group_cols: computed select item (`<expr> AS <name>`) not found")
    ac = P.func(f"{TR}.visit_RegularAggregation_aggr")
    inner = {n.name: n for n in ast.walk(ac.node) if isinstance(n, ast.FunctionDef) and n is not ac.node}
    rep.instance("R03.7", "aggr-clause/select-expr==group-expr")
    if "_id_select_sql" not in inner or "_id_group_sql" not in inner:
        raise AnalysisError("visit_RegularAggregation_aggr: _id_select_sql / _id_group_sql helpers not found")
    sel_e = None
    for r in ast.walk(inner["_id_select_sql"]):
        if isinstance(r, ast.Return) and isinstance(r.value, ast.JoinedStr) and len(r.value.values) >= 2 and isinstance(r.value.values[0], ast.FormattedValue) \
                and isinstance(r.value.values[1], ast.Constant) and str(r.value.values[1].value).startswith(" AS "):
            sel_e = src(r.value.values[0].value)
    grp_rets = {src(r.value) for r in ast.walk(inner["_id_group_sql"]) if isinstance(r, ast.Return) and r.value is not None}
    if sel_e is None or sel_e not in grp_rets:
        rep.add(transp.fnd("R03.7", "aggr-clause/select-expr==group-expr", ac, inner["_id_group_sql"].lineno,
                           f"the aggr clause selects the computed grouping identifier as `{{{sel_e}}} AS <name>` but groups by {sorted(grp_rets)}"))
    used_sel = any(isinstance(c, ast.Call) and src(c.func) == "_id_select_sql" for c in ast.walk(ac.node))
    used_grp = any(isinstance(c, ast.Call) and src(c.func) == "_id_group_sql" for c in ast.walk(ac.node))
    if not (used_sel and used_grp):
        rep.add(transp.fnd("R03.7", "aggr-clause/helpers-used", ac, ac.node.lineno, "the select / group helpers for the computed identifier are not both used to build the query"))

    # ---- R03.6 templates ----
    sites = astctor.sites(P, G, set(NC))
    ops: Set[str] = set()
    for s in sites:
        if s.cls == "Aggregation" and s.ops:
            ops |= s.ops
    if len(ops) < 10:
        raise AnalysisError(f"aggregate operators of the grammar not recovered ({sorted(ops)})")
    reg = {e.token: e for e in registryx.extract(P) if e.kind == "arity:1"}
    for op in sorted(ops):
        rep.instance("R03.6", f"template/{op}")
        e = reg.get(op)
        if e is None:
            rep.add(transp.fnd("R03.6", f"template/{op}", P.func(f"{TR}.visit_Aggregation"), 0, f"aggregate operator {op} has no SQL template"))
        elif e.templates.get(1) != f"{op.upper()}({{0}})":
            rep.add(Finding("R03.6", f"R03.6/template/{op}", "src/vtlengine/duckdb_transpiler/Transpiler/operators.py", e.line, f"registry[{op}]",
                            f"the SQL template of aggregate operator {op} is `{e.templates.get(1)}`, not `{op.upper()}({{0}})`"))
    # ---- R03.8 having / grouping / aggregate expressions of a clause are translated in the clause scope (shared rule RT.5) ----
    rep.rule("R03.8", "the having condition, the aggregate expressions of an aggr clause and computed grouping items are translated inside the clause scope of the operand")
    n_scope = transp.scope_coverage(P, rep, "R03.8", only={"visit_Aggregation", "visit_RegularAggregation_aggr", "_build_agg_group_cols"})
    rep.floor("R03.8 component-level translations", n_scope, 5)
    # ---- R03.9 structure of an aggregation used as an operand: validator == structure builder (finite model) ----
    rep.rule("R03.9", "aggregation: components declared by semantic analysis == the transpiler's structure of the intermediate result (grouping identifiers, measures / int_var, viral attributes)")
    aggregation_structures(P, rep, "R03.9")
    # ---- R03.10 the type-aware aggregate override: decision table ----
    rep.rule("R03.10", "type-aware aggregate override (_build_agg_expr): applies the operator's own aggregate; no integer cast around an aggregate whose result can be fractional")
    from sa.e6 import ClassVal, Interp, Raised
    fa = P.func(f"{TR}._build_agg_expr")
    FRACTIONAL = {"avg", "median", "stddev_pop", "stddev_samp", "var_pop", "var_samp"}
    n10 = 0
    for op in ("sum", "avg", "count", "median", "min", "max", "stddev_pop", "stddev_samp", "var_pop", "var_samp"):
        for tname in ("Integer", "Number", "String", "Boolean", "Date", "Duration", "TimePeriod", "TimeInterval", None):
            for dl in (False, True):
                dt_ = ClassVal(f"vtlengine.DataTypes.{tname}") if tname else None
                try:
                    got = Interp(P).call(fa, {"op": op, "col_ref": '"M"', "data_type": dt_, "dataset_level": dl})
                except Unmodelled as e:
                    raise AnalysisError(f"R03.10: _build_agg_expr outside the evaluator's language: {e}")
                except Raised as e:
                    got = f"<raises {getattr(e.exc, 'kind', e.exc)}>"
                n10 += 1
                if got is None:
                    continue
                rep.instance("R03.10", f"override/{op}/{tname}/{'dataset' if dl else 'clause'}", sample={"sql": got})
                txt = str(got)
                own = re.search(r"\b(ARG_)?" + re.escape(op.upper()) + r"\s*\(", txt) is not None
                narrowing = re.search(r"CAST\s*\(.*\b" + re.escape(op.upper()) + r"\s*\(.*AS\s+(BIGINT|INTEGER|INT|SMALLINT|HUGEINT)\b", txt, re.S) is not None
                if not own:
                    rep.add(transp.fnd("R03.10", f"override/{op}/{tname}/aggregate", fa, fa.node.lineno,
                                       f"{op} over a {tname} component is computed as `{txt}`: not the SQL aggregate {op.upper()} of the operand"))
                if narrowing and op in FRACTIONAL:
                    rep.add(transp.fnd("R03.10", f"override/{op}/{tname}/integer-cast", fa, fa.node.lineno,
                                       f"{op} over a {tname} component is computed as `{txt}`: the result of {op} can be fractional (median of 1 and 2 is 1.5; semantic analysis declares it a Number) "
                                       f"and the integer cast rounds it"))
    rep.floor("R03.10 cells", n10, 150)
    # ---- R03.11 the builder: GROUP BY columns and HAVING conditions reach the SQL (real class, evaluated) ----
    rep.rule("R03.11", "SQLBuilder: group_by() columns and having() conditions reach the SQL; HAVING does not depend on a non-empty GROUP BY")
    transp.builder_contract(P, rep, "R03.11", parts="hg")
    # ---- R03.12 what an aggregation reads is a dependency of its statement (dependency analysis, shared with C12) ----
    rep.rule("R03.12", "dependency analysis descends into the operand of an aggregation / aggr clause on every path; script-level values read there become inputs of every reader")
    from sa.checks.c12 import traversal_on_every_path, unknown_resolution
    traversal_on_every_path(P, rep, "R03.12", {"Aggregation", "RegularAggregation", "Analytic"})
    unknown_resolution(P, rep, "R03.12")
    # ---- R03.13 group by / group except compare Time_Period identifiers as text: one stored text per period ----
    rep.rule("R03.13", "every accepted spelling of a Time_Period is stored as the one canonical text (group by / group except compare Time_Period identifiers as text)")
    from sa import sqlx as _sqlx_g
    from sa.checks.c19 import period_limits as _pl_g
    from sa.checks.c21 import spelling_grid as _sg_g
    _sg_g(rep, "R03.13", {k.lower(): v for k, v in _sqlx_g.load_macros(P).items()}, _pl_g(P))
    # ---- R03.14: a time_agg grouping key is the calendar period that contains the date (shared with C08 R08.8) ----
    from sa.checks.c08 import _time_agg_date_table as _tagg
    _tagg(P, rep, "R03.14")
    # ---- R03.15: aggregation / having leave the operand's stored structure alone (shared with C12) ----
    rep.rule("R03.15", "visit_Aggregation / visit_ParamOp (having) / visit_RegularAggregation do not mutate the shared parts of the operand structure they got from self.visit")
    from sa.checks.c12 import interpreter_leaves_operands as _ilo
    _ilo(P, rep, "R03.15", {"visit_Aggregation", "visit_ParamOp", "visit_RegularAggregation"})
    rep.assumptions = ["DuckDB's aggregates of the same name implement the VTL aggregate operators (null measure values ignored)",
                       "SQLBuilder.having() conjoins conditions (read from sql_builder.py: _having_conditions.append)"]


def aggregation_structures(P: Program, rep: Report, rule: str, viral_only: bool = False) -> None:
    """Aggregation.validate and StructureVisitor._build_aggregation_structure evaluated on DS_1(ids A,B,C; measures M,N; attribute T; viral V) for
    sum / count / min / avg x five groupings.  viral_only (C28): only the viral attributes of the two structures are compared."""
    from sa import structmodel as sm
    from sa.e6 import Unmodelled
    M = sm.Model(P)
    n9 = 0
    fb = P.func(sm.SV + "._build_aggregation_structure")
    for cls, op in (("Sum", "sum"), ("Count", "count"), ("Min", "min"), ("Avg", "avg")):
        for gop, g in ((None, None), ("group by", ["A"]), ("group by", ["A", "B"]), ("group except", ["A"]), ("group except", ["A", "B", "C"])):
            def D() -> sm.MDS:
                return M.ds("DS_1", ["A", "B", "C"], ["M", "N"], ["V"], ["T"])
            try:
                a, b = sm.agg_interpreter(M, cls, D(), gop, g), sm.agg_visitor(M, op, D(), gop, g)
            except Unmodelled as e:
                raise AnalysisError(f"{rule} {op} {gop} {g}: construct outside the evaluator's language: {e}")
            key = f"structure/{op}/{gop or 'no-grouping'}/{'+'.join(g or [])}"
            if a[0] != "ok":
                rep.instance(rule, key, nontrivial=False, sample={"validator": a})
                continue
            n9 += 1
            va, vb = sm.comp_summary(a[1]), (sm.comp_summary(b[1]) if b[0] == "ok" and b[1] is not None else None)
            rep.instance(rule, key, sample={"declared": [n for n, _ in va], "structure_visitor": [n for n, _ in vb] if vb else b})
            if viral_only:
                va = tuple(x for x in va if 'VIRAL' in str(x[1]).upper())
                vb = tuple(x for x in vb if 'VIRAL' in str(x[1]).upper()) if vb is not None else None
            if vb is None or dict(va) != dict(vb):
                rep.add(transp.fnd(rule, key, fb, fb.node.lineno,
                                   f"{op}(DS_1 {gop or ''} {g or ''}) on DS_1(ids A,B,C; measures M,N; attribute T; viral V): semantic analysis declares {[(n, str(r)) for n, r in va]} but the "
                                   f"transpiler's structure of the intermediate result is {[(n, str(r)) for n, r in vb] if vb else b}: an operator applied to the aggregation in the same statement "
                                   f"(abs(sum(DS_1 group by A))) drops or mistreats the differing components"))
    rep.floor(f"{rule} aggregation structures compared", n9, 16)
