"""C27 - SDMX structures map to VTL structures as documented (DESIGN §3 C27).

R27.1 VTL_DTYPES_MAPPING == docs "SDMX data type -> VTL type" table; VTL_ROLE_MAPPING and the nullability rule == docs roles
      table; every target type is a key of SCALAR_TYPES and every role string is accepted by the VTL JSON loader
R27.2 exhaustiveness over the installed pysdmx DataType / Role enums (read from the package *source*): every member is a
      key or the lookup in to_vtl_json is guarded so that an unmapped member raises InputValidationException
R27.3 to_vtl_json: each output component is built from one SDMX component (per-component dataflow: name=c.id,
      role/type from the mappings indexed by that same component); run/run_sdmx/semantic_analysis reach to_vtl_json;
      no memoisation of the conversion
"""
from __future__ import annotations

import ast
import importlib.util
import re
from pathlib import Path
from typing import Any, Dict, List, Optional, Set, Tuple

from sa import rst
from sa.callgraph import callgraph
from sa.cfg import CFG, describe_path
from sa.core import AnalysisError, Finding, Program, Report, program, src, walk_no_nested

UTILS = "vtlengine.Utils"
HANDLER = "vtlengine.files.sdmx_handler"


def pysdmx_enum(modname: str, clsname: str) -> Dict[str, str]:
    """member name -> value of an Enum class, read from the installed package's source with ast."""
    spec = importlib.util.find_spec(modname)
    if spec is None or not spec.origin:
        raise AnalysisError(f"installed pysdmx module {modname} not found")
    tree = ast.parse(Path(spec.origin).read_text())
    for n in ast.walk(tree):
        if isinstance(n, ast.ClassDef) and n.name == clsname:
            out = {}
            for st in n.body:
                if isinstance(st, ast.Assign) and len(st.targets) == 1 and isinstance(st.targets[0], ast.Name) \
                        and isinstance(st.value, ast.Constant) and isinstance(st.value.value, str):
                    out[st.targets[0].id] = st.value.value
            return out
    raise AnalysisError(f"{clsname} not found in {spec.origin}")


def run(rep: Report, tier: str) -> None:
    P = program()
    rep.explanation = ("VTL_DTYPES_MAPPING / VTL_ROLE_MAPPING are read from the AST and compared with the docs list-tables and "
                       "with the DataType/Role enums read from the installed pysdmx *source*; to_vtl_json is analysed for "
                       "guarded lookups (CFG) and for per-component provenance of name/role/type/nullable.")
    rep.rule("R27.1", "mapping tables == docs tables; targets are valid VTL types/roles")
    rep.rule("R27.2", "every pysdmx DataType/Role member is mapped or rejected with InputValidationException")
    rep.rule("R27.3", "one output component per SDMX component, all four fields derived from that component; single un-memoised mapping path")
    um = P.module(UTILS)
    node = um.assigns.get("VTL_DTYPES_MAPPING")
    rnode = um.assigns.get("VTL_ROLE_MAPPING")
    if not isinstance(node, ast.Dict) or not isinstance(rnode, ast.Dict):
        raise AnalysisError("anchor vanished: VTL_DTYPES_MAPPING / VTL_ROLE_MAPPING dict literals")
    dmap: Dict[str, str] = {}
    for k, v in zip(node.keys, node.values):
        if not (isinstance(k, ast.Constant) and isinstance(v, ast.Constant)):
            raise AnalysisError("VTL_DTYPES_MAPPING entry is not 'str': 'str'")
        if k.value in dmap:
            rep.add(Finding("R27.1", f"R27.1/duplicate-key/{k.value}", um.rel, k.lineno, "VTL_DTYPES_MAPPING", f"duplicate key {k.value}"))
        dmap[k.value] = v.value
    rmap: Dict[str, str] = {}
    for k, v in zip(rnode.keys, rnode.values):
        if not (isinstance(k, ast.Attribute) and isinstance(v, ast.Constant)):
            raise AnalysisError("VTL_ROLE_MAPPING entry is not Role.X: 'str'")
        rmap[k.attr] = v.value

    # ---- docs -----------------------------------------------------------------------------------------
    tabs = rst.tables(P.repo / "docs" / "data_structures.rst")
    ttypes = [t for t in tabs if t.rows and t.rows[0][:2] == ["SDMX data type", "VTL type"]]
    troles = [t for t in tabs if t.rows and t.rows[0][:1] == ["SDMX role"]]
    if len(ttypes) != 1 or len(troles) != 1:
        raise AnalysisError("docs/data_structures.rst: SDMX type/role tables not found")
    dtype_enum = pysdmx_enum("pysdmx.model.__base", "DataType")
    role_enum = pysdmx_enum("pysdmx.model.dataflow", "Role") if importlib.util.find_spec("pysdmx.model.dataflow") else {}
    if not role_enum:
        role_enum = pysdmx_enum("pysdmx.model.__base", "Role")
    enum_values = set(dtype_enum.values())
    doc_types: Dict[str, str] = {}
    for row in ttypes[0].rows[1:]:
        cell, target = row[0], row[1]
        names = re.findall(r"[A-Z][A-Za-z]+", re.sub(r"\(.*?\)", "", cell))
        names = [n for n in names if n not in ("and", "all", "reporting", "period", "variants")]
        if "all reporting period variants" in cell:
            for suffix in re.findall(r"\((.*?)\)", cell)[0].split(","):
                names.append("Reporting" + suffix.strip())
        for n in names:
            doc_types[n] = target
    for k in sorted(set(dmap) | set(doc_types)):
        rep.instance("R27.1", f"type/{k}", nontrivial=True, sample={"sdmx": k, "code": dmap.get(k), "docs": doc_types.get(k)}
                     if k in ("Double", "TimeRange", "ReportingWeek") else None)
        if dmap.get(k) != doc_types.get(k):
            rep.add(Finding("R27.1", f"R27.1/type/{k}", um.rel, node.lineno, "VTL_DTYPES_MAPPING",
                            f"SDMX data type {k}: code maps to {dmap.get(k)!r}, docs/data_structures.rst says {doc_types.get(k)!r}"))
    # targets valid
    st = P.module("vtlengine.DataTypes").assigns.get("SCALAR_TYPES")
    scalar_keys = {k.value for k in st.keys} if isinstance(st, ast.Dict) else set()
    for k, v in dmap.items():
        rep.instance("R27.1", f"target/{k}", nontrivial=False)
        if v not in scalar_keys:
            rep.add(Finding("R27.1", f"R27.1/target/{k}", um.rel, node.lineno, "VTL_DTYPES_MAPPING",
                            f"{k} maps to {v!r}, which is not a VTL scalar type name ({sorted(scalar_keys)})"))
    doc_roles = {r[0].replace("Role.", ""): (r[1], r[2]) for r in troles[0].rows[1:]}
    for k in sorted(set(rmap) | set(doc_roles)):
        rep.instance("R27.1", f"role/{k}", nontrivial=True, sample={"role": k, "code": rmap.get(k), "docs": doc_roles.get(k)})
        if rmap.get(k) != (doc_roles.get(k) or (None,))[0]:
            rep.add(Finding("R27.1", f"R27.1/role/{k}", um.rel, rnode.lineno, "VTL_ROLE_MAPPING",
                            f"Role.{k}: code maps to {rmap.get(k)!r}, docs say {doc_roles.get(k)}"))

    # ---- to_vtl_json structure ----------------------------------------------------------------------------
    f = P.func(f"{HANDLER}.to_vtl_json")
    hm = P.module(HANDLER)
    FIELD_KEYS = {"NAME": "name", "ROLE": "role", "TYPE": "type", "NULLABLE": "nullable"}
    comp_dict = None

    def const_local(name: str) -> Any:
        cdefs = [d.value for d in walk_no_nested(f.node) if isinstance(d, (ast.Assign, ast.AnnAssign)) and d.value is not None
                 and any(isinstance(t, ast.Name) and t.id == name for t in (d.targets if isinstance(d, ast.Assign) else [d.target]))]
        return cdefs[0].value if len(cdefs) == 1 and isinstance(cdefs[0], ast.Constant) else None

    def key_value(k: ast.AST) -> Any:
        return const_local(k.id) if isinstance(k, ast.Name) else (k.value if isinstance(k, ast.Constant) else None)
    const_locals = {x.id for x in ast.walk(f.node) if isinstance(x, ast.Name) and isinstance(x.ctx, ast.Store) and const_local(x.id) is not None}
    for n in walk_no_nested(f.node):
        if isinstance(n, ast.Dict) and len(n.keys) >= 4:
            ks = set()
            for k in n.keys:
                if key_value(k) in FIELD_KEYS.values():
                    ks.add(key_value(k))
            if ks == set(FIELD_KEYS.values()):
                comp_dict = n
    if comp_dict is None:
        raise AnalysisError("to_vtl_json: component dict {name, role, type, nullable} not found (anchor changed)")
    comp_loop = None
    p = getattr(comp_dict, "_parent", None)
    while p is not None and p is not f.node:
        if isinstance(p, ast.For):
            comp_loop = p
            break
        if isinstance(p, (ast.ListComp, ast.GeneratorExp)):
            raise AnalysisError("to_vtl_json: component dict built in a comprehension (not modelled)")
        p = getattr(p, "_parent", None)
    if comp_loop is None:
        raise AnalysisError("to_vtl_json: per-component loop not found (anchor changed)")
    # R27.3 (a) the loop iterates ONE sequence of components
    it_src = comp_loop.iter
    rep.instance("R27.3", "loop-source", nontrivial=True, sample={"target": src(comp_loop.target), "iter": src(it_src)})
    if not isinstance(comp_loop.target, ast.Name):
        rep.add(Finding("R27.3", "R27.3/loop-source", f.module.rel, comp_loop.lineno, f.qualname,
                        f"components are iterated as `for {src(comp_loop.target)} in {src(it_src)[:60]}`: per-component fields are "
                        f"paired positionally from parallel sequences and may come from different components"))
        var = next((x.id for x in ast.walk(comp_loop.target) if isinstance(x, ast.Name)), "c")
    else:
        var = comp_loop.target.id
    # R27.3 (b) every field value derives (through assignments inside the loop body) from `var`
    assigned_in_loop: Dict[str, ast.AST] = {}
    for st_ in ast.walk(comp_loop):
        if isinstance(st_, ast.Assign) and len(st_.targets) == 1 and isinstance(st_.targets[0], ast.Name):
            assigned_in_loop[st_.targets[0].id] = st_.value
    def roots(e: ast.AST, depth: int = 0) -> Set[str]:
        out: Set[str] = set()
        for nm in ast.walk(e):
            if isinstance(nm, ast.Name) and isinstance(nm.ctx, ast.Load):
                if nm.id in assigned_in_loop and depth < 5:
                    out |= roots(assigned_in_loop[nm.id], depth + 1)
                else:
                    out.add(nm.id)
        return out
    mapping_use: Dict[str, List[ast.AST]] = {"VTL_DTYPES_MAPPING": [], "VTL_ROLE_MAPPING": []}
    field_expr: Dict[str, ast.AST] = {}
    for k, v in zip(comp_dict.keys, comp_dict.values):
        fk = key_value(k)
        field_expr[fk] = v
        r = roots(v)
        local_roots = {x for x in r if x not in hm.assigns and x not in hm.imports and x not in hm.functions and x not in const_locals}
        rep.instance("R27.3", f"field-source/{fk}", nontrivial=True, sample={"field": fk, "expr": src(v), "roots": sorted(local_roots)})
        if local_roots != {var}:
            rep.add(Finding("R27.3", f"R27.3/field-source/{fk}", f.module.rel, comp_dict.lineno, f.qualname,
                            f"output field {fk!r} = {src(v)} depends on {sorted(local_roots)} instead of only the component "
                            f"`{var}` being converted"))
    def expand(e: ast.AST, depth: int = 0) -> ast.AST:
        if isinstance(e, ast.Name) and e.id in assigned_in_loop and depth < 5:
            return expand(assigned_in_loop[e.id], depth + 1)
        return e
    # name must be var.id; type/role through the mapping tables (directly or via a same-module helper) indexed by var.dtype/var.role
    name_e = expand(field_expr["name"])
    rep.instance("R27.3", "field/name", nontrivial=True)
    if src(name_e) != f"{var}.id":
        rep.add(Finding("R27.3", "R27.3/field/name", f.module.rel, comp_dict.lineno, f.qualname,
                        f"component name is {src(name_e)}, not {var}.id"))
    # ---- guarded lookups: every subscript of the tables reachable from to_vtl_json within this module ----------------
    cg = callgraph(P)
    funcs = [P.functions[q] for q in sorted(cg.reachable_from([f.qualname])) if q.startswith(HANDLER + ".")]
    lookup_sites: Dict[str, List[Tuple[object, ast.Subscript]]] = {"VTL_DTYPES_MAPPING": [], "VTL_ROLE_MAPPING": []}
    for fn_ in funcs:
        for s_ in walk_no_nested(fn_.node):
            if isinstance(s_, ast.Subscript) and isinstance(s_.value, ast.Name) and s_.value.id in lookup_sites and isinstance(s_.ctx, ast.Load):
                lookup_sites[s_.value.id].append((fn_, s_))
            if isinstance(s_, ast.Call) and isinstance(s_.func, ast.Attribute) and s_.func.attr == "get" and isinstance(s_.func.value, ast.Name) \
                    and s_.func.value.id in lookup_sites:
                raise AnalysisError(f"{fn_.qualname}: {src(s_)[:50]} - .get() lookups of the mapping tables are not modelled")
    for table, attr in (("VTL_DTYPES_MAPPING", "dtype"), ("VTL_ROLE_MAPPING", "role")):
        if not lookup_sites[table]:
            raise AnalysisError(f"no lookup of {table} reachable from to_vtl_json (anchor changed)")
        for fn_, s_ in lookup_sites[table]:
            rep.instance("R27.3", f"lookup/{table}/{fn_.name}", nontrivial=True, sample={"lookup": src(s_), "in": fn_.qualname})
            if not (isinstance(s_.slice, ast.Attribute) and s_.slice.attr == attr and isinstance(s_.slice.value, ast.Name)):
                rep.add(Finding("R27.3", f"R27.3/lookup/{table}", fn_.module.rel, s_.lineno, fn_.qualname,
                                f"{src(s_)}: the mapping must be indexed by the .{attr} of the component being converted"))
    # nullability rule: role != DIMENSION
    nul_e = expand(field_expr["nullable"])
    rep.instance("R27.1", "nullability-rule", nontrivial=True, sample={"expr": src(nul_e)})
    ok_null = isinstance(nul_e, ast.Compare) and len(nul_e.ops) == 1 and isinstance(nul_e.ops[0], ast.NotEq) and \
        src(nul_e.left) == f"{var}.role" and src(nul_e.comparators[0]).endswith("DIMENSION")
    if not ok_null:
        rep.add(Finding("R27.1", "R27.1/nullability-rule", f.module.rel, comp_dict.lineno, f.qualname,
                        f"nullability is not `{var}.role != Role.DIMENSION` (docs: dimensions are the only non-nullable components): "
                        f"{src(nul_e)}"))
    elif set(doc_roles) and {k for k, (_, n) in doc_roles.items() if n == "false"} != {"DIMENSION"}:
        rep.add(Finding("R27.1", "R27.1/nullability-docs", "docs/data_structures.rst", 1, "roles table",
                        "docs roles table does not make DIMENSION the only non-nullable role"))

    # ---- R27.2 exhaustiveness / guarded lookups --------------------------------------------------------------
    def guarded_site(fn_, s_: ast.Subscript, table: str):
        g = CFG(fn_.node)
        key_txt = src(s_.slice)
        target_nodes = [n for n in g.nodes if n.stmt is not None and any(x is s_ for e in g.own_exprs(n) for x in ast.walk(e))]
        def is_guard(n) -> bool:
            if n.kind != "test":
                return False
            t = n.stmt.test
            return (isinstance(t, ast.Compare) and len(t.ops) == 1 and isinstance(t.ops[0], ast.NotIn)
                    and src(t.left) == key_txt and src(t.comparators[0]) == table
                    and any(isinstance(x, ast.Raise) and x.exc is not None and "InputValidationException" in src(x.exc) for x in n.stmt.body)
                    and not any(isinstance(x, (ast.Return, ast.Continue, ast.Break)) for x in n.stmt.body))
        for tn in target_nodes:
            pth = g.path_avoiding(g.entry, lambda x: x is tn, is_guard, follow_exc=False)
            if pth is not None:
                return False, pth
        return bool(target_nodes), None
    for table, attr, enum, kind in (("VTL_DTYPES_MAPPING", "dtype", dtype_enum, "DataType"), ("VTL_ROLE_MAPPING", "role", role_enum, "Role")):
        keys = set(dmap) if table == "VTL_DTYPES_MAPPING" else set(rmap)
        members = {v if kind == "DataType" else k for k, v in enum.items()}
        unmapped = sorted(members - keys)
        all_guarded = True
        bad_site = None
        for fn_, s_ in lookup_sites[table]:
            ok_, pth = guarded_site(fn_, s_, table)
            if not ok_:
                all_guarded = False
                bad_site = (fn_, s_, pth)
        for mem in sorted(members):
            rep.instance("R27.2", f"{kind}.{mem}", nontrivial=True,
                         sample={"member": mem, "mapped": mem in keys, "lookup_guarded": all_guarded} if mem in unmapped[:2] or mem == "Double" else None)
        if unmapped and not all_guarded:
            fn_, s_, pth = bad_site
            rep.add(Finding("R27.2", f"R27.2/unguarded/{table}", fn_.module.rel, s_.lineno, fn_.qualname,
                            f"pysdmx {kind} members {unmapped} have no entry in {table} and the lookup {src(s_)} is not dominated by a "
                            f"membership test raising InputValidationException → raw KeyError", describe_path(pth) if pth else None))
        dead = sorted(keys - members)
        if dead:
            rep.note(f"R27.2 (information): {table} keys naming no member of the installed pysdmx {kind} enum: {dead}")
    rep.floor("pysdmx DataType members", len(dtype_enum), 30)

    # ---- R27.3 single path, no memo -------------------------------------------------------------------------
    for api in ("vtlengine.API.run", "vtlengine.API.run_sdmx", "vtlengine.API.semantic_analysis"):
        reach = cg.reachable_from([api])
        rep.instance("R27.3", f"reach/{api}", nontrivial=True)
        if f.qualname not in reach:
            rep.add(Finding("R27.3", f"R27.3/reach/{api}", P.func(api).module.rel, P.func(api).node.lineno, api,
                            f"{api} no longer reaches {f.qualname}: SDMX structures would be mapped by a different path"))
    for q in sorted(cg.callers_closure([f.qualname])):
        fn = P.functions[q]
        rep.instance("R27.3", f"memo/{q}", nontrivial=False)
        if any(d.split(".")[-1] in ("lru_cache", "cache") for d in fn.decorators):
            rep.add(Finding("R27.3", f"R27.3/memoised/{q}", fn.module.rel, fn.node.lineno, q,
                            "memoised SDMX→VTL conversion: a different structure with the same key would reuse a stale mapping"))
    # hand-rolled memo: a function on the conversion path stores something derived from a conversion result in a process-global container
    from sa import globalsx
    on_path = set(cg.callers_closure([f.qualname])) | {f.qualname}
    inv = globalsx.inventory(P)
    nglob = 0
    for gq, gvar in sorted(inv.items()):
        for mq, lines in sorted({**gvar.mutators, **gvar.writers}.items()):
            if mq not in on_path:
                continue
            fn = P.functions[mq]
            tainted: Set[str] = set()

            def derived(e: ast.AST) -> bool:
                for x in ast.walk(e):
                    if isinstance(x, ast.Name) and x.id in tainted:
                        return True
                    if isinstance(x, ast.Call) and any(t in on_path for t in P.resolve_call(fn, x)):
                        return True
                return False
            changed = True
            while changed:
                changed = False
                for n in walk_no_nested(fn.node):
                    if isinstance(n, (ast.Assign, ast.AnnAssign)) and n.value is not None and derived(n.value):
                        for t in (n.targets if isinstance(n, ast.Assign) else [n.target]):
                            for x in ast.walk(t):
                                if isinstance(x, ast.Name) and isinstance(x.ctx, ast.Store) and x.id not in tainted:
                                    tainted.add(x.id)
                                    changed = True
            for n in walk_no_nested(fn.node):
                if getattr(n, "lineno", None) in lines and isinstance(n, (ast.Assign, ast.AugAssign, ast.AnnAssign, ast.Expr)):
                    nglob += 1
                    val = n.value if n.value is not None else n
                    if derived(val):
                        rep.add(Finding("R27.3", f"R27.3/cache/{mq}/{gq.rsplit('.', 1)[-1]}", fn.module.rel, n.lineno, mq,
                                        f"`{src(n)[:90]}` keeps a converted structure in the process-global `{gq}`: a later call that presents a different structure under the same key "
                                        f"(a re-issued artefact, a Schema and a DSD sharing a URN) is answered with the components of the first one"))
    # the same pattern with a LOCAL container that lives across the iterations of a loop (several structures converted in one call)
    for mq in sorted(on_path):
        fn = P.functions[mq]
        tainted2: Set[str] = set()

        def derived2(e: ast.AST) -> bool:
            for x in ast.walk(e):
                if isinstance(x, ast.Name) and x.id in tainted2:
                    return True
                if isinstance(x, ast.Call) and any(t in on_path for t in P.resolve_call(fn, x)):
                    return True
            return False
        for _ in range(4):
            for n in walk_no_nested(fn.node):
                if isinstance(n, (ast.Assign, ast.AnnAssign)) and n.value is not None and derived2(n.value):
                    for t in (n.targets if isinstance(n, ast.Assign) else [n.target]):
                        for x in ast.walk(t):
                            if isinstance(x, ast.Name) and isinstance(x.ctx, ast.Store):
                                tainted2.add(x.id)
        for n in walk_no_nested(fn.node):
            if not isinstance(n, ast.Assign):
                continue
            for t in n.targets:
                for tt in (t.elts if isinstance(t, (ast.Tuple, ast.List)) else [t]):
                    if isinstance(tt, ast.Subscript) and isinstance(tt.value, ast.Name) and derived2(n.value):
                        cont = tt.value.id
                        read_back = any((isinstance(x, ast.Subscript) and isinstance(x.ctx, ast.Load) and isinstance(x.value, ast.Name) and x.value.id == cont)
                                        or (isinstance(x, ast.Compare) and any(isinstance(o, (ast.In, ast.NotIn)) for o in x.ops) and any(isinstance(c_, ast.Name) and c_.id == cont for c_ in x.comparators))
                                        or (isinstance(x, ast.Call) and isinstance(x.func, ast.Attribute) and x.func.attr in ("get", "setdefault") and isinstance(x.func.value, ast.Name) and x.func.value.id == cont)
                                        for x in walk_no_nested(fn.node))
                        nglob += 1
                        if read_back:
                            rep.add(Finding("R27.3", f"R27.3/cache/{mq}/local", fn.module.rel, n.lineno, mq,
                                            f"`{src(n)[:90]}` keeps a converted structure in `{cont}` under `{src(tt.slice)[:40]}` and reads it back for a later structure: two structures "
                                            f"that agree on that key but differ elsewhere (same id, other version / agency) get the components of the first one"))
    rep.instance("R27.3", "process-global stores on the conversion path", nontrivial=False, sample={"stores examined": nglob, "functions on the path": len(on_path)})
    rep.analysed = {"dtype_keys": len(dmap), "pysdmx_datatype_members": len(dtype_enum), "roles": sorted(rmap), "docs_types": len(doc_types)}
    # ---- R27.4: the loader takes every mapped structure as it is: component for component, whatever the combination of types ----
    rep.rule("R27.4", "_load_dataset_from_structure evaluated on structures with every ordered pair of VTL types on two identifiers (plus a measure and an attribute): the dataset "
                      "comes back with the same components, roles, types and nullability - the loader adds no precondition of its own on the combination")
    from sa import structmodel as _sm4
    from sa.e6 import Interp as _I4, Raised as _R4, Unmodelled as _U4
    _M4 = _sm4.Model(P)
    fl = P.func("vtlengine.API._InternalApi._load_dataset_from_structure")
    tnames = list(_I4(P).eval(ast.parse("list(SCALAR_TYPES)", mode="eval").body, {}, fl))
    if len(tnames) < 8:
        raise AnalysisError(f"R27.4: SCALAR_TYPES has only {len(tnames)} entries (anchor changed)")
    n4 = 0
    bad4: Dict[str, str] = {}
    for t1 in tnames:
        for t2 in tnames:
            if t1 in ("Null",) or t2 in ("Null",):
                continue
            st = {"datasets": [{"name": "DS_1", "DataStructure": [{"name": "Id_1", "role": "Identifier", "type": t1, "nullable": False}, {"name": "Id_2", "role": "Identifier", "type": t2, "nullable": False},
                                                                  {"name": "Me_1", "role": "Measure", "type": t1, "nullable": True}, {"name": "At_1", "role": "Attribute", "type": t2, "nullable": True}]}]}
            it = _I4(P, externals={"_validate_json": lambda *a, **k: None, "Dataset": _M4.mk_dataset, "Scalar": lambda **kw: kw,
                                   "VTL_Component": lambda **kw: _sm4.MComp(kw["name"], kw["role"], kw["data_type"], kw["nullable"])}, max_steps=20000)
            it.globals_written["vtlengine.API._InternalApi.schema"] = None
            try:
                r4 = it.call(fl, {"structures": st})
                d4 = r4[0]["DS_1"]
                got4: Any = [(k, c.role, getattr(c.data_type, "short", str(c.data_type)), c.nullable) for k, c in d4.components.items()]
            except _R4 as r:
                got4 = f"raises {getattr(r.exc, 'kind', '?')} {getattr(r.exc, 'code', '')} {str(getattr(r.exc, 'kwargs', ''))[:90]}"
            except _U4 as e:
                raise AnalysisError(f"R27.4: the structure loader is outside the evaluator's language: {e}")
            n4 += 1
            want4 = [("Id_1", "Identifier", None, False), ("Id_2", "Identifier", None, False), ("Me_1", "Measure", None, True), ("At_1", "Attribute", None, True)]
            ok = isinstance(got4, list) and [(a, b, d) for a, b, _c, d in got4] == [(a, b, d) for a, b, _c, d in want4] and got4[0][2] == got4[2][2] and got4[1][2] == got4[3][2] \
                and (t1 == t2) == (got4[0][2] == got4[1][2])
            if n4 <= 2:
                rep.instance("R27.4", f"pair/{t1}+{t2}", nontrivial=True, sample={"types": [t1, t2], "loaded": got4 if isinstance(got4, str) else [list(x) for x in got4]})
            if not ok:
                bad4.setdefault("rejected" if isinstance(got4, str) else "altered", f"identifiers of type ({t1}, {t2}): {got4}")
    rep.instance("R27.4", "type-pairs", nontrivial=True, sample={"pairs": n4})
    for k4, t4 in bad4.items():
        rep.add(Finding("R27.4", f"R27.4/{k4}", fl.module.rel, fl.node.lineno, fl.qualname,
                        f"a structure with {t4}: the documented mapping gives one VTL component per SDMX component for any combination of types; a precondition of some operators "
                        f"(e.g. one time identifier) is not a precondition of the dataset, and the identity script on such a structure can no longer run"))
    rep.floor("R27.4 type pairs", n4, 60)
    rep.assumptions = ["pysdmx enums are read from the installed package source (members = class-level NAME = 'value' assignments)",
                       "docs/data_structures.rst is the oracle for the mapping"]
