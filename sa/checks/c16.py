"""C16 - run() releases its session resources at every failure point (DESIGN §3 C16).

R16.1 acquire/release pairing on ALL exits (normal, return, exception incl. non-Exception BaseExceptions) in
      configured_connection (session directory ↔ shutil.rmtree, connection ↔ close) and create_configured_connection
R16.2 the connection never escapes the `with configured_connection()` region of run(): not used outside it, not stored
      in module/class/instance state by any callee
R16.3 every other acquisition reachable from the public API (open, duckdb.connect, conn.register, tempfile.*) is a
      with-item or paired on all exits
R16.4 no state survives a failed run: process-globals set per statement are reset on every exit
      (Exceptions.dataset_output); the decimal configuration part is decided under C30/R30.4
Not decided: file descriptors held inside DuckDB; behaviour when rmtree itself fails (ignore_errors=True by design).
"""
from __future__ import annotations

import ast
from typing import Callable, Dict, List, Optional, Set, Tuple

from sa.callgraph import callgraph
from sa.cfg import CFG, Node, describe_path
from sa.core import AnalysisError, Finding, FuncInfo, Program, Report, dotted, program, src, walk_no_nested

CFGMOD = "vtlengine.duckdb_transpiler.Config.config"
API = ["vtlengine.API.run", "vtlengine.API.run_sdmx", "vtlengine.API.semantic_analysis", "vtlengine.API.validate_dataset"]


def _calls(g: CFG, n: Node) -> List[ast.Call]:
    return g.calls_at(n)


def _is_call_to(c: ast.Call, recv: Optional[str], attr: str) -> bool:
    f = c.func
    if isinstance(f, ast.Attribute) and f.attr == attr:
        return recv is None or (isinstance(f.value, ast.Name) and f.value.id == recv)
    return False


def wrapper_params(P: Program, fn: FuncInfo, kind: str) -> Set[str]:
    """Parameters of `fn` that are released (kind: 'rmtree' | 'close' | 'unregister') on EVERY exit of fn, normal or
    exceptional - so that a call fn(…, res, …) can be treated as a release of `res` (wrapper summary, one level)."""
    g = CFG(fn.node)
    out: Set[str] = set()
    for p in fn.params:
        def is_rel(c: ast.Call, p=p) -> bool:
            if kind == "rmtree":
                return dotted(c.func) in ("shutil.rmtree", "rmtree") and bool(c.args) and isinstance(c.args[0], ast.Name) and c.args[0].id == p
            return _is_call_to(c, p, kind)
        rel = release_nodes(g, is_rel, p if kind != "rmtree" else None)
        if not rel:
            continue
        ok = True
        for ex in (g.exit, g.raise_exit):
            if g.path_avoiding(g.entry, lambda n, ex=ex: n is ex, lambda n: n in rel) is not None:
                # a raise *inside* the release call itself cannot be avoided by any code: ignore paths whose last
                # step before RAISE is a release node's own exception edge (handled by avoid) - so any path found is real
                ok = False
        if ok:
            out.add(p)
    return out


def via_wrapper(P: Program, owner: FuncInfo, c: ast.Call, var: str, kind: str) -> bool:
    targets = P.resolve_call(owner, c)
    for t in targets:
        fn = P.functions.get(t)
        if fn is None:
            continue
        released = wrapper_params(P, fn, kind)
        params = [x for x in fn.params if x not in ("self", "cls")]
        for i, a in enumerate(c.args):
            if isinstance(a, ast.Name) and a.id == var and i < len(params) and params[i] in released:
                return True
        for k in c.keywords:
            if k.arg in released and isinstance(k.value, ast.Name) and k.value.id == var:
                return True
    return False


def release_nodes(g: CFG, is_release_call: Callable[[ast.Call], bool], guard_var: Optional[str]) -> Set[Node]:
    out: Set[Node] = set()
    for n in g.nodes:
        if n.stmt is None:
            continue
        if any(is_release_call(c) for c in _calls(g, n)) and n.kind == "stmt":
            out.add(n)
    if guard_var:
        # `if <var> is not None:` / `if <var>:` whose body starts a release: the False branch is infeasible once acquired
        for n in g.nodes:
            if n.kind == "test" and isinstance(n.stmt, ast.If):
                t = n.stmt.test
                is_guard = (isinstance(t, ast.Compare) and isinstance(t.left, ast.Name) and t.left.id == guard_var
                            and len(t.ops) == 1 and isinstance(t.ops[0], ast.IsNot)
                            and isinstance(t.comparators[0], ast.Constant) and t.comparators[0].value is None) or \
                           (isinstance(t, ast.Name) and t.id == guard_var)
                if is_guard and any(isinstance(st, ast.Expr) and isinstance(st.value, ast.Call) and is_release_call(st.value)
                                    for st in n.stmt.body):
                    out.add(n)
    return out


def pairing(rep: Report, rule: str, f: FuncInfo, g: CFG, what: str, acq: List[Node], rel: Set[Node],
            exits: List[Node], key: str) -> None:
    for a in acq:
        rep.instance(rule, f"{key}/acquire@{f.name}", nontrivial=True,
                     sample={"function": f.qualname, "resource": what, "acquired_at": a.lineno, "release_nodes": sorted({r.lineno for r in rel})})
        starts = g.norm_succ.get(a, set())
        for s in starts:
            if s in rel:
                continue
            for ex in exits:
                p = g.path_avoiding(s, lambda n, ex=ex: n is ex, lambda n: n in rel) if s is not ex else [s]
                if p is not None:
                    kind = "exception" if ex is g.raise_exit else "normal"
                    rep.add(Finding(rule, f"{rule}/{key}/{f.qualname}/{kind}-exit", f.module.rel, a.lineno, f.qualname,
                                    f"{what} acquired at line {a.lineno} is not released on a path to the {kind} exit",
                                    describe_path([a] + p)))
                    break


def run(rep: Report, tier: str) -> None:
    P = program()
    rep.explanation = ("Statement CFGs with exception edges (every call/subscript may raise; `except Exception` does not stop "
                       "BaseExceptions) are built for the connection context manager and every function that acquires a "
                       "resource; acquire→release pairing is a path query to both exits; escape of the connection and "
                       "set/reset pairing of per-statement globals are def-use/CFG rules over functions reachable from the API.")
    rep.rule("R16.1", "session directory and connection are released on every exit of configured_connection/create_configured_connection")
    rep.rule("R16.2", "the connection does not escape the with-region of run(): no use outside, no store into longer-lived state")
    rep.rule("R16.3", "open/register/connect/tempfile acquisitions reachable from the API are with-items or paired on all exits")
    rep.rule("R16.4", "per-statement process globals are reset on every exit of the statement loop")

    # ---- R16.1 configured_connection ------------------------------------------------------------------
    f, g, yields, conn_var = session_resources(P, rep, "R16.1")
    # the yield hands out the connection acquired here
    y = yields[0]
    yv = [x for x in ast.walk(y.stmt) if isinstance(x, ast.Yield)][0].value
    rep.instance("R16.1", "yield-value", nontrivial=True, sample={"yield": src(yv) if yv is not None else None})
    if not (isinstance(yv, ast.Name) and yv.id == conn_var):
        rep.add(Finding("R16.1", "R16.1/yield-value", f.module.rel, y.lineno, f.qualname, f"context manager yields {src(yv) if yv else None}, not the paired connection"))
    # create_configured_connection: on failure after connect the connection is closed
    f2 = P.func(f"{CFGMOD}.create_configured_connection")
    g2 = CFG(f2.node)
    acq2 = [n for n in g2.nodes if n.kind == "stmt" and isinstance(n.stmt, ast.Assign) and isinstance(n.stmt.value, ast.Call)
            and (dotted(n.stmt.value.func) or "").endswith("connect")]
    if not acq2:
        raise AnalysisError("create_configured_connection: duckdb.connect acquisition not found")
    v2 = acq2[0].stmt.targets[0].id
    rel2 = release_nodes(g2, lambda c: _is_call_to(c, v2, "close"), v2)
    pairing(rep, "R16.1", f2, g2, f"connection `{v2}` (ownership passes to the caller only on normal return)", acq2, rel2,
            [g2.raise_exit], "connect")

    # ---- R16.2 escape -------------------------------------------------------------------------------------
    cg = callgraph(P)
    runf = P.func("vtlengine.API.run")
    withs = [n for n in walk_no_nested(runf.node) if isinstance(n, ast.With) and any(
        isinstance(i.context_expr, ast.Call) and (dotted(i.context_expr.func) or "").endswith("configured_connection") for i in n.items)]
    if len(withs) != 1:
        raise AnalysisError(f"run(): expected one `with configured_connection()` region, found {len(withs)}")
    w = withs[0]
    cvar = next((i.optional_vars.id for i in w.items if isinstance(i.optional_vars, ast.Name)), None)
    if cvar is None:
        raise AnalysisError("run(): `with configured_connection() as <name>` binding not found")
    inside = {id(x) for st in w.body for x in ast.walk(st)}
    for x in walk_no_nested(runf.node):
        if isinstance(x, ast.Name) and x.id == cvar and not any(x is i.optional_vars for i in w.items):
            rep.instance("R16.2", f"use/{x.lineno}", nontrivial=True)
            if id(x) not in inside:
                rep.add(Finding("R16.2", "R16.2/use-outside-with", runf.module.rel, x.lineno, runf.qualname,
                                f"connection `{cvar}` is used outside its `with configured_connection()` region"))
    reach = cg.reachable_from([runf.qualname])
    nstore = 0
    for q in sorted(reach):
        fn = P.functions[q]
        conn_names = {p for p in fn.params if p in ("conn", "connection", "con")}
        if not conn_names:
            continue
        for n in walk_no_nested(fn.node):
            tgt_val: List[Tuple[ast.AST, ast.AST]] = []
            if isinstance(n, ast.Assign):
                tgt_val = [(t, n.value) for t in n.targets]
            elif isinstance(n, ast.AnnAssign) and n.value is not None:
                tgt_val = [(n.target, n.value)]
            for t, v in tgt_val:
                if isinstance(v, ast.Name) and v.id in conn_names and isinstance(t, (ast.Attribute, ast.Subscript)):
                    nstore += 1
                    rep.add(Finding("R16.2", f"R16.2/store/{q}/{src(t)}", fn.module.rel, n.lineno, q,
                                    f"`{src(n)}` stores the session connection into longer-lived state"))
            if isinstance(n, ast.Call) and isinstance(n.func, ast.Attribute) and n.func.attr in ("add", "append", "setdefault", "__setitem__") \
                    and any(isinstance(a, ast.Name) and a.id in conn_names for a in n.args):
                recv = n.func.value
                rq = P.resolve_expr(fn.module, recv) if isinstance(recv, (ast.Name, ast.Attribute)) else None
                init = None
                if isinstance(recv, ast.Name) and recv.id in fn.module.assigns:
                    init = fn.module.assigns[recv.id]
                weak = init is not None and "Weak" in src(init)
                rep.instance("R16.2", f"container/{q}/{src(recv)}", nontrivial=True, sample={"site": f"{fn.module.rel}:{n.lineno}", "call": src(n), "weak": weak})
                if weak:
                    rep.exemption("R16.2", f"{q}/{src(recv)}", "weakref container: does not keep the connection alive")
                else:
                    rep.add(Finding("R16.2", f"R16.2/container/{q}/{src(recv)}", fn.module.rel, n.lineno, q,
                                    f"`{src(n)}` keeps a strong reference to the session connection beyond the run"))
        rep.instance("R16.2", f"callee/{q}", nontrivial=False)

    # ---- R16.3 other acquisitions ---------------------------------------------------------------------------
    reach_api = cg.reachable_from([a for a in API if a in P.functions])
    nacq = 0
    # operator validation methods are reached through dispatch tables the call graph does not resolve: include every function
    # of the Operators / Interpreter / transpiler packages that opens something
    dispatched = {f_.qualname for f_ in P.iter_functions() if f_.module.name.startswith(("vtlengine.Operators", "vtlengine.Interpreter", "vtlengine.duckdb_transpiler"))
                  and any(isinstance(c_, ast.Call) and (dotted(c_.func) or "").endswith(("duckdb.connect", "open")) for c_ in walk_no_nested(f_.node))}
    for q in sorted(reach_api | dispatched | {f"{CFGMOD}.create_configured_connection"}):
        fn = P.functions[q]
        if q in (f.qualname, f2.qualname):
            continue
        gq: Optional[CFG] = None
        for n in walk_no_nested(fn.node):
            if not isinstance(n, ast.Call):
                continue
            d = dotted(n.func) or ""
            if d == "open" or d.endswith(".open") and d.split(".")[0] in ("io", "gzip", "codecs"):
                nacq += 1
                par = getattr(n, "_parent", None)
                rep.instance("R16.3", f"open/{q}:{n.lineno}", nontrivial=True, sample={"site": f"{fn.module.rel}:{n.lineno}", "call": src(n)[:70]})
                if not isinstance(par, ast.withitem):
                    rep.add(Finding("R16.3", f"R16.3/open/{q}", fn.module.rel, n.lineno, q,
                                    f"`{src(n)[:60]}` is not a with-item: the file stays open if a later statement raises"))
            elif d.startswith("tempfile.") and d.split(".")[-1] in ("mkdtemp", "mkstemp", "NamedTemporaryFile", "TemporaryDirectory", "TemporaryFile"):
                nacq += 1
                par = getattr(n, "_parent", None)
                rep.instance("R16.3", f"tempfile/{q}:{n.lineno}", nontrivial=True)
                if not isinstance(par, ast.withitem):
                    rep.add(Finding("R16.3", f"R16.3/tempfile/{q}", fn.module.rel, n.lineno, q,
                                    f"`{src(n)[:60]}` creates a temporary file/directory outside a with statement"))
            elif isinstance(n.func, ast.Attribute) and n.func.attr == "register" and isinstance(n.func.value, ast.Name) \
                    and n.func.value.id in ("conn", "connection", "con"):
                nacq += 1
                gq = gq or CFG(fn.node)
                recv = n.func.value.id
                acqn = [x for x in gq.nodes if x.kind == "stmt" and any(c is n for c in gq.calls_at(x))]
                reln = release_nodes(gq, lambda c: _is_call_to(c, recv, "unregister"), None)
                pairing(rep, "R16.3", fn, gq, f"registered view `{src(n.args[0]) if n.args else '?'}`", acqn, reln, [gq.exit, gq.raise_exit], "register")
            elif d.endswith("duckdb.connect") or d == "connect":
                nacq += 1
                gq = gq or CFG(fn.node)
                par = getattr(n, "_parent", None)
                if isinstance(par, ast.Assign) and isinstance(par.targets[0], ast.Name):
                    v = par.targets[0].id
                    acqn = [x for x in gq.nodes if x.kind == "stmt" and x.stmt is par]
                    reln = release_nodes(gq, lambda c, v=v: _is_call_to(c, v, "close"), v)
                    key = f"connect/{q}"
                    if q in R163_EXEMPT:
                        # reasoned exemption, made precise: statements that execute a CONSTANT configuration command on the fresh
                        # connection (and imports) are taken not to fail; everything else between connect and close is checked
                        rep.exemption("R16.3", q, R163_EXEMPT[q])

                        def quiet(node_: Node, v=v) -> bool:
                            st_ = node_.stmt
                            if isinstance(st_, (ast.Import, ast.ImportFrom)):
                                return False
                            if isinstance(st_, ast.Expr) and isinstance(st_.value, ast.Call) and _is_call_to(st_.value, v, "execute") \
                                    and len(st_.value.args) == 1 and isinstance(st_.value.args[0], ast.Constant) and not st_.value.keywords:
                                return False
                            from sa.cfg import default_may_raise
                            return default_may_raise(node_)
                        gx = CFG(fn.node, may_raise=quiet)
                        acqx = [x for x in gx.nodes if x.kind == "stmt" and x.stmt is par]
                        relx = release_nodes(gx, lambda c, v=v: _is_call_to(c, v, "close"), v)
                        pairing(rep, "R16.3", fn, gx, f"connection `{v}`", acqx, relx, [gx.exit, gx.raise_exit], "connect")
                    else:
                        pairing(rep, "R16.3", fn, gq, f"connection `{v}`", acqn, reln, [gq.exit, gq.raise_exit], "connect")
    rep.floor("resource acquisition sites reachable from the API", nacq, 6)

    # ---- R16.4 set/reset pairing of Exceptions.dataset_output ---------------------------------------------------
    TARGET = "vtlengine.Exceptions.dataset_output"
    nset = 0
    for fn in P.iter_functions():
        sets: List[ast.Assign] = []
        for n in walk_no_nested(fn.node):
            if isinstance(n, ast.Assign) and len(n.targets) == 1 and isinstance(n.targets[0], (ast.Attribute, ast.Name)):
                t = n.targets[0]
                q = P.resolve_expr(fn.module, t) if isinstance(t, ast.Attribute) else None
                is_global_name = isinstance(t, ast.Name) and t.id == "dataset_output" and fn.module.name == "vtlengine.Exceptions" \
                    and any(isinstance(x, ast.Global) and "dataset_output" in x.names for x in ast.walk(fn.node))
                if q == TARGET or (isinstance(t, ast.Attribute) and src(t).endswith("Exceptions.dataset_output")) or is_global_name:
                    sets.append(n)
        if not sets:
            continue
        gq = CFG(fn.node)
        non_none = [s for s in sets if not (isinstance(s.value, ast.Constant) and s.value.value is None)]
        resets = {x for x in gq.nodes if x.kind == "stmt" and any(x.stmt is s for s in sets if s not in non_none)}
        for s in non_none:
            nset += 1
            acqn = [x for x in gq.nodes if x.kind == "stmt" and x.stmt is s]
            pairing(rep, "R16.4", fn, gq, "process-global Exceptions.dataset_output", acqn, resets, [gq.exit, gq.raise_exit], "dataset_output")
    rep.floor("writers of Exceptions.dataset_output", nset, 1)
    rep.analysed = {"functions_reachable_from_api": len(reach_api), "acquisition_sites": nacq, "connection_param_callees": nstore}
    # ---- R16.5: nothing survives a failed (or earlier) run in the decimal configuration - decided by C30's history rule ----
    rep.rule("R16.5", "a rejected or earlier decimal configuration does not persist into the next run (C30 R30.4 evaluated here too)")
    from sa.checks import c30
    sub = Report("C16", tier)
    c30.run(sub, tier)
    n30 = sub.rules.get("R30.4", {}).get("instances", 0)
    rep.floor("R16.5 history probes", n30, 20)
    rep.instances += n30
    rep.rules["R16.5"]["instances"] += n30
    rep.nontrivial.update(k.replace("R30.4", "R16.5") for k in sub.nontrivial if k.startswith("R30.4"))
    for f_ in sub.findings:
        if f_.rule == "R30.4":
            rep.add(Finding("R16.5", f_.key.replace("R30.4", "R16.5"), f_.file, f_.line, f_.func, f_.message + " - a configuration error of one run() changes the outcome of the next"))
    # ---- R16.6: memoised functions are process-lifetime state ----
    rep.rule("R16.6", "memoised functions: reviewed inventory; a new one must return an immutable value that depends only on its arguments")
    from sa import globalsx as _gx
    nmemo = 0
    for f_ in P.iter_functions():
        if any(d in _gx.CACHE_DECOS or d.split(".")[-1] in _gx.CACHE_DECOS for d in f_.decorators):
            nmemo += 1
            rep.instance("R16.6", f"memo/{f_.qualname}", nontrivial=True, sample={"reviewed": f_.qualname in _gx.MEMO_REVIEWED})
            if f_.qualname in _gx.MEMO_REVIEWED:
                rep.exemption("R16.6", f_.qualname, _gx.MEMO_REVIEWED[f_.qualname])
    for f_, why_, line_ in _gx.memo_findings(P):
        rep.add(Finding("R16.6", f"R16.6/memo/{f_.qualname}", f_.module.rel, line_, f_.qualname,
                        f"{f_.name} is memoised and {why_}: what one call (one run, one parse, one thread) does to the cached value is seen by every later call in the process"))
    _gx.report_shared_instances(P, rep, "R16.6", None, "the next API call starts from that state")
    rep.floor("R16.6 memoised functions", nmemo, 3)
    # ---- R16.7: a DuckDB failure is never swallowed by its handler (shared with C32) ----
    rep.rule("R16.7", "every `except duckdb.…` handler of the execution / loading modules raises on every path: a failed step does not let the run continue to a normal return")
    from sa.checks.c32 import duckdb_handlers_reraise as _reraise
    _reraise(P, rep, "R16.7")
    rep.assumptions = ["any statement containing a call, subscript, arithmetic or yield may raise (over-approximation)",
                       "`if <res> is not None:` guarding a release is infeasible-false once the resource is bound",
                       "rmtree(ignore_errors=True) and close() are the release operations"]


R163_EXEMPT = {
    "vtlengine.Operators.General.Eval._execute_query":
        "eval's schema-validation connection: in-memory, never used for data; constant SET commands on the fresh connection are taken not to "
        "fail (no input reaches them); every other statement between connect and close is checked for pairing on both exits",
}


def session_resources(P: Program, rep: Report, rule: str):
    """configured_connection: the session directory and the connection are released on every exit (normal, exception, generator close).
    Shared with C13: what is left behind by a failed run is a session database that still holds the tables of the statements that ran."""
    f = P.func(f"{CFGMOD}.configured_connection")
    if not any(d.endswith("contextmanager") for d in f.decorators):
        raise AnalysisError("configured_connection is no longer a @contextmanager (anchor changed)")
    g = CFG(f.node)
    yields = [n for n in g.nodes if n.stmt is not None and n.kind == "stmt" and any(isinstance(x, (ast.Yield, ast.YieldFrom)) for x in ast.walk(n.stmt))]
    if len(yields) != 1:
        raise AnalysisError(f"configured_connection: expected exactly one yield, found {len(yields)}")
    # directory
    rmtree_vars = set()
    for n in g.nodes:
        for c in _calls(g, n):
            if dotted(c.func) in ("shutil.rmtree", "rmtree") and c.args and isinstance(c.args[0], ast.Name):
                rmtree_vars.add(c.args[0].id)
    mkdirs = [n for n in g.nodes if n.kind == "stmt" and any(_is_call_to(c, None, "mkdir") and isinstance(c.func.value, ast.Name) for c in _calls(g, n))]
    if not mkdirs:
        raise AnalysisError("configured_connection: no <dir>.mkdir() acquisition found (anchor changed)")
    dir_acq = [n for n in mkdirs if any(isinstance(c.func, ast.Attribute) and isinstance(c.func.value, ast.Name)
                                        and c.func.value.id in rmtree_vars | {"session_dir"} for c in _calls(g, n))]
    session_var = None
    for n in mkdirs:
        for c in _calls(g, n):
            if _is_call_to(c, None, "mkdir") and isinstance(c.func.value, ast.Name) and "session" in c.func.value.id:
                session_var = c.func.value.id
                dir_acq = [n]
    if session_var is None:
        raise AnalysisError("configured_connection: session directory variable not identified")
    def is_rmtree(c: ast.Call) -> bool:
        return (dotted(c.func) in ("shutil.rmtree", "rmtree") and bool(c.args) and isinstance(c.args[0], ast.Name)
                and c.args[0].id == session_var) or via_wrapper(P, f, c, session_var, "rmtree")
    rel_dir = release_nodes(g, is_rmtree, None)
    pairing(rep, rule, f, g, f"session directory `{session_var}`", dir_acq, rel_dir, [g.exit, g.raise_exit], "session-dir")
    # connection
    conn_acq: List[Node] = []
    conn_var = None
    for n in g.nodes:
        if n.kind == "stmt" and isinstance(n.stmt, (ast.Assign, ast.AnnAssign)) and isinstance(getattr(n.stmt, "value", None), ast.Call):
            callee = dotted(n.stmt.value.func) or ""
            if callee.endswith(("create_configured_connection", "duckdb.connect", "connect")):
                tgt = n.stmt.targets[0] if isinstance(n.stmt, ast.Assign) else n.stmt.target
                if isinstance(tgt, ast.Name):
                    conn_var = tgt.id
                    conn_acq.append(n)
    if not conn_acq or conn_var is None:
        # `with [closing(]create_configured_connection(...)[)] as conn:` - the with protocol closes on every exit of its body
        for w in ast.walk(f.node):
            if isinstance(w, ast.With):
                for it in w.items:
                    inner = it.context_expr
                    if isinstance(inner, ast.Call) and (dotted(inner.func) or "").endswith("closing") and inner.args:
                        inner = inner.args[0]
                    if isinstance(inner, ast.Call) and (dotted(inner.func) or "").endswith(("create_configured_connection", "duckdb.connect", "connect")) \
                            and isinstance(it.optional_vars, ast.Name):
                        conn_var = it.optional_vars.id
                        rep.instance(rule, f"connection/{conn_var}/with", nontrivial=True, sample={"acquired": src(it.context_expr)[:80], "released": "with-statement exit"})
                        return f, g, yields, conn_var
        raise AnalysisError("configured_connection: connection acquisition not found (anchor changed)")
    rel_conn = release_nodes(g, lambda c: _is_call_to(c, conn_var, "close") or via_wrapper(P, f, c, conn_var, "close"), conn_var)
    pairing(rep, rule, f, g, f"connection `{conn_var}`", conn_acq, rel_conn, [g.exit, g.raise_exit], "connection")
    return f, g, yields, conn_var
