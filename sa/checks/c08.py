"""C08 - time operators follow the real calendar (DESIGN §3 C08).

R08.1 period limits are year-aware: a macro that bounds or wraps W (week) / D (day-of-year) period numbers must take the
      year into account (53-week years, leap years); a constant limit makes week 53 / day 366 unrepresentable in shifts
R08.2 sibling limit tables agree: Python PeriodDuration.periods / max_periods_in_year vs SQL vtl_period_limit
R08.3 period-shift arithmetic: the year carry and period-number expressions of vtl_tp_shift, evaluated with DuckDB's integer
      semantics (// truncates, % keeps the dividend's sign) over every period number × shifts −60…60, equal calendar
      arithmetic (floor division / true modulo) - for the year-independent indicators S, Q, M exhaustively, and for W/D
      with the macro's own limit (so that shift(n) then shift(−n) is the identity and distinct inputs stay distinct)
R08.4 Python call sites and SQL macro signatures agree: every vtl_* call in emitted SQL passes as many arguments as the
      macro declares, and the frequency flags handed to vtl_date_timeshift_period_ind are in the order of the parameters
      they describe (annual ↔ 12 months, semester ↔ 6, quarter ↔ 3, weekly ↔ 7 days)
Not decided: DuckDB date functions (DATE_DIFF, STRPTIME '%G-W%V', LAST_DAY …) and therefore time_agg/datediff/dateadd values.
"""
from __future__ import annotations

import ast
import datetime
import re
from typing import Any, Dict, List, Optional, Tuple

from sa import sqlconc, sqlexpr, sqlx
from sa.core import AnalysisError, Finding, Program, Report, dotted, program, src

TH = "vtlengine.DataTypes.TimeHandling"
FLAG_UNITS = {"annual": 12, "semester": 6, "quarter": 3, "weekly": 7}


def split_args(toks: List[sqlx.Tok], i: int) -> Tuple[List[List[sqlx.Tok]], int]:
    """toks[i] == '(' ; returns (argument token lists, index of matching ')')"""
    j = sqlx.matching_paren(toks, i)
    args: List[List[sqlx.Tok]] = [[]]
    depth = 0
    for t in toks[i + 1:j]:
        if t.text in "([{":
            depth += 1
        elif t.text in ")]}":
            depth -= 1
        if t.text == "," and depth == 0:
            args.append([])
        else:
            args[-1].append(t)
    if args == [[]]:
        args = []
    return args, j


def evalint(e: sqlexpr.E, env: Dict[str, Any], macros: Dict[str, sqlx.Macro], depth: int = 0) -> Any:
    """Integer/boolean evaluation with DuckDB semantics for // and %."""
    k = e.kind
    if k == "lit":
        s = str(e.val)
        if s.startswith("'"):
            return s[1:-1]
        return int(s) if re.fullmatch(r"-?\d+", s) else float(s)
    if k in ("ident", "ph"):
        if str(e.val) in env:
            return env[str(e.val)]
        raise sqlexpr.ParseError(f"free variable {e.val}")
    if k == "field":
        base = e.args[0]
        key = f"{base.val}.{e.val}" if base.kind == "ident" else None
        if key and key in env:
            return env[key]
        raise sqlexpr.ParseError(f"field {key}")
    if k == "unop":
        v = evalint(e.args[0], env, macros, depth)
        return -v if e.val == "-" else (not v if e.val == "NOT" else v)
    if k == "binop":
        a, b = evalint(e.args[0], env, macros, depth), evalint(e.args[1], env, macros, depth)
        op = e.val
        if op == "+":
            return a + b
        if op == "-":
            return a - b
        if op == "*":
            return a * b
        if op == "//":
            q = abs(a) // abs(b)
            return q if (a >= 0) == (b >= 0) else -q
        if op == "%":
            r = abs(a) % abs(b)
            return r if a >= 0 else -r
        if op in ("=", "<>", "!=", "<", ">", "<=", ">="):
            return {"=": a == b, "<>": a != b, "!=": a != b, "<": a < b, ">": a > b, "<=": a <= b, ">=": a >= b}[op]
        if op == "AND":
            return bool(a) and bool(b)
        if op == "OR":
            return bool(a) or bool(b)
        raise sqlexpr.ParseError(f"operator {op}")
    if k == "case":
        for c, r in zip(e.args[0::2], e.args[1::2]):
            cv = (evalint(e.val, env, macros, depth) == evalint(c, env, macros, depth)) if e.val is not None else evalint(c, env, macros, depth)
            if cv:
                return evalint(r, env, macros, depth)
        return evalint(e.extra, env, macros, depth) if e.extra is not None else None
    if k == "cast":
        return evalint(e.args[0], env, macros, depth)
    if k == "call" and str(e.val).lower() in macros and depth < 4:
        m = macros[str(e.val).lower()]
        env2 = {p: evalint(a, env, macros, depth) for p, a in zip(m.params, e.args)}
        if m.name not in _PARSED:
            _PARSED[m.name] = sqlexpr.parse(m.body)
        return evalint(_PARSED[m.name], env2, macros, depth + 1)
    raise sqlexpr.ParseError(f"construct {k}:{e.val}")


_PARSED: Dict[str, sqlexpr.E] = {}


def expand_join_holes(P: Program, sk: sqlx.Skeleton) -> str:
    """Replace a hole ⟦name⟧ / ⟦sep.join(...)⟧ whose definition is `sep.join(f"…{x}…" for x in (<constants>))` by its
    expansion, so that generated argument lists can be compared positionally with macro signatures."""
    text = sk.text
    for h in set(sk.holes):
        try:
            e: Optional[ast.AST] = ast.parse(h, mode="eval").body
        except SyntaxError:
            continue
        if isinstance(e, ast.Name) and sk.func is not None:
            defs = [n.value for n in ast.walk(sk.func.node) if isinstance(n, ast.Assign) and any(isinstance(t, ast.Name) and t.id == e.id for t in n.targets)]
            e = defs[0] if len(defs) == 1 else None
        if not (isinstance(e, ast.Call) and isinstance(e.func, ast.Attribute) and e.func.attr == "join" and isinstance(e.func.value, ast.Constant) and e.args):
            continue
        g = e.args[0]
        if not (isinstance(g, (ast.GeneratorExp, ast.ListComp)) and len(g.generators) == 1 and isinstance(g.generators[0].iter, (ast.Tuple, ast.List))
                and isinstance(g.generators[0].target, ast.Name) and all(isinstance(x, ast.Constant) for x in g.generators[0].iter.elts)):
            continue
        var = g.generators[0].target.id
        parts = []
        for c in g.generators[0].iter.elts:
            sub = sqlx.skeleton_of(g.elt)
            if sub is None:
                parts = []
                break
            parts.append(sub[0].replace(f"{sqlx.HOLE_L}{var}{sqlx.HOLE_R}", str(c.value)))
        if parts:
            text = text.replace(f"{sqlx.HOLE_L}{h}{sqlx.HOLE_R}", str(e.func.value.value).join(parts))
    return text


def struct_field(e: sqlexpr.E, name: str) -> Optional[sqlexpr.E]:
    """find the value of struct field `name` in the first struct literal under e (depth-first)."""
    if e.kind == "struct":
        for k, v in zip(e.val, e.args):
            if k.strip("'\"") == name:
                return v
    for a in e.args + ([e.extra] if isinstance(e.extra, sqlexpr.E) else []) + ([e.val] if isinstance(e.val, sqlexpr.E) else []):
        r = struct_field(a, name)
        if r is not None:
            return r
    return None


def run(rep: Report, tier: str) -> None:
    P = program()
    macros = {k.lower(): v for k, v in sqlx.load_macros(P).items()}
    rep.explanation = ("The period-limit macro and the period-shift macro are parsed and evaluated by an integer evaluator with DuckDB's "
                       "// and % semantics over all period numbers × shifts in −60…60 and compared with calendar arithmetic; limit tables "
                       "of the Python and SQL implementations are compared; every vtl_* call in emitted SQL is matched against the macro "
                       "signature (arity, and flag order for the date-frequency macro).")
    for rid, text in [("R08.1", "W/D period limits depend on the year"), ("R08.2", "Python and SQL period-limit tables agree"),
                      ("R08.3", "vtl_tp_shift carry/modulo arithmetic equals calendar arithmetic for every (period, shift)"),
                      ("R08.4", "macro call sites match macro signatures (arity, flag order)")]:
        rep.rule(rid, text)
    # ---- R08.1 / R08.2 -----------------------------------------------------------------------------------
    lim, body, sql_limits = sql_period_limits(macros)
    year_aware = {}
    for ind in "WD":
        if len(lim.params) < 2:
            year_aware[ind] = False
        else:
            vals = {evalint(body, {lim.params[0]: ind, **{p: y for p in lim.params[1:]}}, macros) for y in (2019, 2020, 2021, 2024, 2026)}
            year_aware[ind] = len(vals) > 1
    users = sorted({m.name for m in macros.values() if "vtl_period_limit" in m.refs() and m.name != "vtl_period_limit"} |
                   {s.where.split(".")[-1] for s in sqlx.iter_skeletons(P) if "vtl_period_limit" in s.text})
    for ind, what in (("W", "ISO years have 52 or 53 weeks"), ("D", "years have 365 or 366 days")):
        rep.instance("R08.1", f"vtl_period_limit/{ind}", nontrivial=True, sample={"indicator": ind, "limit": sql_limits[ind], "year_aware": year_aware[ind], "users": users})
        if not year_aware[ind]:
            rep.add(Finding("R08.1", f"R08.1/vtl_period_limit/{ind}", lim.file, lim.line, "macro:vtl_period_limit",
                            f"vtl_period_limit('{ind}') is the constant {sql_limits[ind]} for every year, but {what}: period {sql_limits[ind] + 1} of a long "
                            f"year cannot be shifted/filled correctly (used by {', '.join(users)})"))
    thm = P.module(TH)
    pd_cls = thm.classes.get("PeriodDuration")
    py_limits: Dict[str, int] = {}
    if pd_cls is not None:
        for st in ast.walk(pd_cls.node):
            if isinstance(st, ast.Assign) and any(isinstance(t, ast.Name) and t.id == "periods" for t in st.targets) and isinstance(st.value, ast.Dict):
                for k, v in zip(st.value.keys, st.value.values):
                    if isinstance(k, ast.Constant) and isinstance(v, ast.Constant):
                        py_limits[k.value] = v.value
    if set(py_limits) < set("ASQMWD"):
        raise AnalysisError(f"PeriodDuration.periods table not found ({py_limits})")
    for ind in "ASQMWD":
        rep.instance("R08.2", f"limit/{ind}", nontrivial=True, sample={"indicator": ind, "python_max": py_limits[ind], "sql": sql_limits[ind]})
        if py_limits[ind] != sql_limits[ind] and not (ind in "WD" and year_aware.get(ind)):
            rep.add(Finding("R08.2", f"R08.2/limit/{ind}", lim.file, lim.line, "macro:vtl_period_limit",
                            f"maximum period number for indicator {ind}: Python PeriodDuration.periods says {py_limits[ind]}, SQL vtl_period_limit says "
                            f"{sql_limits[ind]} - the two implementations accept/produce different periods"))

    # ---- R08.3 -------------------------------------------------------------------------------------------
    ncell = shift_cells(P, rep, "R08.3", macros, sql_limits)

    # ---- R08.4 -------------------------------------------------------------------------------------------
    ncalls = 0
    texts: List[Tuple[str, str, str, int]] = [(expand_join_holes(P, s), s.where, s.module.rel, s.line) for s in sqlx.iter_skeletons(P)]
    texts += [(m.body, f"macro:{m.name}", m.file, m.line) for m in macros.values()]
    for text, where, file, line in texts:
        toks = sqlx.tokenize(text)
        for i, t in enumerate(toks):
            if t.kind == "ident" and t.text.lower() in macros and i + 1 < len(toks) and toks[i + 1].text == "(":
                m = macros[t.text.lower()]
                args, _ = split_args(toks, i + 1)
                if any(a and a[0].kind == "hole" and len(a) == 1 and ("join" in a[0].text or "*" in a[0].text or "args" in a[0].text or "params" in a[0].text) for a in args):
                    continue  # variadic hole: argument list built elsewhere
                ncalls += 1
                rep.instance("R08.4", f"arity/{where}/{m.name}", nontrivial=True)
                nreq = len([p for p in m.params])
                if len(args) != nreq:
                    rep.add(Finding("R08.4", f"R08.4/arity/{where}/{m.name}", file, line, where,
                                    f"{m.name} is called with {len(args)} argument(s) but the macro declares {nreq} ({', '.join(m.params)})"))
                    continue
                for pname, a in zip(m.params, args):
                    unit = next((u for k, u in FLAG_UNITS.items() if pname.lower().endswith(k)), None)
                    if unit is None:
                        continue
                    atxt = " ".join(x.text for x in a)
                    mods = [int(x) for x in re.findall(r"%\s*(\d+)", atxt)]
                    rep.instance("R08.4", f"flag/{m.name}/{pname}", nontrivial=True, sample={"macro": m.name, "parameter": pname, "argument": atxt[:70]})
                    if mods and unit not in mods:
                        rep.add(Finding("R08.4", f"R08.4/flag/{m.name}/{pname}", file, line, where,
                                        f"argument `{atxt[:60]}` is passed for parameter `{pname}` of {m.name}: it tests a multiple of {mods[0]}, "
                                        f"the parameter stands for {unit}"))
    rep.floor("macro call sites", ncalls, 35)
    rep.analysed = {"sql_limits": sql_limits, "python_limits": py_limits, "shift_cells": ncell, "macro_calls": ncalls}
    iso_year_rule(rep, macros, "R08.5")
    _date_timeshift_table(P, rep)
    _time_agg_date_table(P, rep)
    _python_calendar_table(P, rep)
    rep.rule("R08.10", "every accepted spelling of a Time_Period is stored as the canonical text (cumulative and fill operators order and match periods as text)")
    from sa.checks.c21 import spelling_grid
    spelling_grid(rep, "R08.10", macros, {k: int(v) for k, v in py_limits.items()})
    # ---- R08.11 getyear of a Time_Period is the period's own year, for every indicator (the last ISO week of a year ends in January) ----
    rep.rule("R08.11", "getyear(Time_Period) = the year of the period for every indicator, incl. week 52/53 whose Sunday falls in the next year (registry template evaluated)")
    from sa import registryx as _rx
    ytm = [e_ for e_ in _rx.extract(P) if e_.token_name == "YEAR" and e_.kind.startswith("typed") and "TimePeriod" in e_.kind]
    if len(ytm) != 1:
        raise AnalysisError(f"operator registry: expected one Time_Period override of getyear, found {len(ytm)}")
    ytxt = list(ytm[0].templates.values())[0].format("x")
    try:
        yexpr = sqlexpr.parse(ytxt)
    except sqlexpr.ParseError as ex:
        raise AnalysisError(f"R08.11: getyear template outside the SQL evaluator's language: {ex}")
    n11 = 0
    shown11 = 0
    for y_ in (2015, 2019, 2020, 2021, 2024, 2026):
        nw = datetime.date(y_, 12, 28).isocalendar()[1]
        for per in [f"{y_}A", f"{y_}-S1", f"{y_}-S2", f"{y_}-Q1", f"{y_}-Q4", f"{y_}-M01", f"{y_}-M12", f"{y_}-W01", f"{y_}-W52"] + ([f"{y_}-W53"] if nw == 53 else []) + [f"{y_}-D001", f"{y_}-D365"]:
            try:
                got = sqlconc.ev(yexpr, {"x": per}, macros)
            except sqlconc.SqlError as ex:
                got = f"<error {str(ex)[:40]}>"
            except sqlexpr.ParseError as ex:
                raise AnalysisError(f"R08.11: getyear template outside the SQL evaluator's language: {ex}")
            n11 += 1
            if got != y_ and shown11 < 4:
                shown11 += 1
                rep.add(Finding("R08.11", f"R08.11/getyear/{per}", "src/vtlengine/duckdb_transpiler/Transpiler/operators.py", ytm[0].line, "_create_default_registry",
                                f"getyear of the period {per} evaluates to {got!r} (`{ytxt}`); the year of that period is {y_}"
                                + (" - the last ISO week of a year ends in the following January" if "-W5" in per else "")))
    rep.instance("R08.11", "getyear-grid", nontrivial=True, sample={"evaluated": n11, "template": ytxt})
    rep.floor("R08.11 periods", n11, 60)
    from sa import intdiv
    rep.rule("R08.6", "time macros and generated time SQL: no `/` between integer-typed operands (DuckDB `/` is float division)")
    ndiv = intdiv.rule(rep, P, "R08.6", only_macros=None, skeleton_prefixes=("vtlengine.duckdb_transpiler",))
    rep.floor("R08.6 divisions examined", ndiv, 6)
    # ---- R08.12: the Python-side period patterns accept every period of the calendar ----
    rep.rule("R08.12", "the patterns check_time_period consults accept every period number 1..limit (PeriodDuration.periods) of every indicator, compact and hyphenated")
    python_period_patterns_cover_limits(P, rep, "R08.12")
    # ---- R08.13: periods are stored in the one canonical text the cumulative operators order by (shared with C21) ----
    rep.rule("R08.13", "_normalize_time_period_columns: one UPDATE with vtl_period_normalize per Time_Period column whose row filter selects every accepted non-canonical spelling")
    from sa.checks.c19 import period_limits as _pl13
    from sa.checks.c21 import normalise_update_covers_spellings as _nucs
    _nucs(P, rep, "R08.13", _pl13(P))
    rep.assumptions = ["DuckDB integer semantics: `//` truncates toward zero, `%` keeps the sign of the dividend (checked once against the "
                       "installed DuckDB while writing the rule; not executed by the check)",
                       "calendar facts: ISO years have 52 or 53 weeks, years 365 or 366 days"]


def iso_year_rule(rep: Report, macros, rule: str, only=None) -> None:
    """An expression that writes a week period from a date takes the year from ISOYEAR, not YEAR (shared with C09)."""
    rep.rule(rule, "an expression that writes a week period from a date takes the year from ISOYEAR, not YEAR")
    nweek = 0
    for mname, mac in sorted(macros.items()):
        if only is not None and mname not in only:
            continue
        body = mac.body
        for mm in re.finditer(r"(?is)'-?W'\s*\|\|[^;]*?\b(WEEKOFYEAR|WEEK)\s*\(", body):
            nweek += 1
            seg = body[max(0, body.rfind("THEN", 0, mm.start(1))):mm.end(1)]
            rep.instance(rule, f"week-period/{mname}", nontrivial=True, sample=seg[-120:].replace("\n", " "))
            if not re.search(r"(?i)\bISOYEAR\s*\(", seg):
                rep.add(Finding(rule, f"{rule}/week-period/{mname}", mac.file, mac.line + body.count("\n", 0, mm.start(1)), f"macro:{mname}",
                                f"{mname} writes a week period (…'W' || {mm.group(1)}(d)) without taking the year from ISOYEAR(d): ISO week numbers belong to the ISO year, which differs "
                                f"from the calendar year for the days around New Year (2021-01-01 is 2020-W53, 2019-12-30 is 2020-W01), so those dates get a non-existent or wrong period"))
        # the strftime idiom: %V (ISO week) must be paired with %G (ISO year), never %Y
        for mm in re.finditer(r"(?is)\bSTRFTIME\s*\([^,]+,\s*'([^']*%V[^']*)'", body):
            nweek += 1
            rep.instance(rule, f"week-period/strftime/{mname}", nontrivial=True, sample=mm.group(0)[:80])
            if "%G" not in mm.group(1):
                rep.add(Finding(rule, f"{rule}/week-period/strftime/{mname}", mac.file, mac.line + body.count("\n", 0, mm.start()), f"macro:{mname}",
                                f"{mname} formats a week period with '{mm.group(1)}': %V is the ISO week and belongs to the ISO year %G; with %Y the days around New Year get a "
                                f"non-existent or wrong period (2021-01-01 -> 2021-W53, 2024-12-30 -> 2024-W01)"))
    rep.floor(f"{rule} week-period expressions", nweek, 1 if only else 2)


def _date_timeshift_table(P: Program, rep: Report) -> None:  # noqa: C901
    """R08.7  timeshift on a Date identifier: the shifted-date expression that visit_BinOp_timeshift writes is obtained by abstract
    interpretation of the handler (E6) and evaluated with the concrete SQL-expression evaluator (vtl_dateadd expanded from the
    macro text) over a calendar grid.  From the property: shifting by n and then by -n returns the original date, and distinct dates
    of a regular series never collapse into one.  Grid: anchor dates a regular series of that frequency can have (day <= 28 or the
    last day of a month; any day for W / D), 2019-2021 incl. leap February, n in {1, 2, 3, 5, 12, 14} both directions."""
    import calendar
    import datetime as dt
    from sa import sqlconc, sqlexpr, sqlx as _sqlx, structmodel as sm
    from sa.e6 import ClassVal, Interp, Raised, Unmodelled
    rep.rule("R08.7", "Date timeshift: shift(n) then shift(-n) is the identity and shifting is injective on a regular series (expression evaluated over a calendar grid)")
    f = P.func(f"{sm.TRQ}.visit_BinOp_timeshift")
    M = sm.Model(P)
    ds = M.ds("DS", ["T", "A"], ["M"])
    ds.components["T"].data_type = ClassVal("vtlengine.DataTypes.Date")
    node = sm.MNode("BinOp", left="DS", op="timeshift", right="N")
    ext = {"self.visit": lambda x: "n", "self._get_dataset_structure": lambda x: ds, "self._get_dataset_sql": lambda x: '"DS"',
           "self._resolve_time_identifier": lambda d, op: ("T", ClassVal("vtlengine.DataTypes.Date")), "quote_name": lambda n: f'"{n}"',
           "self._build_timeshift_date_frequency_subquery": lambda a, b: "⟦freq⟧", "SQLBuilder": sm.MBuilder}
    try:
        txt = str(Interp(P, externals=ext).call(f, {"self": sm.MTranspiler(), "node": node}))
    except (Unmodelled, Raised) as e:
        raise AnalysisError(f"R08.7: visit_BinOp_timeshift outside the evaluator's language: {e}")
    m = re.match(r"SELECT (.*?)\nFROM", txt, re.S)
    items = [i.strip() for i in sm._split_top(m.group(1))] if m else []
    mine = [i for i in items if i.endswith('AS "T"')]
    if len(mine) != 1:
        raise AnalysisError("R08.7: the shifted time identifier expression was not found in the Date branch of visit_BinOp_timeshift")
    expr_txt = mine[0][:-len('AS "T"')].strip()
    rep.instance("R08.7", "expression", sample=expr_txt[:200])
    macros = _sqlx.load_macros(P)
    try:
        e = sqlexpr.parse(expr_txt, let=True)
    except sqlexpr.ParseError as ex:
        raise AnalysisError(f"R08.7: shifted-date expression not parseable: {ex}")

    def shift(d: dt.date, fq: str, n: int):
        try:
            r = sqlconc.ev(e, {'"T"': d, "T": d, "n": n, "freq": {"period_ind": fq}}, macros)
        except sqlconc.SqlError as ex:
            return ("error", str(ex)[:40])
        except sqlexpr.ParseError as ex:
            raise AnalysisError(f"R08.7: shifted-date expression outside the SQL evaluator's language: {ex}")
        return r
    anchors = []
    for y in (2019, 2020, 2021):
        for mth in range(1, 13):
            for day in (1, 15, 28, calendar.monthrange(y, mth)[1]):
                anchors.append(dt.date(y, mth, day))
    anchors = sorted(set(anchors))
    nrt = 0
    shown = 0
    n28 = 0
    for fq in ("A", "S", "Q", "M", "W", "D"):
        for d in anchors:
            for n in (1, 2, 3, 5, 12, 14, -1, -2, -3, -5, -12, -14):
                there = shift(d, fq, n)
                back = shift(there, fq, -n) if isinstance(there, dt.date) else there
                nrt += 1
                if back != d and d.day == 28 and d != d.replace(day=calendar.monthrange(d.year, d.month)[1]):
                    # one class, one finding: a date on the 28th that lands on 28 February of a common year is taken for a month end there
                    n28 += 1
                    if n28 == 1:
                        rep.add(Finding("R08.7", "R08.7/round-trip/day-28-via-february", f.module.rel, f.node.lineno, f.qualname,
                                        f"timeshift on a Date series anchored on the 28th: {d.isoformat()} shifted by {n} ({fq}) gives {there}; when the target is 28 February of a common year "
                                        f"it counts as a month end, so shifting back gives {back} (month end of the origin month), not {d.isoformat()}"))
                    continue
                if back != d and shown < 10:
                    shown += 1
                    rep.add(Finding("R08.7", f"R08.7/round-trip/{fq}/{d.isoformat()}/{n}", f.module.rel, f.node.lineno, f.qualname,
                                    f"timeshift on a Date series of frequency {fq}: {d.isoformat()} shifted by {n} gives {there}, and shifting that by {-n} gives {back}, not the original date "
                                    f"(month-end anchoring must survive the round trip, also across leap Februaries)"))
        # injectivity on a regular series anchored at month ends (the hard case)
        months = {"A": 12, "S": 6, "Q": 3, "M": 1}.get(fq)
        if months:
            series = []
            y, mth = 2019, 2
            for _k in range(8):
                series.append(dt.date(y, mth, calendar.monthrange(y, mth)[1]))
                y, mth = divmod(y * 12 + (mth - 1) + months, 12)
                mth += 1
            for n in (1, -1, 3):
                img = [shift(d, fq, n) for d in series]
                rep.instance("R08.7", f"injective/{fq}/{n}", sample={"series": [x.isoformat() for x in series[:3]], "image": [str(x) for x in img[:3]]})
                if len(set(map(str, img))) != len(series):
                    rep.add(Finding("R08.7", f"R08.7/injective/{fq}/{n}", f.module.rel, f.node.lineno, f.qualname,
                                    f"timeshift by {n} maps two dates of the month-end {fq} series {[x.isoformat() for x in series]} to the same date: duplicate identifiers"))
    rep.instance("R08.7", "round-trips", sample={"evaluated": nrt, "failing in the day-28 class": n28})
    rep.floor("R08.7 round trips evaluated", nrt, 5000)


def _python_calendar_table(P: Program, rep: Report) -> None:
    """R08.9  The scalar calendar helpers of DataTypes/TimeHandling.py (day_of_year, max_periods_in_year, period_to_date,
    from_input_customer_support_to_internal) are evaluated by the finite evaluator (standard-library datetime/calendar are its
    primitives) over a grid of dates that contains every leap-rule class of 1900-2100 (1900 and 2100: divisible by 100 and not
    by 400; 2000; 2004/2020/2024; ordinary years) and 52-/53-week ISO years, and compared with the calendar."""
    import datetime as _d
    from sa import e6 as _e6
    rep.rule("R08.9", "Python calendar helpers (day_of_year, max_periods_in_year, period_to_date, period-string parsing): result = calendar, over every leap-rule class of 1900-2100 and 52/53-week years")
    TH = "vtlengine.DataTypes.TimeHandling"
    years = (1900, 1996, 1999, 2000, 2004, 2015, 2019, 2020, 2021, 2023, 2024, 2026, 2032, 2100)
    ev = _e6.Interp(P, max_steps=10_000_000)
    n = 0
    shown: Dict[str, int] = {}

    def run(fname: str, *args: Any) -> Any:
        f = P.functions.get(f"{TH}.{fname}")
        if f is None:
            raise AnalysisError(f"anchor vanished: {TH}.{fname}")
        names = [a.arg for a in f.node.args.args]
        try:
            return ev.call(f, dict(zip(names, args)))
        except _e6.Raised as ex:
            return f"<raises {getattr(ex.exc, 'cls', ex.exc)}>"
        except _e6.Unmodelled as ex:
            raise AnalysisError(f"R08.9: {fname} is outside the evaluator's language: {ex}")
        except Exception as ex:  # a standard-library primitive rejected its arguments
            return f"<raises {type(ex).__name__}: {str(ex)[:40]}>"

    def cmp(fname: str, args: tuple, got: Any, want: Any, why: str) -> None:
        nonlocal n
        n += 1
        if got != want and shown.get(fname, 0) < 4:
            shown[fname] = shown.get(fname, 0) + 1
            f = P.functions[f"{TH}.{fname}"]
            rep.add(Finding("R08.9", f"R08.9/{fname}/{'/'.join(map(str, args))}", f.module.rel, f.node.lineno, f.qualname,
                            f"{fname}{args!r} evaluates to {got!r}; the calendar says {want!r} ({why})"))

    for y in years:
        leap = (y % 4 == 0 and y % 100 != 0) or y % 400 == 0
        days = [_d.date(y, 1, 1), _d.date(y, 2, 28), _d.date(y, 3, 1), _d.date(y, 6, 30), _d.date(y, 12, 30), _d.date(y, 12, 31)]
        if leap:
            days.append(_d.date(y, 2, 29))
        for d in days:
            want = (d - _d.date(y, 1, 1)).days + 1
            s_ = d.isoformat()
            cmp("day_of_year", (s_,), run("day_of_year", s_), want, f"{y} is {'a' if leap else 'not a'} leap year")
            cmp("from_input_customer_support_to_internal", (s_,), run("from_input_customer_support_to_internal", s_), (y, "D", want), "day number of an ISO date")
        ndays = 366 if leap else 365
        nweeks = _d.date(y, 12, 28).isocalendar()[1]
        cmp("max_periods_in_year", ("D", y), run("max_periods_in_year", "D", y), ndays, "days of the year")
        cmp("max_periods_in_year", ("W", y), run("max_periods_in_year", "W", y), nweeks, "ISO weeks of the year")
        for k in (1, 59, 60, 61, 365) + ((366,) if leap else ()):
            for start in (True, False):
                cmp("period_to_date", (y, "D", k, start), run("period_to_date", y, "D", k, start), _d.date(y, 1, 1) + _d.timedelta(days=k - 1), "k-th day of the year")
        for k in (1, 2, 52) + ((53,) if nweeks == 53 else ()):
            cmp("period_to_date", (y, "W", k, True), run("period_to_date", y, "W", k, True), _d.date.fromisocalendar(y, k, 1), "Monday of the ISO week")
            cmp("period_to_date", (y, "W", k, False), run("period_to_date", y, "W", k, False), _d.date.fromisocalendar(y, k, 7), "Sunday of the ISO week")
        for mth in range(1, 13):
            last = (_d.date(y + (mth == 12), mth % 12 + 1, 1) - _d.timedelta(days=1))
            cmp("period_to_date", (y, "M", mth, True), run("period_to_date", y, "M", mth, True), _d.date(y, mth, 1), "first day of the month")
            cmp("period_to_date", (y, "M", mth, False), run("period_to_date", y, "M", mth, False), last, "last day of the month")
        for q in range(1, 5):
            cmp("period_to_date", (y, "Q", q, True), run("period_to_date", y, "Q", q, True), _d.date(y, 3 * q - 2, 1), "first day of the quarter")
            lastq = _d.date(y + (q == 4), (3 * q) % 12 + 1, 1) - _d.timedelta(days=1)
            cmp("period_to_date", (y, "Q", q, False), run("period_to_date", y, "Q", q, False), lastq, "last day of the quarter")
        for sm in (1, 2):
            cmp("period_to_date", (y, "S", sm, True), run("period_to_date", y, "S", sm, True), _d.date(y, 6 * sm - 5, 1), "first day of the semester")
            cmp("period_to_date", (y, "S", sm, False), run("period_to_date", y, "S", sm, False), _d.date(y, 6, 30) if sm == 1 else _d.date(y, 12, 31), "last day of the semester")
        cmp("period_to_date", (y, "A", 1, True), run("period_to_date", y, "A", 1, True), _d.date(y, 1, 1), "first day of the year")
        cmp("period_to_date", (y, "A", 1, False), run("period_to_date", y, "A", 1, False), _d.date(y, 12, 31), "last day of the year")
    rep.instance("R08.9", "calendar-helper-evaluations", sample={"evaluated": n, "years": list(years)})
    rep.floor("R08.9 evaluations", n, 900)


def _time_agg_date_table(P: Program, rep: Report, rule: str = "R08.8") -> None:
    """R08.8  time_agg of a Date to each period indicator: the text of macro vtl_time_agg_date is evaluated (concrete SQL-expression
    evaluator) for every day around New Year of six years (52- and 53-week ISO years), all month bounds and the leap days, and the
    period it writes is compared with the calendar (sa/calx.py): the ISO week belongs to the ISO year, day 366 exists in leap years."""
    from sa import calx, sqlconc, sqlexpr, sqlx as _sqlx
    rep.rule(rule, "time_agg(Date -> A/S/Q/M/W/D): the period written for a date is the calendar period containing it (macro text evaluated over a grid)")
    macros = _sqlx.load_macros(P)
    name = "vtl_time_agg_date"
    if name not in macros:
        raise AnalysisError(f"anchor vanished: macro {name}")
    mac = macros[name]
    n = 0
    shown = 0
    for d in calx.new_year_days():
        for ind in ("A", "S", "Q", "M", "W", "D"):
            try:
                got = sqlconc.call_macro(macros, name, d, ind)
            except sqlconc.SqlError as ex:
                got = f"<error {str(ex)[:30]}>"
            except sqlexpr.ParseError as ex:
                raise AnalysisError(f"{rule}: {name} is outside the SQL evaluator's language: {ex}")
            n += 1
            want = calx.period_of_date(d, ind)
            gp = calx.parse_period(got) if got is not None else ("null",)
            if gp != want and shown < 8:
                shown += 1
                rep.add(Finding(rule, f"{rule}/{ind}/{d.isoformat()}", mac.file, mac.line, f"macro:{name}",
                                f"time_agg of the date {d.isoformat()} to `{ind}` writes {got!r}; the calendar period containing that date is {want} "
                                + ("(the ISO week belongs to the ISO year, which differs from the calendar year around New Year)" if ind == "W" else "")))
    rep.instance(rule, "dates-x-indicators", sample={"evaluated": n})
    rep.floor(f"{rule} evaluations", n, 1200)


def shift_cells(P: Program, rep: Report, rule: str, macros: Dict[str, Any], sql_limits: Dict[str, Any]) -> int:
    """vtl_tp_shift: the year carry and period-number expressions evaluated with DuckDB's integer semantics for every period number and
    every shift in -60..60, against calendar arithmetic.  Shared with C10: a wrong carry writes an ill-formed or NULL value (2019-Q0)
    into a non-nullable Time_Period identifier of the result."""
    sh = macros.get("vtl_tp_shift")
    if sh is None:
        raise AnalysisError("anchor vanished: macro vtl_tp_shift")
    tree = sqlexpr.parse(sh.body)
    if tree.kind != "case" or tree.extra is None:
        raise AnalysisError("vtl_tp_shift: CASE p.period_indicator … ELSE … shape not found")
    year_e = struct_field(tree.extra, "year")
    pn_e = struct_field(tree.extra, "period_number")
    if year_e is None or pn_e is None:
        raise AnalysisError("vtl_tp_shift: struct fields year / period_number not found in the general branch")
    pvar, nvar = sh.params[0], sh.params[1]
    ncell = 0
    bad: Dict[str, Tuple[int, int, Any, Any]] = {}
    for ind in "SQMWD":
        L = sql_limits[ind]
        for pn in range(1, L + 1):
            for n in range(-60, 61):
                env = {f"{pvar}.year": 2000, f"{pvar}.period_number": pn, f"{pvar}.period_indicator": ind, nvar: n}
                try:
                    y = evalint(year_e, env, macros)
                    q = evalint(pn_e, env, macros)
                except sqlexpr.ParseError as e:
                    raise AnalysisError(f"vtl_tp_shift arithmetic not evaluable: {e}")
                total = pn - 1 + n
                want = (2000 + total // L, total % L + 1)  # Python floor semantics = calendar arithmetic
                ncell += 1
                if (y, q) != want and ind not in bad:
                    bad[ind] = (pn, n, (y, q), want)
        rep.instance(rule, f"shift/{ind}", nontrivial=True, sample={"indicator": ind, "limit": L, "cells": L * 121, "first_mismatch": bad.get(ind)})
    for ind, (pn, n, got, want) in bad.items():
        rep.add(Finding(rule, f"{rule}/shift/{ind}", sh.file, sh.line, "macro:vtl_tp_shift",
                        f"timeshift of period {2000}-{ind}{pn} by {n}: the macro's arithmetic (DuckDB // truncates, % keeps the sign) gives "
                        f"year {got[0]}, period {got[1]}; calendar arithmetic gives year {want[0]}, period {want[1]}"))
    rep.floor(f"{rule} shift cells evaluated", ncell, 40000)
    return ncell



def sql_period_limits(macros: Dict[str, Any]):
    """vtl_period_limit evaluated for every indicator (year 2021 for the year-aware forms): (macro, parsed body, indicator -> limit)"""
    lim = macros.get("vtl_period_limit")
    if lim is None:
        raise AnalysisError("anchor vanished: macro vtl_period_limit")
    body = sqlexpr.parse(lim.body)
    sql_limits: Dict[str, Any] = {}
    for ind in "ASQMWD":
        try:
            sql_limits[ind] = evalint(body, {lim.params[0]: ind, **{p: 2021 for p in lim.params[1:]}}, macros)
        except sqlexpr.ParseError as e:
            raise AnalysisError(f"vtl_period_limit not evaluable: {e}")
    return lim, body, sql_limits


def python_period_patterns_cover_limits(P: Program, rep: Report, rule: str) -> None:
    """The regular expressions check_time_period consults (module-level patterns of DataTypes/_time_checking, folded from their constant
    fragments) accept every period number 1..limit of every indicator - limits from PeriodDuration.periods - in the compact and the
    hyphenated spelling, padded or not.  A scalar Time_Period result (e.g. 2020W53) is validated by these patterns when it is fetched."""
    import re as _re
    from sa.core import FuncInfo as _FI
    from sa.e6 import Interp as _I, Unmodelled as _U
    from sa.checks.c19 import period_limits as _pl
    m = P.module("vtlengine.DataTypes._time_checking")
    fc = P.func("vtlengine.DataTypes._time_checking._check_time_period_cached")
    used = {x.func.value.id for x in ast.walk(fc.node) if isinstance(x, ast.Call) and isinstance(x.func, ast.Attribute) and x.func.attr in ("fullmatch", "match", "search")
            and isinstance(x.func.value, ast.Name) and x.func.value.id in m.assigns}
    fake = _FI("vtlengine.DataTypes._time_checking.<module>", m, ast.parse("def _m(): pass").body[0])
    pats: Dict[str, Any] = {}
    for nm in sorted(used):
        v = m.assigns[nm]
        if not (isinstance(v, ast.Call) and (dotted(v.func) or "").endswith("compile") and v.args):
            continue
        try:
            txt = _I(P).eval(v.args[0], {}, fake)
        except _U as e:
            raise AnalysisError(f"{rule}: pattern {nm} is not a constant expression: {e}")
        pats[nm] = _re.compile(str(txt))
    if len(pats) < 2:
        raise AnalysisError(f"{rule}: the period patterns consulted by _check_time_period_cached not found (anchor changed)")
    limits = _pl(P)
    n = 0
    bad: Dict[str, str] = {}
    for ind in "SQMWD":
        L = limits[ind]
        for k in range(1, L + 1):
            width = len(str(L))
            for sp in {f"2020{ind}{k}", f"2020{ind}{k:0{width}d}", f"2020-{ind}{k}", f"2020-{ind}{k:0{width}d}"}:
                n += 1
                if not any(p_.fullmatch(sp) for p_ in pats.values()):
                    bad.setdefault(f"{ind}/{'hyphenated' if '-' in sp else 'compact'}", sp)
        rep.instance(rule, f"python-patterns/{ind}", nontrivial=True, sample={"indicator": ind, "limit": L, "patterns": sorted(pats)})
    for k_, sp in bad.items():
        rep.add(Finding(rule, f"{rule}/python-patterns/{k_}", m.rel, getattr(m.assigns[sorted(pats)[0]], "lineno", 1), "vtlengine.DataTypes._time_checking",
                        f"the Time_Period value {sp!r} (period number within 1..{limits[k_[0]]} of PeriodDuration.periods) is accepted by none of the patterns {sorted(pats)} that check_time_period "
                        f"consults: a scalar result or scalar input holding that period is rejected although the SQL side and the dataset loaders accept it"))
    rep.floor(f"{rule} spellings tried", n, 1000)
