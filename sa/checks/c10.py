"""C10 - results conform to the structure predicted by semantic analysis (DESIGN §3 C10).

The structural clause only: WHICH structure object a returned Dataset/Scalar carries and who may change it.
R10.1 provenance: run() builds the same InterpreterAnalyzer as semantic_analysis() (datasets / value_domains /
      external_routines / scalars, nothing else), fills output_datasets / output_scalars ONLY from the mapping returned by
      interpreter.visit(), hands those two dicts unchanged to the transpiler and to execute_queries, and fetch_result returns
      the very object found in them (only .data / .value are filled in)
R10.2 column order and column set: _build_dataset_fetch_select projects an explicit column list obtained by iterating
      ds.components in order; a bare `SELECT *` (physical column order of the table) is allowed only when that list is empty
R10.3 structure ownership: after the semantic pass nothing in the execution pipeline (duckdb_transpiler.*, API.*) writes
      data_type / role / nullable / name / components of a structure object it did not construct itself
R10.4 identifier non-nullability: Component.__post_init__ rejects a nullable Identifier, and every post-construction
      writer of .role / .nullable anywhere in the package is one of the reviewed writers (frozen table, reason each)
Not decided: that every VALUE conforms to its component's type, uniqueness of identifiers per datapoint, at-most-one
      datapoint without identifiers - these quantify over DuckDB's evaluation of the generated SQL.
R10.6 membership (DS#comp): Membership.validate, StructureVisitor._build_membership_structure and the SELECT list of
      _visit_binop_membership are evaluated (E6) on DS_1(ids A,B; measures M,N; attribute T; viral V) for a measure, an identifier
      and an attribute and must name the same components (not decided: membership on a viral attribute itself - the
      intermediate structure differs there, no input was found on which that is observable)
"""
from __future__ import annotations

import ast
from typing import Dict, List, Optional, Set, Tuple

from sa.core import norm_locals, AnalysisError, Finding, FuncInfo, Program, Report, dotted, program, src, walk_no_nested

API = "vtlengine.API"
EXE = "vtlengine.duckdb_transpiler.io._execution"
STRUCT_ATTRS = {"data_type", "role", "nullable", "components"}
PIPELINE_PREFIXES = ("vtlengine.duckdb_transpiler.", "vtlengine.API.", "vtlengine.files.output.", "vtlengine.ViralPropagation.")

# R10.4: reviewed post-construction writers of .role / .nullable (qualname -> reason the Identifier invariant survives)
ROLE_NULLABLE_WRITERS: Dict[str, str] = {
    "vtlengine.Operators.Join.Join.merge_components": "role becomes IDENTIFIER only when every operand already has the component as Identifier; nullability[] is forced False for identifiers before it is written back",
    "vtlengine.Operators.Binary.dataset_validation": "only components filtered by role == MEASURE are written",
    "vtlengine.Operators.RoleSetter.RoleSetter.validate": "Identifier.validate (the only subclass with role IDENTIFIER) raises 1-1-1-16 when the result is nullable",
    "vtlengine.Operators.Set.Set.validate": "check_same_structure ran first: identifiers are identifiers (non-nullable) in every operand, so `a or b` stays False",
}


def _attr_writes(fn: ast.AST) -> List[Tuple[ast.AST, ast.Attribute, Optional[ast.AST]]]:
    """(statement, attribute target, value) for stores `X.attr = v`, `X.attr[...] = v`, `del X.attr[...]`, `X.attr.pop(...)`."""
    out = []
    for n in walk_no_nested(fn):
        tg: List[ast.AST] = []
        val = None
        if isinstance(n, ast.Assign):
            tg, val = list(n.targets), n.value
        elif isinstance(n, (ast.AugAssign, ast.AnnAssign)) and getattr(n, "value", None) is not None:
            tg, val = [n.target], n.value
        elif isinstance(n, ast.Delete):
            tg = list(n.targets)
        elif isinstance(n, ast.Expr) and isinstance(n.value, ast.Call) and isinstance(n.value.func, ast.Attribute) \
                and n.value.func.attr in ("pop", "update", "clear", "setdefault", "popitem", "__setitem__", "__delitem__"):
            inner = n.value.func.value
            if isinstance(inner, ast.Attribute):
                out.append((n, inner, None))
            continue
        flat: List[ast.AST] = []
        for t in tg:
            flat.extend(t.elts if isinstance(t, (ast.Tuple, ast.List)) else [t])
        for t in flat:
            if isinstance(t, ast.Attribute):
                out.append((n, t, val))
            elif isinstance(t, ast.Subscript) and isinstance(t.value, ast.Attribute):
                out.append((n, t.value, val))
    return out


def _locally_constructed(fn: ast.AST, base: ast.AST) -> bool:
    """base is a Name bound in this function only to constructor calls / copies (a fresh object the function owns)."""
    if not isinstance(base, ast.Name):
        return False
    vals = [n.value for n in walk_no_nested(fn) if isinstance(n, ast.Assign) and any(isinstance(t, ast.Name) and t.id == base.id for t in n.targets)]
    if not vals:
        return False
    def fresh(v: ast.AST) -> bool:
        if isinstance(v, ast.Call):
            d = (dotted(v.func) or "").split(".")[-1]
            return d[:1].isupper() or d in ("copy", "deepcopy")
        return False
    return all(fresh(v) for v in vals)


def run(rep: Report, tier: str) -> None:
    P = program()
    rep.explanation = ("Def-use provenance of the structure objects from interpreter.visit() to the returned Dataset/Scalar; shape of the "
                       "fetch projection; who-may-write rule for structure fields after the semantic pass; reviewed writers of role/nullable.")
    rep.rule("R10.1", "run() returns the structure objects produced by the same semantic pass semantic_analysis() runs")
    rep.rule("R10.2", "fetch projects ds.components in order; SELECT * only when there is nothing to project")
    rep.rule("R10.3", "no execution-pipeline code rewrites data_type/role/nullable/components of semantic structures")
    rep.rule("R10.4", "Identifier non-nullability enforced at construction; post-construction role/nullable writers are the reviewed ones")

    # ---- R10.1 ---------------------------------------------------------------------------------------------
    frun, fsem = P.func(f"{API}.run"), P.func(f"{API}.semantic_analysis")
    def interp_ctor(f: FuncInfo) -> ast.Call:
        cs = [n for n in walk_no_nested(f.node) if isinstance(n, ast.Call) and (dotted(n.func) or "").endswith("InterpreterAnalyzer")]
        if len(cs) != 1:
            raise AnalysisError(f"{f.qualname}: expected one InterpreterAnalyzer(...) construction, found {len(cs)}")
        return cs[0]
    c_run, c_sem = interp_ctor(frun), interp_ctor(fsem)
    kw_run, kw_sem = {k.arg for k in c_run.keywords}, {k.arg for k in c_sem.keywords}
    rep.instance("R10.1", "same-analyzer-configuration", sample={"run": sorted(map(str, kw_run)), "semantic_analysis": sorted(map(str, kw_sem))})
    if kw_run != kw_sem or c_run.args or c_sem.args:
        rep.add(Finding("R10.1", "R10.1/same-analyzer-configuration", frun.module.rel, c_run.lineno, frun.qualname,
                        f"run() constructs InterpreterAnalyzer with {sorted(map(str, kw_run))} but semantic_analysis() with {sorted(map(str, kw_sem))}: "
                        f"the two semantic passes can predict different structures"))
    # semantic_results := interpreter.visit(...)
    visit_assign = [n for n in walk_no_nested(frun.node) if isinstance(n, ast.Assign) and isinstance(n.value, ast.Call)
                    and isinstance(n.value.func, ast.Attribute) and n.value.func.attr == "visit" and len(n.targets) == 1 and isinstance(n.targets[0], ast.Name)]
    if len(visit_assign) != 1:
        raise AnalysisError("run(): `x = interpreter.visit(...)` not found exactly once")
    sem_var = visit_assign[0].targets[0].id
    # the locals that carry the structures = what run() passes as output_datasets= / output_scalars= to execute_queries
    role_var: Dict[str, str] = {}
    for c in walk_no_nested(frun.node):
        if isinstance(c, ast.Call) and (dotted(c.func) or "").split(".")[-1] == "execute_queries":
            for k in c.keywords:
                if k.arg in ("output_datasets", "output_scalars") and isinstance(k.value, ast.Name):
                    role_var[k.arg] = k.value.id
    if set(role_var) != {"output_datasets", "output_scalars"}:
        raise AnalysisError("run(): execute_queries(output_datasets=<name>, output_scalars=<name>) not found")
    for role_name in ("output_datasets", "output_scalars"):
        dict_name = role_var[role_name]
        stores = []
        for n in walk_no_nested(frun.node):
            if isinstance(n, (ast.Assign, ast.AnnAssign)):
                for t in (n.targets if isinstance(n, ast.Assign) else [n.target]):
                    if isinstance(t, ast.Subscript) and isinstance(t.value, ast.Name) and t.value.id == dict_name:
                        stores.append(n)
            if isinstance(n, ast.Call) and isinstance(n.func, ast.Attribute) and isinstance(n.func.value, ast.Name) and n.func.value.id == dict_name \
                    and n.func.attr in ("update", "setdefault", "pop", "clear", "__setitem__"):
                stores.append(n)
        rep.instance("R10.1", f"fill/{role_name}", sample={"stores": [f"{frun.module.rel}:{s.lineno} {src(s)[:60]}" for s in stores]})
        if not stores:
            raise AnalysisError(f"run(): no store into {dict_name} ({role_name})")
        for s in stores:
            ok = False
            if isinstance(s, (ast.Assign, ast.AnnAssign)) and isinstance(s.value, ast.Name):
                # value must be the loop variable of `for name, result in <sem_var>.items()`
                p = getattr(s, "_parent", None)
                while p is not None and not isinstance(p, ast.For):
                    p = getattr(p, "_parent", None)
                if isinstance(p, ast.For) and isinstance(p.iter, ast.Call) and isinstance(p.iter.func, ast.Attribute) and p.iter.func.attr == "items" \
                        and isinstance(p.iter.func.value, ast.Name) and p.iter.func.value.id == sem_var and isinstance(p.target, ast.Tuple) \
                        and len(p.target.elts) == 2 and isinstance(p.target.elts[1], ast.Name) and p.target.elts[1].id == s.value.id:
                    sub = (s.targets[0] if isinstance(s, ast.Assign) else s.target)
                    ok = isinstance(sub.slice, ast.Name) and isinstance(p.target.elts[0], ast.Name) and sub.slice.id == p.target.elts[0].id
            if not ok:
                rep.add(Finding("R10.1", f"R10.1/fill/{role_name}/{' '.join(norm_locals(src(s), frun.node).split())[:50]}", frun.module.rel, s.lineno, frun.qualname,
                                f"`{src(s)[:70]}` puts something other than the semantic pass's own result object (under its own name) into "
                                f"{dict_name}: the returned structure is no longer the one semantic_analysis() reports"))
    # the dicts reach execute_queries and SQLTranspiler unchanged (keyword value is the bare name)
    for callee in ("execute_queries", "SQLTranspiler"):
        calls = [n for n in walk_no_nested(frun.node) if isinstance(n, ast.Call) and (dotted(n.func) or "").split(".")[-1] == callee]
        if not calls:
            raise AnalysisError(f"run(): call of {callee} not found")
        for c in calls:
            for k in c.keywords:
                if k.arg in ("output_datasets", "output_scalars"):
                    rep.instance("R10.1", f"pass/{callee}/{k.arg}", sample={"argument": src(k.value)})
                    if not (isinstance(k.value, ast.Name) and k.value.id == role_var[k.arg]):
                        rep.add(Finding("R10.1", f"R10.1/pass/{callee}/{k.arg}", frun.module.rel, c.lineno, frun.qualname,
                                        f"{callee}({k.arg}={src(k.value)[:50]}): the execution stage receives something other than the semantic pass's structures"))
    # fetch_result returns the object found in the dicts
    ff = P.func(f"{EXE}.fetch_result")
    rets = [n for n in walk_no_nested(ff.node) if isinstance(n, ast.Return) and n.value is not None]
    nret = 0
    for r in rets:
        nret += 1
        v = r.value
        origin = None
        if isinstance(v, ast.Name):
            defs = [n.value for n in walk_no_nested(ff.node) if isinstance(n, ast.Assign) and any(isinstance(t, ast.Name) and t.id == v.id for t in n.targets)]
            if len(defs) == 1:
                d = defs[0]
                if isinstance(d, ast.Subscript) and isinstance(d.value, ast.Name) and d.value.id in ("output_datasets", "output_scalars"):
                    origin = d.value.id
                elif isinstance(d, ast.Call) and isinstance(d.func, ast.Attribute) and d.func.attr == "get" and isinstance(d.func.value, ast.Name) \
                        and d.func.value.id in ("output_datasets", "output_scalars"):
                    origin = d.func.value.id
        rep.instance("R10.1", f"return/{ff.name}:{' '.join(src(v).split())[:40]}", sample={"line": r.lineno, "returns": src(v)[:60], "origin": origin})
        if origin is None:
            # a freshly built Dataset(...) is tolerated only in the scalar-shape fallback (structure-less result): information
            if isinstance(v, ast.Call) and (dotted(v.func) or "") == "Dataset" and any(k.arg == "components" and src(k.value) == "{}" for k in v.keywords):
                rep.note(f"{ff.module.rel}:{r.lineno}: fetch_result returns a structure-less Dataset when a scalar result is not 1x1 (fallback, not reachable for well-typed scripts)")
                continue
            rep.add(Finding("R10.1", f"R10.1/return/{' '.join(src(v).split())[:40]}", ff.module.rel, r.lineno, ff.qualname,
                            f"fetch_result returns `{src(v)[:60]}`, which is not the structure object stored in output_datasets/output_scalars"))
    rep.floor("fetch_result returns", nret, 2)

    # ---- R10.2 ---------------------------------------------------------------------------------------------
    fb = P.func(f"{EXE}._build_dataset_fetch_select")
    # the projection list: a comprehension over <ds>.components (declared order)
    proj = None
    for n in walk_no_nested(fb.node):
        if isinstance(n, ast.Assign) and isinstance(n.value, ast.ListComp) and len(n.value.generators) == 1:
            it = n.value.generators[0].iter
            if isinstance(it, ast.Attribute) and it.attr == "components" and isinstance(n.targets[0], ast.Name):
                proj = n.targets[0].id
                elt_ok = isinstance(n.value.elt, ast.Name) and isinstance(n.value.generators[0].target, ast.Name) and n.value.elt.id == n.value.generators[0].target.id
                if not elt_ok:
                    rep.add(Finding("R10.2", "R10.2/projection-list", fb.module.rel, n.lineno, fb.qualname,
                                    f"projection list `{src(n)[:80]}` is not the component names in declared order"))
    if proj is None:
        raise AnalysisError("_build_dataset_fetch_select: projection list `[c for c in ds.components …]` not found")
    rep.instance("R10.2", "projection-list", sample={"variable": proj})
    nsel = 0
    for r in [n for n in walk_no_nested(fb.node) if isinstance(n, ast.Return) and n.value is not None]:
        text = src(r.value)
        nsel += 1
        if "SELECT *" in text.upper().replace("  ", " "):
            # must be guarded by `if not <proj>` (nothing to project)
            p = getattr(r, "_parent", None)
            guarded = isinstance(p, ast.If) and r in p.body and isinstance(p.test, ast.UnaryOp) and isinstance(p.test.op, ast.Not) \
                and isinstance(p.test.operand, ast.Name) and p.test.operand.id == proj
            rep.instance("R10.2", f"select-star@{'guarded' if guarded else src(getattr(p, 'test', r))[:40]}", sample={"line": r.lineno, "guard": src(p.test) if isinstance(p, ast.If) else None})
            if not guarded:
                rep.add(Finding("R10.2", f"R10.2/select-star/{' '.join(src(p.test).split())[:50] if isinstance(p, ast.If) else 'unguarded'}", fb.module.rel, r.lineno, fb.qualname,
                                f"`{text[:60]}` returns the table's physical columns in physical order although components are declared: the "
                                f"result's column order/set is the SQL's, not the one semantic_analysis() reports (e.g. calc of an existing "
                                f"component, join, or rename that reorders columns)"))
        else:
            # explicit projection must be built by iterating the projection list in order
            loops = [n for n in walk_no_nested(fb.node) if isinstance(n, ast.For) and isinstance(n.iter, ast.Name) and n.iter.id == proj]
            rep.instance("R10.2", "explicit-projection", sample={"line": r.lineno, "built_by_loops_over": proj, "loops": [l.lineno for l in loops]})
            if not loops:
                rep.add(Finding("R10.2", "R10.2/explicit-projection", fb.module.rel, r.lineno, fb.qualname,
                                f"the projected expressions are not built by iterating `{proj}` in order"))
    rep.floor("fetch SELECT returns", nsel, 2)

    # ---- R10.3 ---------------------------------------------------------------------------------------------
    nfun = nwrites = 0
    for f in P.iter_functions():
        if not f.qualname.startswith(PIPELINE_PREFIXES):
            continue
        nfun += 1
        for stmt, tgt, val in _attr_writes(f.node):
            if tgt.attr not in STRUCT_ATTRS:
                continue
            base = tgt.value
            if isinstance(base, ast.Name) and base.id in ("self", "cls"):
                continue  # the object's own fields (transpiler state such as self.components does not exist; Model lives elsewhere)
            nwrites += 1
            fresh = _locally_constructed(f.node, base)
            key = f"{f.qualname}:{' '.join(src(stmt).split())[:60]}"
            rep.instance("R10.3", key, sample={"site": f"{f.module.rel}:{stmt.lineno}", "statement": src(stmt)[:80], "object_built_here": fresh})
            if fresh:
                continue
            rep.add(Finding("R10.3", f"R10.3/{f.qualname}/{' '.join(norm_locals(src(tgt), f.node).split())}", f.module.rel, stmt.lineno, f.qualname,
                            f"`{' '.join(src(stmt).split())[:80]}` rewrites `{tgt.attr}` of a structure object produced by the semantic pass, during "
                            f"execution: run() then reports a different structure than semantic_analysis() for the same script"))
    rep.floor("pipeline functions scanned", nfun, 150)

    # ---- R10.4 ---------------------------------------------------------------------------------------------
    comp = P.cls("vtlengine.Model.Component")
    post = P.lookup_method(comp, "__post_init__")
    guard_ok = False
    if post is not None:
        for n in walk_no_nested(post.node):
            if isinstance(n, ast.If) and "IDENTIFIER" in src(n.test) and "nullable" in src(n.test) and any(isinstance(x, ast.Raise) for x in n.body):
                guard_ok = True
    rep.instance("R10.4", "Component.__post_init__", sample={"guard_present": guard_ok})
    if not guard_ok:
        rep.add(Finding("R10.4", "R10.4/Component.__post_init__", comp.module.rel, comp.node.lineno, comp.qualname,
                        "Component.__post_init__ no longer rejects `role == IDENTIFIER and nullable`: a nullable identifier can be constructed"))
    nrw = 0
    for f in P.iter_functions():
        if f.qualname.startswith("vtlengine.AST."):
            continue  # AST node fields (e.g. ComponentNode.role), not Model components
        for stmt, tgt, val in _attr_writes(f.node):
            if tgt.attr not in ("role", "nullable") or not isinstance(stmt, (ast.Assign, ast.AugAssign, ast.AnnAssign)):
                continue
            if isinstance(tgt.value, ast.Name) and tgt.value.id == "self":
                continue
            nrw += 1
            reviewed = f.qualname in ROLE_NULLABLE_WRITERS
            literal_false = isinstance(val, ast.Constant) and val.value is False and tgt.attr == "nullable"
            rep.instance("R10.4", f"{f.qualname}:{src(tgt)}", sample={"site": f"{f.module.rel}:{stmt.lineno}", "statement": ' '.join(src(stmt).split())[:80], "reviewed": reviewed})
            if literal_false:
                continue  # can only make a component non-nullable
            if reviewed:
                rep.exemption("R10.4", f.qualname, ROLE_NULLABLE_WRITERS[f.qualname])
                continue
            rep.add(Finding("R10.4", f"R10.4/writer/{f.qualname}/{src(tgt)}", f.module.rel, stmt.lineno, f.qualname,
                            f"`{' '.join(src(stmt).split())[:80]}` changes `{tgt.attr}` of an existing component after construction, where "
                            f"Component.__post_init__ no longer checks `Identifier ⇒ not nullable`; this writer is not among the reviewed ones"))
    rep.floor("role/nullable writers", nrw, 6)
    for q in ROLE_NULLABLE_WRITERS:
        if q not in P.functions:
            raise AnalysisError(f"reviewed writer {q} vanished: re-review the R10.4 table")
    rep.analysed = {"pipeline_functions": nfun, "structure_writes_in_pipeline": nwrites, "role_nullable_writes": nrw}
    # ---- R10.5: the structure the transpiler infers for an intermediate DS op DS result == the interpreter's (finite model) ----
    rep.rule("R10.5", "intermediate structure of a dataset-dataset operator: StructureVisitor agrees with semantic analysis on identifiers and measures (finite model, both evaluated from source)")
    from sa import structmodel as _sm
    _M = _sm.Model(P)
    _n = 0
    for _lab, _li, _ri, _lm, _rm in _sm.BINARY_SHAPES:
        _L, _R = _M.ds("DS_1", _li, _lm), _M.ds("DS_2", _ri, _rm)
        _a = _M.interpreter_binary("vtlengine.Operators.Numeric.BinPlus", _L, _R)
        _L2, _R2 = _M.ds("DS_1", _li, _lm), _M.ds("DS_2", _ri, _rm)
        _b = _M.visitor_binary(_L2, _R2)
        _n += 1
        rep.instance("R10.5", f"ds-ds/{_lab}", nontrivial=True, sample={"interpreter": _a[1].summary() if _a[0] == "ok" else _a, "structure_visitor": _b[1].summary() if _b[0] == "ok" else _b})
        if _a[0] != "ok":
            if sorted(_lm) == sorted(_rm):
                _fv = P.func("vtlengine.Operators.Binary.dataset_validation")
                rep.add(Finding("R10.5", f"R10.5/ds-ds-accept/{_lab}", _fv.module.rel, _fv.node.lineno, _fv.qualname,
                                f"DS_1(ids {_li}, measures {_lm}) op DS_2(ids {_ri}, measures {_rm}) is rejected by semantic analysis ({_a[1]}): the operands have the same measures "
                                f"(matched by NAME, the order of declaration is irrelevant) and identifier sets in inclusion"))
            continue  # rejected by semantic analysis: no intermediate structure is needed
        if _b[0] != "ok" or _a[1].summary() != _b[1].summary():
            _f = P.func(_sm.SV + "._build_ds_ds_binop_structure")
            rep.add(Finding("R10.5", f"R10.5/ds-ds/{_lab}", _f.module.rel, _f.node.lineno, _f.qualname,
                            f"for DS_1(ids {_li}, measures {_lm}) op DS_2(ids {_ri}, measures {_rm}) semantic analysis gives identifiers/measures {_a[1].summary()} but the "
                            f"transpiler's structure for the same intermediate result is {_b[1].summary() if _b[0] == 'ok' else _b}: an enclosing operator joins on / projects the wrong "
                            f"identifiers (nested expressions such as (DS_1 + DS_2) * DS_3 give spurious or missing datapoints)"))
    rep.floor("R10.5 shapes", _n, 6)
    # ---- R10.8: nullability of the result measure of DS op DS = left.nullable OR right.nullable (also when the measure is renamed) ----
    rep.rule("R10.8", "dataset-dataset operators: the result measure is nullable iff it is nullable in either operand, also for the renamed mono-measure of comparisons")
    from sa.e6 import Unmodelled as _Unm8
    _n8 = 0
    for _opc, _what in (("vtlengine.Operators.Comparison.Equal", "="), ("vtlengine.Operators.Numeric.BinPlus", "+")):
        for _ln, _rn in ((False, True), (True, False), (False, False), (True, True)):
            _L, _R = _M.ds("DS_1", ["A"], ["M"]), _M.ds("DS_2", ["A"], ["M"])
            _L.components["M"].nullable, _R.components["M"].nullable = _ln, _rn
            try:
                _a8 = _M.interpreter_binary(_opc, _L, _R, full=True)
            except _Unm8 as e:
                raise AnalysisError(f"R10.8: Binary validation outside the evaluator's language: {e}")
            if _a8[0] != "ok":
                raise AnalysisError(f"R10.8: DS_1 {_what} DS_2 rejected in the model: {_a8}")
            _ms = [c_ for c_ in _a8[1].components.values() if c_.role == _M.roles["MEASURE"]]
            _n8 += 1
            rep.instance("R10.8", f"nullable/{_what}/{_ln}-{_rn}", nontrivial=True, sample={"measures": [(c_.name, c_.nullable) for c_ in _ms]})
            if len(_ms) != 1 or _ms[0].nullable != (_ln or _rn):
                _fa = P.func("vtlengine.Operators.Binary.apply_return_type_dataset")
                rep.add(Finding("R10.8", f"R10.8/nullable/{_what}/{_ln}-{_rn}", _fa.module.rel, _fa.node.lineno, _fa.qualname,
                                f"DS_1 {_what} DS_2 with M nullable={_ln} on the left and nullable={_rn} on the right: the result measure is {[(c_.name, c_.nullable) for c_ in _ms]}; it must be "
                                f"nullable={_ln or _rn} (a null on either side gives a null result): the returned structure otherwise declares a non-nullable measure whose data has nulls"))
    rep.floor("R10.8 cases", _n8, 8)
    # ---- R10.9: if-then-else over components: the result is nullable iff a branch can deliver a null ----
    rep.rule("R10.9", "if-then-else at component level: the result component is nullable iff the then- or the else-operand is a nullable component or the null literal (If.validate evaluated)")
    _fif = P.func("vtlengine.Operators.Conditional.If.validate")
    _DT = "vtlengine.DataTypes"
    from sa.e6 import ClassVal as _CV, Interp as _I9, Raised as _R9

    def _branch(kind: str) -> Any:
        if kind == "comp-nullable":
            return _sm.MComp("Me_a", _M.roles["MEASURE"], _CV(f"{_DT}.Number"), True)
        if kind == "comp-not-null":
            return _sm.MComp("Me_b", _M.roles["MEASURE"], _CV(f"{_DT}.Number"), False)
        if kind == "scalar":
            return _sm.MNode("Scalar", name="sc", data_type=_CV(f"{_DT}.Number"), value=1, nullable=False)
        return _sm.MNode("Scalar", name="null", data_type=_CV(f"{_DT}.Null"), value=None, nullable=True)
    _n9 = 0
    for _tk in ("comp-nullable", "comp-not-null", "scalar", "null-literal"):
        for _ek in ("comp-nullable", "comp-not-null", "scalar", "null-literal"):
            if _tk in ("scalar", "null-literal") and _ek in ("scalar", "null-literal"):
                continue  # at component level at least one branch is a component
            _cond = _sm.MComp("cond", _M.roles["MEASURE"], _CV(f"{_DT}.Boolean"), False)
            _ext = {"VirtualCounter._new_ds_name": lambda: "__DS__", "VirtualCounter._new_dc_name": lambda: "__DC__", "isinstance": _sm._isinstance,
                    "DataComponent": lambda **kw: _sm.MComp(kw["name"], kw.get("role"), kw.get("data_type"), kw.get("nullable", True)),
                    "binary_implicit_promotion": lambda a, b, *r: a if getattr(a, "short", "") != "Null" else b}
            try:
                _res = _I9(P, externals=_ext).call(_fif, {"condition": _cond, "true_branch": _branch(_tk), "false_branch": _branch(_ek)}, bound_cls=_CV("vtlengine.Operators.Conditional.If"))
            except _Unm8 as e:
                raise AnalysisError(f"R10.9: If.validate outside the evaluator's language: {e}")
            except _R9 as e:
                raise AnalysisError(f"R10.9: If.validate raised {e.exc} for then={_tk}, else={_ek}")
            _want = "nullable" in (_tk + _ek).replace("not-null", "") or "null-literal" in (_tk, _ek)
            _n9 += 1
            rep.instance("R10.9", f"if/{_tk}/{_ek}", nontrivial=True, sample={"then": _tk, "else": _ek, "nullable": getattr(_res, "nullable", None)})
            if getattr(_res, "nullable", None) != _want:
                rep.add(Finding("R10.9", f"R10.9/if/{_tk}/{_ek}", _fif.module.rel, _fif.node.lineno, _fif.qualname,
                                f"if cond then <{_tk}> else <{_ek}> at component level: the result is declared nullable={getattr(_res, 'nullable', None)}; it must be nullable={_want} "
                                f"(a null in either branch reaches the result): the returned structure otherwise promises a non-nullable component whose data has nulls - and `calc identifier` accepts it"))
    rep.floor("R10.9 cases", _n9, 10)
    # R10.9 (cont.): the same at dataset level - then / else datasets whose measure differs in nullability and type
    _n9d = 0
    for _tn, _en in ((False, True), (True, False), (False, False), (True, True)):
        for _tt, _et in (("Integer", "Number"), ("Number", "Number")):
            _cd = _M.ds("DS_c", ["Id_1"], ["cond"])
            _cd.components["cond"].data_type = _CV(f"{_DT}.Boolean")
            _td, _ed = _M.ds("DS_1", ["Id_1"], ["Me_1"]), _M.ds("DS_2", ["Id_1"], ["Me_1"])
            _td.components["Id_1"] = _ed.components["Id_1"] = _cd.components["Id_1"]  # the three datasets have the same identifier (components compare by identity in the model)
            _td.components["Me_1"].data_type, _td.components["Me_1"].nullable = _CV(f"{_DT}.{_tt}"), _tn
            _ed.components["Me_1"].data_type, _ed.components["Me_1"].nullable = _CV(f"{_DT}.{_et}"), _en
            _extd = {"VirtualCounter._new_ds_name": lambda: "__DS__", "VirtualCounter._new_dc_name": lambda: "__DC__", "isinstance": _sm._isinstance, "Dataset": _M.mk_dataset,
                     "Component": lambda **kw: _sm.MComp(kw["name"], kw["role"], kw.get("data_type"), kw.get("nullable", True))}
            try:
                _resd = _I9(P, externals=_extd, max_steps=40000).call(_fif, {"condition": _cd, "true_branch": _td, "false_branch": _ed}, bound_cls=_CV("vtlengine.Operators.Conditional.If"))
                _gotd = (getattr(_resd.components["Me_1"].data_type, "short", "?"), _resd.components["Me_1"].nullable)
            except _Unm8 as e:
                raise AnalysisError(f"R10.9: If.validate (dataset level) outside the evaluator's language: {e}")
            except _R9 as e:
                _gotd = (f"<raises {getattr(e.exc, 'code', None)}>", None)
            _wantd = ("Number" if "Number" in (_tt, _et) else "Integer", _tn or _en)
            _n9d += 1
            rep.instance("R10.9", f"if-dataset/{_tt}:{_tn}/{_et}:{_en}", nontrivial=True, sample={"then": [_tt, _tn], "else": [_et, _en], "result": list(_gotd)})
            if _gotd != _wantd or (_td.components["Me_1"].data_type.short, _ed.components["Me_1"].data_type.short) != (_tt, _et):
                rep.add(Finding("R10.9", f"R10.9/if-dataset/{_tt}:{_tn}/{_et}:{_en}", _fif.module.rel, _fif.node.lineno, _fif.qualname,
                                f"if DS_c then DS_1 else DS_2 with Me_1 ({_tt}, nullable={_tn}) / ({_et}, nullable={_en}): the result declares Me_1 {_gotd}, expected {_wantd}; the branch operands "
                                f"afterwards declare ({_td.components['Me_1'].data_type.short}, {_ed.components['Me_1'].data_type.short}) - they must keep ({_tt}, {_et}): a null or a 2.5 of "
                                f"the else branch reaches a result declared not nullable / Integer, and a retyped operand changes what later statements see"))
    rep.floor("R10.9 dataset-level cases", _n9d, 8)
    # ---- R10.6: membership DS#comp: validator == structure builder == SELECT list (finite model) ----
    rep.rule("R10.6", "membership: the components semantic analysis declares == the transpiler's intermediate structure == the columns the SQL selects")
    from sa.e6 import Unmodelled as _Unm
    _nm = 0
    for _c in ("M", "A", "T", "N"):
        def _D():
            return _M.ds("DS_1", ["A", "B"], ["M", "N"], ["V"], ["T"])
        try:
            _va, _vb, _vs = _sm.membership_interpreter(_M, _D(), _c), _sm.membership_visitor(_M, _D(), _c), _sm.membership_sql(_M, _D(), _c)
        except _Unm as e:
            raise AnalysisError(f"R10.6 membership #{_c}: construct outside the evaluator's language: {e}")
        _nm += 1
        if _va[0] != "ok" or not hasattr(_va[1], "components"):
            rep.instance("R10.6", f"membership/{_c}", nontrivial=False, sample={"validator": str(_va)[:80]})
            continue
        want = sorted(n for n, _r in _sm.comp_summary(_va[1]))
        gotb = sorted(n for n, _r in _sm.comp_summary(_vb[1])) if _vb[0] == "ok" and _vb[1] is not None else None
        gots = sorted(_sm.sql_columns(_vs[1], list(_D().components))) if _vs[0] == "ok" and not isinstance(_vs[1], str) else None
        rep.instance("R10.6", f"membership/{_c}", nontrivial=True, sample={"declared": want, "structure_visitor": gotb, "sql": gots})
        fb = P.func(_sm.SV + "._build_membership_structure")
        fs = P.func(_sm.TRQ + "._visit_binop_membership")
        if gots != want:
            rep.add(Finding("R10.6", f"R10.6/membership-sql/{_c}", fs.module.rel, fs.node.lineno, fs.qualname,
                            f"DS_1#{_c} on DS_1(ids A,B; measures M,N; attribute T; viral V): semantic analysis declares the components {want} but the generated SELECT delivers {gots}: "
                            f"the returned Dataset declares a component its data does not have (or the other way round)"))
        if gotb != want:
            rep.add(Finding("R10.6", f"R10.6/membership-structure/{_c}", fb.module.rel, fb.node.lineno, fb.qualname,
                            f"DS_1#{_c}: semantic analysis declares {want} but the transpiler's structure for the intermediate result is {gotb}: an operator applied to it in the same statement "
                            f"works on the wrong components"))
    rep.floor("R10.6 membership instances", _nm, 4)
    # ---- R10.7: exists_in returns ONE datapoint per datapoint of its left operand (identifiers stay unique) ----
    rep.rule("R10.7", "exists_in: the right operand is only probed (EXISTS / IN subquery) or joined on a key that is unique in it - the left datapoints are not multiplied")
    import re as _re
    from sa.e6 import Interp as _Interp, Raised as _Raised
    _fe = P.func(_sm.TRQ + "._exists_in_sql")
    _n7 = 0
    for _lab, _lids, _rids in (("equal", ["A", "B"], ["A", "B"]), ("right-superset", ["A"], ["A", "B"]), ("left-superset", ["A", "B"], ["A"])):
        _L, _R = _M.ds("DS_1", _lids, ["M"]), _M.ds("DS_2", _rids, ["M"])
        _ext = {"self._get_dataset_structure": lambda x: {"L": _L, "R": _R}[x], "self._get_dataset_sql": lambda x: f'"{x}"', "quote_name": lambda n: f'"{n}"',
                "self._join_on_clause": lambda ids, a, b: " AND ".join(f'{a}."{i}" = {b}."{i}"' for i in ids) or "1=1", "self._as_subquery": lambda x: f"(SELECT * FROM {x})"}
        try:
            _txt = str(_Interp(P, externals=_ext).call(_fe, {"self": _sm.MTranspiler(), "left_node": "L", "right_node": "R"}))
        except (_Unm, _Raised) as e:
            raise AnalysisError(f"R10.7: _exists_in_sql outside the evaluator's language: {e}")
        _n7 += 1
        rep.instance("R10.7", f"exists_in/{_lab}", nontrivial=True, sample={"sql": _txt[:200]})
        # top level of the statement: text outside every parenthesis
        _depth, _top = 0, ""
        for _ch in _txt:
            if _ch == "(":
                _depth += 1
            elif _ch == ")":
                _depth -= 1
            elif _depth == 0:
                _top += _ch
            if _ch in "()" and _depth == 0:
                _top += " () "
        _mj = _re.search(r"\bJOIN\b", _top, _re.I)
        if _mj:
            _keys = set(_re.findall(r'r\."([^"]+)"', _txt[_txt.upper().rfind(" ON "):])) if " ON " in _txt.upper() else set()
            if not set(_rids) <= _keys:
                rep.add(Finding("R10.7", f"R10.7/exists_in/{_lab}", _fe.module.rel, _fe.node.lineno, _fe.qualname,
                                f"exists_in(DS_1 ids {_lids}, DS_2 ids {_rids}) is written as a JOIN with DS_2 on {sorted(_keys)}: DS_2 has several datapoints per value of those keys "
                                f"(its identifiers are {_rids}), so every matching left datapoint is returned once per match - duplicate identifiers in the result"))
    rep.floor("R10.7 shapes", _n7, 3)
    # ---- R10.10: timeshift on a Time_Period identifier writes a well-formed period (shared with C08 R08.3) ----
    rep.rule("R10.10", "vtl_tp_shift evaluated with DuckDB integer semantics for every period number and every shift in -60..60: the shifted value is a period of the "
                       "same frequency with its number inside 1..limit (a Time_Period identifier of the result is neither malformed nor NULL)")
    from sa import sqlx as _sqlx10
    from sa.checks.c08 import shift_cells as _shift_cells, sql_period_limits as _sql_period_limits
    _macros10 = {k.lower(): v for k, v in _sqlx10.load_macros(P).items()}
    _shift_cells(P, rep, "R10.10", _macros10, _sql_period_limits(_macros10)[2])
    # ---- R10.11: analytic validators leave the operand's components alone (shared with C12) ----
    rep.rule("R10.11", "no validation method of an analytic operator mutates an object reachable from its operands: the operand is the dataset stored for later statements, "
                       "re-typing one of its components in place makes a later statement's declared types disagree with the data")
    from sa.checks.c12 import operand_mutations as _operand_mutations
    _operand_mutations(P, rep, "R10.11", ("vtlengine.Operators.Analytic", "vtlengine.Operators.Aggregation", "vtlengine.Operators.Time"), floor=3)
    # ---- R10.12: dataset-level analytic operators deliver the measures semantic analysis declares ----
    rep.rule("R10.12", "dataset-level analytic operators: the measures Analytic.validate declares == the measure columns of the generated SELECT, for one and two operand measures")
    analytic_measures_agree(P, rep, "R10.12")
    # ---- R10.13: isnull over a mono-measure dataset delivers the measure under the declared name ----
    rep.rule("R10.13", "isnull over a dataset with one measure: measure name declared by Unary.validate == alias delivered by visit_UnaryOp, per measure type")
    isnull_measure_name_agrees(P, rep, "R10.13")
    # ---- R10.14: the structure declared for an n-ary set operator covers every operand (shared with C11) ----
    rep.rule("R10.14", "Set.validate evaluated on three operands: declared type == promotion of all operand types, declared nullable == any operand nullable (the data of a middle operand conform)")
    from sa.checks.c11 import set_operator_result as _sor
    _sor(P, rep, "R10.14")
    rep.assumptions = ["structure objects are changed only through attribute stores / dict mutation of .components (no setattr/__dict__ tricks: none exist in the package)",
                       "values, uniqueness and nullability of the DATA are produced by DuckDB and are not decided here"]


def analytic_measures_agree(P: Program, rep: Report, rule: str) -> None:
    """Dataset-level analytic operators: the measures Analytic.validate declares for the result (count over at most one measure is renamed
    to int_var, otherwise every measure keeps its name) are exactly the measure columns the SELECT of _visit_analytic_dataset delivers,
    for 1 and 2 operand measures.  Both sides are the repository's code, evaluated on abstract structures.  Shared with C06."""
    import re as _re
    from sa import structmodel as _sm
    from sa.e6 import ClassVal as _CV, ExternalObj as _EO, Interp as _I, Raised as _R, Unmodelled as _U
    M = _sm.Model(P)
    fv = P.func("vtlengine.Operators.Analytic.Analytic.validate")
    ft = P.func(_sm.TRQ + "._visit_analytic_dataset")
    n = 0
    for cls_name in ("Count", "Sum", "Avg", "Max", "FirstValue"):
        cq = f"vtlengine.Operators.Analytic.{cls_name}"
        if cq not in P.classes:
            raise AnalysisError(f"{rule}: analytic operator class {cls_name} vanished")
        tok = _I(P).eval(ast.parse("op", mode="eval").body, {"op": None}, fv) if False else None
        got_tok = P.lookup_attr(P.classes[cq], "op")
        tok = _I(P).eval(got_tok[1], {}, fv) if got_tok else None
        for nmeas in (1, 2):
            ds = M.ds("DS_1", ["Id_1", "Id_2"], ["Me_1", "Me_2"][:nmeas])
            ext_v = {"Dataset": M.mk_dataset, "isinstance": _sm._isinstance, "VirtualCounter._new_ds_name": lambda: "__VDS__", "unary_implicit_promotion": lambda a, b=None, c=None: a,
                     "copy": lambda x: _sm.MComp(x.name, x.role, x.data_type, x.nullable) if isinstance(x, _sm.MComp) else x,
                     "Component": lambda **kw: _sm.MComp(kw["name"], kw["role"], kw.get("data_type"), kw.get("nullable", True))}
            try:
                sem = _I(P, externals=ext_v, max_steps=40000).call(fv, {"operand": ds, "partitioning": ["Id_1"], "ordering": None, "window": None, "params": None, "component_name": None},
                                                                   bound_cls=_CV(cq))
                declared = sorted(k for k, c in sem.components.items() if c.role == M.roles["MEASURE"])
            except _R as r:
                declared = [f"<raises {getattr(r.exc, 'code', None)}>"]
            except _U as e:
                raise AnalysisError(f"{rule}: Analytic.validate outside the evaluator's language ({cls_name}): {e}")
            out = M.ds("DS_r", ["Id_1", "Id_2"], declared if not declared[0].startswith("<") else [])
            me = _sm.MTranspiler()
            me.input_datasets = {"DS_1": ds}
            ext_t = {"self._build_over_clause": lambda nd: 'PARTITION BY "Id_1"', "self._build_analytic_expr": lambda op, c, nd: f"F({c})", "self._resolve_partition_cols": lambda nd: ["Id_1"],
                     "get_current_registry": lambda: _EO({"rule_for": lambda c: None}), "self._get_dataset_structure": lambda nd: ds, "self._get_dataset_sql": lambda nd: '"DS_1"',
                     "self._get_output_dataset": lambda: out, "quote_name": lambda x: f'"{x}"', "SQLBuilder": _sm.MBuilder, "isinstance": _sm._isinstance, "self._resolve_udo_name": lambda x: x,
                     "_add_tp_indicator_check": lambda res, *a: res}
            try:
                b = _I(P, externals=ext_t, max_steps=40000).call(ft, {"self": me, "node": _sm.MNode("Analytic", op=tok, operand=_sm.MNode("VarID", value="DS_1"), partition_by=["Id_1"],
                                                                                                     order_by=None, window=None, params=None), "op": tok})
            except (_R, _U) as e:
                raise AnalysisError(f"{rule}: _visit_analytic_dataset outside the evaluator's language ({cls_name}): {e}")
            cols = list(getattr(b, "cols", []))
            delivered = sorted(_re.findall(r'AS "([^"]+)"\s*$', c_)[0] if _re.search(r'AS "([^"]+)"\s*$', c_) else c_.strip('"') for c_ in cols if c_.strip('"') not in ("Id_1", "Id_2"))
            n += 1
            rep.instance(rule, f"analytic/{cls_name}/{nmeas}-measures", nontrivial=True, sample={"operator": cls_name, "measures": nmeas, "declared": declared, "delivered": delivered})
            if declared != delivered or len(set(delivered)) != len(delivered):
                rep.add(Finding(rule, f"{rule}/analytic/{cls_name}/{nmeas}-measures", ft.module.rel, ft.node.lineno, ft.qualname,
                                f"{cls_name.lower()}(DS_1 over (partition by Id_1)) with {nmeas} measure(s): semantic analysis declares the measures {declared}, the generated SELECT delivers "
                                f"{delivered}: the fetch projects the declared components, so a measure that is not delivered under its declared name is missing from the returned data"))
    rep.floor(f"{rule} analytic operator x measure-count cells", n, 10)


def isnull_measure_name_agrees(P: Program, rep: Report, rule: str) -> None:
    """isnull over a dataset with one measure: the measure name Unary.validate declares (bool_var when the measure's type changes, the measure's
    own name for a Boolean measure) == the alias the SELECT of visit_UnaryOp delivers, for a Boolean, a Number and a String measure."""
    import re as _re
    from sa import structmodel as _sm
    from sa.e6 import ClassVal as _CV, Interp as _I, Raised as _R, Unmodelled as _U
    M = _sm.Model(P)
    fv = P.func("vtlengine.Operators.Unary.validate")
    ft = P.func(_sm.TRQ + ".visit_UnaryOp")
    tok = _I(P).eval(ast.parse("tokens.ISNULL", mode="eval").body, {}, ft)
    dataset_kind = _I(P).eval(ast.parse("_DATASET", mode="eval").body, {}, ft)
    n = 0
    for tname in ("Boolean", "Number", "String"):
        ds = M.ds("DS_1", ["Id_1"], ["Me_1"])
        ds.components["Me_1"].data_type = _CV(f"vtlengine.DataTypes.{tname}")
        ext_v = {"Dataset": M.mk_dataset, "isinstance": _sm._isinstance, "VirtualCounter._new_ds_name": lambda: "__VDS__",
                 "copy": lambda x: _sm.MComp(x.name, x.role, x.data_type, x.nullable) if isinstance(x, _sm.MComp) else x,
                 "Component": lambda **kw: _sm.MComp(kw["name"], kw["role"], kw.get("data_type"), kw.get("nullable", True))}
        try:
            sem = _I(P, externals=ext_v, max_steps=40000).call(fv, {"operand": ds}, bound_cls=_CV("vtlengine.Operators.Comparison.IsNull"))
            declared = sorted(k for k, c in sem.components.items() if c.role == M.roles["MEASURE"])
        except _R as r:
            declared = [f"<raises {getattr(r.exc, 'code', None)}>"]
        except _U as e:
            raise AnalysisError(f"{rule}: Unary.validate outside the evaluator's language (IsNull/{tname}): {e}")
        ds2 = M.ds("DS_1", ["Id_1"], ["Me_1"])
        ds2.components["Me_1"].data_type = _CV(f"vtlengine.DataTypes.{tname}")
        out = M.ds("DS_r", ["Id_1"], declared if not declared[0].startswith("<") else [])
        me = _sm.MTranspiler()
        me.input_datasets = {"DS_1": ds2}
        ext_t = {"self._get_node_type": lambda nd: dataset_kind, "self._get_dataset_structure": lambda nd: ds2, "self._get_dataset_sql": lambda nd: '"DS_1"', "self._get_output_dataset": lambda: out,
                 "registry.sql": lambda op, *a, **k: f"({a[0]} IS NULL)", "quote_name": lambda x: f'"{x}"', "SQLBuilder": _sm.MBuilder, "isinstance": _sm._isinstance,
                 "get_current_registry": lambda: None}
        try:
            b = _I(P, externals=ext_t, max_steps=40000).call(ft, {"self": me, "node": _sm.MNode("UnaryOp", op=tok, operand=_sm.MNode("VarID", value="DS_1"))})
        except (_R, _U) as e:
            raise AnalysisError(f"{rule}: visit_UnaryOp outside the evaluator's language (isnull/{tname}): {e}")
        delivered = sorted(_re.findall(r'AS "([^"]+)"\s*$', c_)[0] for c_ in getattr(b, "cols", []) if _re.search(r'AS "([^"]+)"\s*$', c_))
        # the structure an enclosing operator sees for isnull(DS_1) used as its operand
        fs = P.func(_sm.SV + "._resolve_unaryop_structure")
        try:
            sv = _I(P, externals={"self._get_dataset_structure": lambda nd: ds2, "self._build_boolean_result_structure": lambda d: M.ds(d.name, d.get_identifiers_names(), ["bool_var"]),
                                  "isinstance": _sm._isinstance}, max_steps=20000).call(fs, {"self": _sm.MSelf(), "node": _sm.MNode("UnaryOp", op=tok, operand=_sm.MNode("VarID", value="DS_1"))})
            nested = sorted(sv.get_measures_names())
        except (_R, _U) as e:
            raise AnalysisError(f"{rule}: _resolve_unaryop_structure outside the evaluator's language (isnull/{tname}): {e}")
        n += 1
        rep.instance(rule, f"isnull/{tname}", nontrivial=True, sample={"measure_type": tname, "declared": declared, "delivered": delivered, "structure_as_operand": nested})
        if declared == delivered and nested != delivered:
            rep.add(Finding(rule, f"{rule}/isnull-as-operand/{tname}", fs.module.rel, fs.node.lineno, fs.qualname,
                            f"isnull(DS_1) (single measure Me_1 of type {tname}) used as an operand: its SELECT delivers the measure as {delivered}, the structure the enclosing operator "
                            f"resolves says {nested}: the enclosing operator references a column that does not exist"))
        if declared != delivered:
            rep.add(Finding(rule, f"{rule}/isnull/{tname}", ft.module.rel, ft.node.lineno, ft.qualname,
                            f"isnull(DS_1) with the single measure Me_1 of type {tname}: semantic analysis declares the measure(s) {declared}, the generated SELECT delivers {delivered}: the fetch "
                            f"projects the declared components, so the result comes back without its measure"))
    rep.floor(f"{rule} isnull measure types", n, 3)
