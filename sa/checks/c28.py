"""C28 - viral attributes propagate according to the declared rule (DESIGN §3 C28).  Structural clauses decided:

R28.1 "a viral attribute without a rule is rejected at semantic analysis": in the interpreter's statement loop the rule lookup for
      every viral attribute of a result, raising 1-3-3-6, lies on every path to the statement that stores the result
R28.2 every field of a `define viral propagation` statement reaches the registered rule (def-use from the node's fields to the
      ViralPropagationRule constructor), and every field of the rule is read by the SQL generation / registry
R28.3 the aggregate functions the grammar admits (min max sum avg) are keys of both the two-operand and the group table (a
      missing key is a raw KeyError at transpile time); a two-operand form that is folded over N operands is associative
      and commutative - decided by evaluating both bracketings / both argument orders of the parsed SQL form on exact rationals -
      or has an N-ary branch of its own
R28.4 enumerated rules: in the generated CASE the clauses that name two values are tested before the clauses that name one
      (the more specific pattern first), in every function that builds such a CASE
R28.5 input-order independence of the group/window forms (shared order lint: list_reduce(list(col)) fold; known finding) and
      partition-only windows for analytic invocations are built from the RESOLVED partition (partition_op honoured)
R28.6 the propagation helpers are applied at the operator families the property names: binary dataset operators, aggregations,
      joins, hierarchies (vp_* called from their handlers), and not by clauses / set operators
Not decided: the values DuckDB computes from the generated expressions.
"""
from __future__ import annotations

import ast
from fractions import Fraction
from typing import Any, Dict, List, Optional, Set, Tuple

from sa import e7, g4, orderlint, sqlexpr, transp
from sa.cfg import CFG, describe_path
from sa.core import AnalysisError, Finding, FuncInfo, Program, Report, program, src, walk_no_nested

VP = "vtlengine.ViralPropagation"
SQLM = f"{VP}.sql"
TR = transp.TR


def _num(e: sqlexpr.E, env: Dict[str, Fraction]) -> Fraction:
    k = e.kind
    if k in ("ident", "ph"):
        return env[str(e.val)]
    if k == "lit":
        return Fraction(str(e.val))
    if k == "num":
        return Fraction(str(e.val))
    if k == "binop" and e.val in ("+", "-", "*", "/"):
        a, b = _num(e.args[0], env), _num(e.args[1], env)
        return a + b if e.val == "+" else a - b if e.val == "-" else a * b if e.val == "*" else a / b
    if k == "call" and str(e.val).lower() in ("least", "greatest"):
        vals = [_num(a, env) for a in e.args]
        return min(vals) if str(e.val).lower() == "least" else max(vals)
    if k == "paren":
        return _num(e.args[0], env)
    raise AnalysisError(f"pair combiner uses an SQL construct outside the modelled arithmetic: {k}:{e.val}")


def run(rep: Report, tier: str) -> None:  # noqa: C901
    P = program()
    G = g4.load(P)
    NC = e7.node_classes(P)
    rep.explanation = ("CFG must-pass-through on the interpreter's statement loop; def-use from ViralPropagationDef fields to the rule constructor and "
                       "rule-field read inventory; table extraction (_AGG_BINARY/_AGG_GROUP vs grammar); exact rational evaluation of the parsed two-operand "
                       "SQL forms for associativity/commutativity; structural order of CASE arms; order lint and paired-field rule for the window forms; "
                       "call-site inventory of the vp_* helpers per operator handler.")
    for rid, txt in (("R28.1", "rule-less viral attribute rejected on every path before the result is stored"),
                     ("R28.2", "definition fields reach the rule; rule fields are consumed"),
                     ("R28.3", "aggregate tables complete; folded two-operand forms associative+commutative or have an N-ary branch"),
                     ("R28.4", "two-value clauses tested before one-value clauses in every enumerated CASE"),
                     ("R28.5", "group/window forms order-independent; partition-only window built from the resolved partition"),
                     ("R28.6", "vp_* helpers applied in the handlers of the operator families the property names")):
        rep.rule(rid, txt)

    # ---- R28.1 ----
    vs = P.func("vtlengine.Interpreter.InterpreterAnalyzer.visit_Start")
    g = CFG(vs.node, for_nonempty=True)
    # the dict visit_Start returns, and the local holding the statement's result (what is stored into it)
    ret_names = {r.value.id for r in walk_no_nested(vs.node) if isinstance(r, ast.Return) and isinstance(r.value, ast.Name)}
    if len(ret_names) != 1:
        raise AnalysisError("Interpreter.visit_Start: the returned results dict is not a single local")
    RET = next(iter(ret_names))
    stores = g.stmt_nodes(lambda st: isinstance(st, ast.Assign) and isinstance(st.targets[0], ast.Subscript) and isinstance(st.targets[0].value, ast.Name)
                          and st.targets[0].value.id == RET and isinstance(st.value, ast.Name))
    RES = {n.stmt.value.id for n in stores}
    raises = [n for n in g.nodes if n.stmt is not None and isinstance(n.stmt, ast.Raise) and "1-3-3-6" in src(n.stmt)]
    rep.instance("R28.1", "rejection-before-store", sample={"stores": [n.lineno for n in stores], "raise": [n.lineno for n in raises]})
    if not stores or not raises:
        rep.add(transp.fnd("R28.1", "rejection-before-store", vs, vs.node.lineno, "the interpreter's statement loop no longer raises SemanticError 1-3-3-6 for a viral attribute without a rule"))
    else:
        r = raises[0].stmt
        # the guard chain: if isinstance(result, Dataset): for viral_comp in result.get_viral_attributes(): if rule_for(...) is None: raise
        tests = []
        p = getattr(r, "_parent", None)
        while p is not None and not isinstance(p, (ast.FunctionDef, ast.AsyncFunctionDef)):
            if isinstance(p, ast.If):
                tests.append(src(p.test))
            if isinstance(p, ast.For) and "get_viral_attributes" in src(p.iter):
                tests.append("for-all-viral")
            p = getattr(p, "_parent", None)
        ok = any("rule_for" in t and "is None" in t for t in tests) and "for-all-viral" in tests
        if not ok:
            rep.add(transp.fnd("R28.1", "rejection-before-store", vs, r.lineno, f"the 1-3-3-6 rejection is not `for every viral attribute of the result: rule_for(it) is None` (guards: {tests})"))
        outer = [n for n in g.nodes if n.kind == "test" and isinstance(n.stmt, ast.If) and any(f"isinstance({rv}, Dataset)" in src(n.stmt.test) for rv in RES)
                 and any(x is r for x in ast.walk(n.stmt))]
        if not outer:
            rep.add(transp.fnd("R28.1", "rejection-before-store", vs, r.lineno, "the rule check is not guarded by `isinstance(result, Dataset)` in the statement loop"))
        else:
            for s in stores:
                # every path from the loop header to the store passes the check
                heads = [n for n in g.nodes if n.kind == "loop" and any(x is s.stmt for x in ast.walk(n.stmt))]
                for h in heads[-1:]:
                    pth = g.path_avoiding(h, lambda x, s=s: x is s, lambda x: x in outer, follow_exc=False)
                    if pth is not None:
                        rep.add(transp.fnd("R28.1", "rejection-before-store", vs, s.lineno,
                                           "a path through the statement loop stores a result without having checked its viral attributes for a rule", describe_path(pth)))

    # ---- R28.2 ----
    vd = P.func("vtlengine.Interpreter.InterpreterAnalyzer.visit_ViralPropagationDef")
    ctor = next((c for c in ast.walk(vd.node) if isinstance(c, ast.Call) and src(c.func) == "ViralPropagationRule"), None)
    if ctor is None:
        raise AnalysisError("visit_ViralPropagationDef: ViralPropagationRule(...) not found")
    kw = {k.arg: k.value for k in ctor.keywords}

    def resolved(e: ast.AST) -> str:
        if isinstance(e, ast.Name):
            ds = [n.value for n in walk_no_nested(vd.node) if isinstance(n, ast.Assign) and any(isinstance(t, ast.Name) and t.id == e.id for t in n.targets)]
            if len(ds) == 1:
                return src(ds[0])
        return src(e)
    want = {"name": ["node.name"], "signature_type": ["node.signature_type"], "target": ["node.target"],
            "enumerated_clauses": ["node.enumerated_clauses", ".values", ".result"],
            "aggregate_function": ["node.aggregate_clause.function"], "default_value": ["node.default_value"]}
    for fld, needles in want.items():
        rep.instance("R28.2", f"rule.{fld}", sample=resolved(kw[fld])[:80] if fld in kw else None)
        txt = resolved(kw[fld]) if fld in kw else ""
        if not all(n in txt for n in needles):
            rep.add(transp.fnd("R28.2", f"rule.{fld}", vd, ctor.lineno, f"ViralPropagationRule.{fld} is built from `{txt[:80]}`, which does not carry {needles} of the definition"))
    rule_vars = {t.id for n in walk_no_nested(vd.node) if isinstance(n, (ast.Assign, ast.AnnAssign)) and n.value is ctor
                 for t in (n.targets if isinstance(n, ast.Assign) else [n.target]) if isinstance(t, ast.Name)}
    reg_register = any(isinstance(c, ast.Call) and isinstance(c.func, ast.Attribute) and c.func.attr == "register" and c.args
                       and (c.args[0] is ctor or (isinstance(c.args[0], ast.Name) and c.args[0].id in rule_vars)) for c in ast.walk(vd.node))
    rep.instance("R28.2", "registered")
    if not reg_register:
        rep.add(transp.fnd("R28.2", "registered", vd, vd.node.lineno, "the rule built from the definition is not registered"))
    rule_cls = P.cls(f"{VP}.ViralPropagationRule")
    fields = [st.target.id for st in rule_cls.node.body if isinstance(st, ast.AnnAssign) and isinstance(st.target, ast.Name)]
    readers_txt = " ".join(src(f.node) for f in P.iter_functions() if f.module.name in (SQLM, VP) and f.cls is not rule_cls)
    for fld in fields:
        rep.instance("R28.2", f"consumed/{fld}", nontrivial=fld != "name")
        if fld == "name":
            continue
        if f"rule.{fld}" not in readers_txt and f".{fld}" not in readers_txt:
            rep.add(transp.fnd("R28.2", f"consumed/{fld}", vd, vd.node.lineno, f"ViralPropagationRule.{fld} is never read by the registry or the SQL generation: that part of the definition has no effect"))

    # ---- R28.3 ----
    sm = P.module(SQLM)
    tables: Dict[str, Dict[str, ast.AST]] = {}
    for tname in ("_AGG_BINARY", "_AGG_GROUP"):
        d = sm.assigns.get(tname)
        if not isinstance(d, ast.Dict):
            raise AnalysisError(f"{SQLM}.{tname} is not a dict literal")
        tables[tname] = {k.value: v for k, v in zip(d.keys, d.values) if isinstance(k, ast.Constant)}
    gr = G.rules.get("vpClause") or G.rules.get("vpAggregateClause")
    agg_tokens: Set[str] = set()
    for r in G.rules.values():
        if "vp" in r.name.lower():
            for a in r.alts:
                for e in g4.iter_elems(a.elems):
                    ts = G.elem_tokens(e) if e.kind in ("tok", "group") else None
                    for t in ts or []:
                        if t in ("MIN", "MAX", "SUM", "AVG"):
                            agg_tokens.add(G.tokens[t])
    if len(agg_tokens) < 4:
        raise AnalysisError(f"grammar: aggregate functions of viral propagation not found ({agg_tokens})")
    for fn_ in sorted(agg_tokens):
        for tname, tab in tables.items():
            rep.instance("R28.3", f"{tname}/{fn_}")
            if fn_ not in tab:
                f0 = P.func(f"{SQLM}.vp_pair_sql")
                rep.add(transp.fnd("R28.3", f"{tname}/{fn_}", f0, getattr(sm.assigns[tname], "lineno", 1),
                                   f"aggregate function {fn_} (admitted by the grammar) is not a key of {tname}: a rule `aggregate {fn_}` makes transpilation fail with a raw KeyError"))
    rr = P.func(f"{SQLM}.vp_reduce_refs")
    nary: Set[str] = set()
    loop = next((n for n in walk_no_nested(rr.node) if isinstance(n, ast.For)), None)
    for n in walk_no_nested(rr.node):
        if isinstance(n, ast.If) and "aggregate_function" in src(n.test) and any(isinstance(x, ast.Return) for x in n.body) and (loop is None or n.lineno < loop.lineno):
            nary |= {x.value for x in ast.walk(n.test) if isinstance(x, ast.Constant) and isinstance(x.value, str)}
    pts = [(Fraction(1), Fraction(2), Fraction(6)), (Fraction(-3), Fraction(5), Fraction(7)), (Fraction(4), Fraction(4), Fraction(9))]
    for fn_, lam in sorted(tables["_AGG_BINARY"].items()):
        if not isinstance(lam, ast.Lambda) or len(lam.args.args) != 2 or not isinstance(lam.body, ast.JoinedStr):
            raise AnalysisError(f"_AGG_BINARY[{fn_!r}] is not a two-argument lambda returning an f-string")
        pa, pb = lam.args.args[0].arg, lam.args.args[1].arg
        tmpl = "".join(str(v.value) if isinstance(v, ast.Constant) else ("A" if src(v.value) == pa else "B" if src(v.value) == pb else "?") for v in lam.body.values)
        if "?" in tmpl:
            raise AnalysisError(f"_AGG_BINARY[{fn_!r}]: hole that is not one of the two operands")
        tree = sqlexpr.parse(tmpl)

        def f2(x: Fraction, y: Fraction, tree=tree) -> Fraction:
            return _num(tree, {"A": x, "B": y, "a": x, "b": y})
        assoc = all(f2(f2(a, b), c) == f2(a, f2(b, c)) for a, b, c in pts)
        comm = all(f2(a, b) == f2(b, a) for a, b, _c in pts)
        rep.instance("R28.3", f"fold/{fn_}", sample={"template": tmpl, "associative": assoc, "commutative": comm, "own_n_ary_branch": fn_ in nary})
        if not (assoc and comm) and fn_ not in nary:
            a, b, c = pts[0]
            rep.add(transp.fnd("R28.3", f"fold/{fn_}", rr, rr.node.lineno,
                               f"the two-operand form of aggregate rule {fn_} (`{tmpl}`) is {'not associative' if not assoc else 'not commutative'}, yet vp_reduce_refs folds it "
                               f"pairwise over all joined operands: for viral values {a}, {b}, {c} it yields {f2(f2(a, b), c)} (and {f2(f2(c, b), a)} with the operands reversed) "
                               f"instead of {fn_} over the three values"))

    # ---- R28.4 ----
    enumerated_pairs(P, rep, "R28.4")

    # ---- R28.5 ----
    issues, _ = orderlint.lint_program(P)
    for i in issues:
        if i.where.startswith(SQLM):
            rep.instance("R28.5", f"order/{i.where}")
            rep.add(Finding("R28.5", f"R28.5/{i.kind}/{i.where}/{i.construct[:50]}", i.file, i.line, i.where,
                            f"order-dependent SQL ({i.kind}): `{i.construct}` - the fold of an enumerated rule over a group follows the physical order of the datapoints"))
    transp.paired_fields(P, rep, "R28.5", [("Analytic", "partition_by", "partition_op")],
                         "the partition-only window used for viral attributes must be built from the resolved partition (by / except / except all), like the measure window")

    # ---- R28.6 ----
    T = transp.typed(P)
    need = {"_build_ds_ds_binary": {"vp_pair_sql"}, "visit_Aggregation": {"vp_group_sql"}, "visit_RegularAggregation_aggr": {"vp_group_sql"},
            "_build_join_viral_cols": {"vp_reduce_refs"}, "_visit_analytic_dataset": {"vp_group_sql_windowed"}}
    for h, fns in need.items():
        f = T.owners.get(h)
        rep.instance("R28.6", f"applied/{h}")
        if f is None:
            raise AnalysisError(f"anchor vanished: SQLTranspiler.{h}")
        called = {c.func.id for c in ast.walk(f.node) if isinstance(c, ast.Call) and isinstance(c.func, ast.Name)}
        if not fns <= called:
            rep.add(transp.fnd("R28.6", f"applied/{h}", f, f.node.lineno, f"{h} no longer applies the propagation rule ({sorted(fns - called)} not called): viral attributes of its result are not combined by the declared rule"))
    for h in ("visit_RegularAggregation_filter", "visit_RegularAggregation_keep", "visit_RegularAggregation_drop", "visit_RegularAggregation_rename", "_visit_set_operation"):
        f = T.owners.get(h)
        if f is None:
            continue
        rep.instance("R28.6", f"unchanged/{h}")
        called = {c.func.id for c in ast.walk(f.node) if isinstance(c, ast.Call) and isinstance(c.func, ast.Name)}
        bad = {c for c in called if c.startswith("vp_")}
        if bad:
            rep.add(transp.fnd("R28.6", f"unchanged/{h}", f, f.node.lineno, f"{h} applies {sorted(bad)}: clauses and set operators must leave viral attributes unchanged"))
    # ---- R28.7 the values a propagation rule reduces are a MULTISET: gathered with UNION ALL ----
    rep.rule("R28.7", "row sets gathered for a viral-propagation reduction are concatenated with UNION ALL (a plain UNION removes equal child values before sum / avg / enumerated rules see them)")
    from sa import sqlx as _sqlx
    n7 = 0
    for sk in _sqlx.iter_skeletons(P):
        if sk.func is None or "vp_" not in src(sk.func.node):
            continue
        toks = _sqlx.tokenize(sk.text)
        for i_, t_ in enumerate(toks):
            if t_.up == "UNION":
                n7 += 1
                is_all = i_ + 1 < len(toks) and toks[i_ + 1].up == "ALL"
                rep.instance("R28.7", f"union/{sk.func.name}:{sk.line}", nontrivial=True, sample={"all": is_all})
                if not is_all:
                    rep.add(Finding("R28.7", f"R28.7/plain-union/{sk.func.name}", sk.module.rel, sk.line, sk.where,
                                    f"{sk.func.name} gathers the values a viral propagation rule reduces with a plain UNION: two children (or operands) carrying the same values for the same "
                                    f"identifiers collapse into one row, so `aggregate sum` / `avg` and non-idempotent enumerated rules see too few values"))
    rep.floor("R28.7 unions in viral-propagation SQL", n7, 2)
    rep.rule("R28.10", "aggregations (sum / count / min / avg, every grouping): the viral attributes semantic analysis declares for the result are in the transpiler's intermediate structure too")
    from sa.checks.c03 import aggregation_structures
    aggregation_structures(P, rep, "R28.10", viral_only=True)
    rep.rule("R28.9", "aggregate-function rules over a group use the order-independent aggregate of the column, not a fold over list(col)")
    group_forms_by_rule_kind(P, rep, "R28.9")
    # ---- R28.8 the result of DS op DS carries the viral attributes of BOTH operands, in both structure computations ----
    rep.rule("R28.8", "dataset-dataset operators: the result structure has every viral attribute of either operand and no plain attribute (semantic analysis and the transpiler's structure, finite model)")
    from sa import structmodel as _sm
    from sa.e6 import Unmodelled as _Unm
    _M = _sm.Model(P)
    n8 = 0
    fv = P.func("vtlengine.Operators.Binary.dataset_validation")
    fb = P.func(_sm.SV + "._build_ds_ds_binop_structure")
    for lab, li, ri in (("equal-ids", ["A"], ["A"]), ("left-superset", ["A", "B"], ["A"]), ("right-superset", ["A"], ["A", "B"])):
        for lv, rv in ((["V"], []), ([], ["V"]), (["V"], ["W"]), (["V"], ["V"]), (["V", "W"], ["W"])):
            want = tuple(sorted(set(lv) | set(rv)))
            for side, fn_, who in (("interpreter", fv, "semantic analysis"), ("structure-visitor", fb, "the transpiler's StructureVisitor")):
                L, R = _M.ds("DS_1", li, ["M"], lv, ["T"]), _M.ds("DS_2", ri, ["M"], rv, ["U"])
                try:
                    res = _M.interpreter_binary("vtlengine.Operators.Numeric.BinPlus", L, R) if side == "interpreter" else _M.visitor_binary(L, R)
                except _Unm as e:
                    raise AnalysisError(f"R28.8 {side}: construct outside the evaluator's language: {e}")
                n8 += 1
                key = f"binary-virals/{side}/{lab}/L={'+'.join(lv) or '-'}/R={'+'.join(rv) or '-'}"
                rep.instance("R28.8", key, nontrivial=True)
                if res[0] != "ok" or not hasattr(res[1], "components"):
                    rep.add(Finding("R28.8", f"R28.8/{key}", fn_.module.rel, fn_.node.lineno, fn_.qualname,
                                    f"DS_1(ids {li}, viral {lv}) + DS_2(ids {ri}, viral {rv}) is rejected or yields no structure in {who}: {res}"))
                    continue
                got = tuple(sorted(c.name for c in res[1].get_viral_attributes()))
                plain = sorted(c.name for c in res[1].get_attributes())
                if got != want or plain:
                    rep.add(Finding("R28.8", f"R28.8/{key}", fn_.module.rel, fn_.node.lineno, fn_.qualname,
                                    f"DS_1(ids {li}, viral attributes {lv}) + DS_2(ids {ri}, viral attributes {rv}): {who} gives the result the viral attributes {list(got)}"
                                    + (f" and the plain attributes {plain}" if plain else "") + f"; it must carry {list(want)} (every viral attribute of either operand, "
                                    f"combined by its propagation rule when both have it) and no plain attribute"))
    rep.floor("R28.8 cases", n8, 30)
    # ---- R28.11: which viral attributes of a join's operands merge into one propagated column ----
    rep.rule("R28.11", "merged_viral_attribute_names evaluated for every way a name can occur in 2 and 3 operands (absent / viral / plain attribute) x (join key or not): it merges exactly "
                       "when at least two operands carry the name, every carrier has it viral, and it is not a join key - an operand WITHOUT the attribute does not prevent the merge")
    import itertools as _it11
    from sa import structmodel as _sm11
    from sa.e6 import Interp as _I11, Raised as _R11, Unmodelled as _U11
    _M11 = _sm11.Model(P)
    fm = P.func("vtlengine.Operators.Join.merged_viral_attribute_names")
    n11 = 0
    shown11 = 0
    for nops in (2, 3):
        for combo in _it11.product(("absent", "viral", "plain"), repeat=nops):
            for excl in (set(), {"At_1"}):
                ops = []
                for k in combo:
                    comps = {"Id_1": _sm11.MComp("Id_1", _M11.roles["IDENTIFIER"], _M11.number, False), "Me_1": _sm11.MComp("Me_1", _M11.roles["MEASURE"], _M11.number)}
                    if k != "absent":
                        comps["At_1"] = _sm11.MComp("At_1", _M11.roles["VIRAL_ATTRIBUTE" if k == "viral" else "ATTRIBUTE"], _M11.number)
                    ops.append(comps)
                try:
                    got = set(_I11(P, max_steps=8000).call(fm, {"components_per_operand": ops, "exclude": set(excl) | {"Id_1"}}))
                except _R11 as r:
                    got = {f"<raises {getattr(r.exc, 'kind', '?')}>"}
                except _U11 as e:
                    raise AnalysisError(f"R28.11: merged_viral_attribute_names outside the evaluator's language: {e}")
                carriers = [k for k in combo if k != "absent"]
                want = {"At_1"} if len(carriers) >= 2 and all(k == "viral" for k in carriers) and "At_1" not in excl else set()
                n11 += 1
                if n11 <= 3:
                    rep.instance("R28.11", f"merge/{'+'.join(combo)}/key={bool(excl)}", nontrivial=True, sample={"operands": list(combo), "join_key": bool(excl), "merged": sorted(got)})
                if got != want and shown11 < 3:
                    shown11 += 1
                    rep.add(Finding("R28.11", f"R28.11/merge/{'+'.join(combo)}/key={bool(excl)}", fm.module.rel, fm.node.lineno, fm.qualname,
                                    f"a join of {nops} operands in which At_1 is {list(combo)}{' and a join key' if excl else ''}: merged names = {sorted(got)}, expected {sorted(want)}: the attribute is then "
                                    f"not propagated by its rule but kept as alias-qualified columns (or merged although one carrier has it as a plain attribute)"))
    rep.instance("R28.11", "merge-cases", nontrivial=True, sample={"cases": n11})
    rep.floor("R28.11 merge cases", n11, 70)
    # ---- R28.12: an enumerated rule applied to ONE value (row-preserving operators): unary clauses, else the rule's default ----
    rep.rule("R28.12", "_enumerated_single_case evaluated for rules with and without an else: a value named by a unary clause maps to its result, any other value (and NULL) maps to the "
                       "rule's default - NULL when the rule has no else - exactly as the pair form does for an unmatched pair")
    from sa import sqlconc as _sc12, sqlexpr as _se12
    from sa.e6 import ExternalObj as _EO12, Interp as _I12, Raised as _R12, Unmodelled as _U12
    fs12 = P.func(f"{SQLM}._enumerated_single_case")
    n12 = 0
    for has_default in (False, True):
        cl12 = [{"values": ["A"], "result": "A1"}, {"values": ["A", "C"], "result": "AC"}, {"values": [None], "result": "N1"}] if has_default else \
            [{"values": ["A"], "result": "A1"}, {"values": ["A", "C"], "result": "AC"}]
        rule12 = _EO12({"name": "r", "signature_type": "variable", "target": "V", "enumerated_clauses": cl12, "aggregate_function": None, "default_value": "D" if has_default else None})
        try:
            case12 = str(_I12(P).call(fs12, {"rule": rule12, "ref": "v"}))
            parsed12 = _se12.parse(case12)
        except (_U12, _R12) as e:
            raise AnalysisError(f"R28.12: _enumerated_single_case outside the evaluator's language: {e}")
        except _se12.ParseError as e:
            raise AnalysisError(f"R28.12: the generated CASE is outside the SQL evaluator's language: {e}")
        for val in ("A", "C", "Q", None):
            unary = [c_ for c_ in cl12 if len(c_["values"]) == 1 and c_["values"][0] == val]
            want12 = unary[0]["result"] if unary else ("D" if has_default else None)
            try:
                got12 = _sc12.ev(parsed12, {"v": val}, {})
            except _sc12.SqlError as e:
                got12 = f"<error {e}>"
            n12 += 1
            rep.instance("R28.12", f"single/{'else' if has_default else 'no-else'}/{val}", nontrivial=True, sample={"value": val, "result": got12} if n12 <= 3 else None)
            if got12 != want12:
                rep.add(transp.fnd("R28.12", f"single/{'else' if has_default else 'no-else'}/{val}", fs12, fs12.node.lineno,
                                   f"enumerated rule `when \"A\" then \"A1\"; when \"A\" and \"C\" then \"AC\"{'; else \"D\"' if has_default else ''}` applied to the single value {val!r} "
                                   f"(abs(DS), DS + 1): result {got12!r}, the rule gives {want12!r} (an unmatched value takes the default; without an else that is NULL, as for an unmatched pair) "
                                   f"[generated: {case12[:100]}]"))
    rep.floor("R28.12 single-value cells", n12, 8)
    rep.assumptions = ["LEAST/GREATEST/+// on non-null numbers behave as min/max/sum/quotient (exact rationals used)", "grammar tokens MIN MAX SUM AVG are the aggregate functions of vp clauses"]


def group_forms_by_rule_kind(P: Program, rep: Report, rule: str) -> None:
    """vp_group_sql / vp_group_sql_windowed are lowered (finite evaluator) for every kind of rule - the four aggregate functions and
    an enumerated rule.  An aggregate-function rule must use DuckDB's order-independent aggregate over the column; a form that
    gathers the values with list(col) and folds them follows the physical order of the input rows (and for avg the pairwise fold
    is not even the average).  The enumerated fold is the listed known finding (keyed by the skeleton); this rule keys each
    aggregate kind separately, so widening the fold to sum / avg is a different violation."""
    from sa.e6 import ExternalObj, Interp, Raised, Unmodelled
    n = 0
    for fname, extra in (("vp_group_sql", {}), ("vp_group_sql_windowed", {"over_clause": "PARTITION BY p"})):
        f = P.func(f"{SQLM}.{fname}")
        for kind in ("min", "max", "sum", "avg"):
            r = ExternalObj({"name": "r", "signature_type": "variable", "target": "V", "enumerated_clauses": [], "aggregate_function": kind, "default_value": None})
            try:
                sql = Interp(P).call(f, dict({"rule": r, "col_ref": '"V"'}, **extra))
            except (Unmodelled, Raised) as e:
                raise AnalysisError(f"{rule}: {fname} outside the evaluator's language for an aggregate rule `{kind}`: {e}")
            n += 1
            low = str(sql).lower()
            folded = "list_reduce" in low or "list(" in low or "array_agg" in low or "string_agg" in low
            rep.instance(rule, f"group-form/{fname}/{kind}", nontrivial=True, sample={"rule": kind, "sql": str(sql)[:100]})
            if folded:
                rep.add(Finding(rule, f"{rule}/group-form/{fname}/{kind}", f.module.rel, f.node.lineno, f.qualname,
                                f"an aggregate rule `{kind}` over a group is generated as `{str(sql)[:90]}`: the values are gathered in the physical order of the input rows and folded, "
                                f"so permuting the datapoints changes the result" + (" (a pairwise fold of avg is order-dependent: ((a+b)/2+c)/2)" if kind == "avg" else
                                                                                     " whenever the fold is not associative and commutative on its inputs (NULLs, float rounding)")))
    rep.floor(f"{rule} group forms", n, 8)


def enumerated_pairs(P: Program, rep: Report, rule: str) -> None:
    """vp_pair_sql of an enumerated rule generated, parsed and evaluated for every ORDERED pair of operand values (shared with C33: the rule
    names a SET of two values, so (A, B) and (B, A) - the same two datapoints met in the other row order - must give the same result)."""
    # decided by evaluation: vp_pair_sql of an enumerated rule whose clauses are declared in an adversarial order (a one-value clause
    # before a two-value clause sharing its value) is generated by the finite evaluator, the CASE text is parsed and evaluated for every
    # pair of operand values, and compared with the specification (a clause naming both values wins over a clause naming one)
    from sa import sqlconc
    from sa.e6 import ExternalObj, Interp, Raised, Unmodelled
    n_case = 0
    clauses = [{"values": ["A"], "result": "A1"}, {"values": ["A", "B"], "result": "AB"}, {"values": ["B"], "result": "B1"}, {"values": ["C", "B"], "result": "CB"}]
    rule_ = ExternalObj({"name": "r", "signature_type": "variable", "target": "V", "enumerated_clauses": clauses, "aggregate_function": None, "default_value": "D"})
    fp = P.func(f"{SQLM}.vp_pair_sql")
    try:
        case_sql = Interp(P).call(fp, {"rule": rule_, "a_ref": "a", "b_ref": "b"})
    except (Unmodelled, Raised) as e:
        raise AnalysisError(f"{rule}: vp_pair_sql outside the evaluator's language for an enumerated rule: {e}")
    try:
        parsed = sqlexpr.parse(str(case_sql))
    except sqlexpr.ParseError as e:
        raise AnalysisError(f"{rule}: the generated CASE is outside the SQL evaluator's language: {e} [{str(case_sql)[:120]}]")
    shown = 0
    for av in ("A", "B", "C", "X"):
        for bv in ("A", "B", "C", "X"):
            if av == bv:
                continue
            n_case += 1
            two = [c_ for c_ in clauses if len(c_["values"]) == 2 and set(c_["values"]) == {av, bv}]
            one = [c_ for c_ in clauses if len(c_["values"]) == 1 and c_["values"][0] in (av, bv)]
            want = two[0]["result"] if two else (one[0]["result"] if one else "D")
            try:
                got = sqlconc.ev(parsed, {"a": av, "b": bv}, {})
            except sqlconc.SqlError as e:
                got = f"<error {e}>"
            rep.instance(rule, f"pair/{av}+{bv}", sample={"values": [av, bv], "result": got} if n_case <= 3 else None)
            if got != want and shown < 4:
                shown += 1
                rep.add(transp.fnd(rule, f"pair/{av}+{bv}", fp, fp.node.lineno,
                                   f"enumerated rule `when \"A\" then \"A1\"; when \"A\" and \"B\" then \"AB\"; when \"B\" then \"B1\"; when \"C\" and \"B\" then \"CB\"; else \"D\"`: "
                                   f"combining {av!r} and {bv!r} yields {got!r}, the rule says {want!r} (a clause naming both values is tested before a clause naming one) "
                                   f"[generated: {str(case_sql)[:110]}]"))
    rep.floor(f"{rule} value pairs evaluated", n_case, 12)

