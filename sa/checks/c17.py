"""C17 - concurrent API calls behave like sequential ones (DESIGN §3 C17).

R17.1 parser lock discipline: every use of the compiled parser's single global buffer (vtl_cpp_parser.parse /
      get_syntax_error / get_comments / get_input_text, and the traversal ASTVisitor().visit*(cst)) is lexically under
      `with parser_lock:` or in a function all of whose callers are; the lock is re-entrant (create_ast_with_comments
      re-enters create_ast)
R17.2 shared-state inventory: every process-global (module-level name or class attribute) that is written from a function
      reachable from the public API and read from one reachable too must be lock-protected over write→read, thread-local,
      a pure memo, or a function of the process environment only; everything else is a data race on an API path
R17.3 per-call uniqueness of shared external resources: the session directory / database file name of
      configured_connection is derived from a per-call unique value (uuid4 / mkdtemp), not from process-wide values
Not decided: atomicity inside the C++ extension; DuckDB's own thread safety.
"""
from __future__ import annotations

import ast
from typing import Dict, List, Optional, Set, Tuple

from sa import globalsx
from sa.callgraph import callgraph
from sa.core import AnalysisError, Finding, FuncInfo, Program, Report, dotted, program, src, walk_no_nested

API_ROOTS = ["vtlengine.API.run", "vtlengine.API.run_sdmx", "vtlengine.API.semantic_analysis", "vtlengine.API.prettify",
             "vtlengine.API.create_ast", "vtlengine.API.validate_dataset", "vtlengine.API.generate_sdmx",
             "vtlengine.AST.ASTComment.create_ast_with_comments"]
PARSER_CALLS = {"parse", "get_syntax_error", "get_comments", "get_input_text"}

# classification of inventoried globals that are NOT races, one reason each
SAFE: Dict[str, str] = {
    "vtlengine.duckdb_transpiler.Config.config.DECIMAL_WIDTH": "written by set_decimal_config with a value that is a function of the process environment only: every thread writes the same value",
    "vtlengine.duckdb_transpiler.Config.config.DECIMAL_SCALE": "written by set_decimal_config with a value that is a function of the process environment only",
    "vtlengine.duckdb_transpiler.sql._initialized_connections": "WeakSet keyed by connection object; each run owns its connection, and execute_queries passes explicit sql_fragments so the set is not consulted",
    "vtlengine.Utils.__Virtual_Assets.VirtualCounter._instance": "singleton slot written once with an instance that carries no state (counters are class attributes)",
    "vtlengine.Utils.__Virtual_Assets.VirtualCounter.dataset_count": "name generator for intermediate results of ONE statement (__VDS_n__); a concurrent reset can repeat a temporary name, but no API-visible result is keyed by these names (the assignment renames the result) - information, not shown to change results",
    "vtlengine.Utils.__Virtual_Assets.VirtualCounter.component_count": "name generator for intermediate components (__VDC_n__); same reasoning as dataset_count",
    "vtlengine.Operators.Time.Fill_time_series.measures": "written, never read",
    "vtlengine.Operators.Time.Fill_time_series.other_ids": "written, never read",
}
# globals that are safe only while no API-reachable function calls one of their reader methods (re-checked on every run)
SAFE_IF_READERS_UNREACHABLE: Dict[str, Tuple[Tuple[str, ...], str]] = {
    "vtlengine.DataTypes.TimeHandling.TimePeriodConfig._representation": (("external_representation", "get_representation"),
        "written by every run(), but its readers (TimePeriodConfig.get_representation <- TimePeriodHandler.external_representation) are called only from "
        "Cast.cast_scalar / cast_component, which no API path reaches; checked: no API-reachable function calls them"),
}
# globals that are safe as long as every access stays inside the named module prefix (checked on every run)
CONFINED: Dict[str, Tuple[Tuple[str, ...], str]] = {
    "vtlengine.AST.ASTDataExchange.de_ruleset_elements": (("vtlengine.AST.ASTConstructor",),
        "every writer and reader is an AST-constructor method (checked), and the constructor only runs inside `with parser_lock` (R17.1), so accesses are "
        "serialised; what survives from one parse to the next is decided under C23 (R23.3)"),
}


def under_lock(n: ast.AST, lock_names: Set[str]) -> bool:
    p = getattr(n, "_parent", None)
    while p is not None and not isinstance(p, (ast.FunctionDef, ast.AsyncFunctionDef)):
        if isinstance(p, (ast.With, ast.AsyncWith)) and any((dotted(i.context_expr) or "").split(".")[-1] in lock_names for i in p.items):
            return True
        p = getattr(p, "_parent", None)
    return False


def run(rep: Report, tier: str) -> None:
    P = program()
    rep.explanation = ("Every call that touches the compiled parser's global buffer is located and checked for lexical (or caller-side) "
                       "coverage by parser_lock; all process-global state written from functions is inventoried with its writers and "
                       "readers, intersected with call-graph reachability from the public API, and classified; def-use of the session "
                       "directory name.")
    rep.rule("R17.1", "parser buffer accessed only under the re-entrant parser_lock")
    rep.rule("R17.2", "no unsynchronised process-global with a writer and a reader reachable from the public API")
    rep.rule("R17.3", "session directory name is unique per call")
    cg = callgraph(P)

    # ---- R17.1 -------------------------------------------------------------------------------------------
    pm = P.module("vtlengine.AST.Grammar._cpp_parser")
    lk = pm.assigns.get("parser_lock")
    rep.instance("R17.1", "lock-kind", nontrivial=True, sample={"parser_lock": src(lk) if lk is not None else None})
    if lk is None or "RLock" not in src(lk):
        rep.add(Finding("R17.1", "R17.1/lock-kind", pm.rel, getattr(lk, "lineno", 1), "parser_lock",
                        f"parser_lock is {src(lk) if lk is not None else 'missing'}: create_ast_with_comments holds it while calling create_ast, which acquires it again - it must be re-entrant"))
    nsites = 0
    unlocked: Dict[str, List[Tuple[FuncInfo, ast.Call]]] = {}
    for f in P.iter_functions():
        for n in walk_no_nested(f.node):
            if not isinstance(n, ast.Call):
                continue
            d = dotted(n.func) or ""
            is_parser = (d.split(".")[-1] in PARSER_CALLS and ("vtl_cpp_parser" in d or f.module.imports.get(d.split(".")[0], "").endswith(("vtl_cpp_parser." + d, "_cpp_parser." + d))))
            is_visit = isinstance(n.func, ast.Attribute) and n.func.attr.startswith("visit") and isinstance(n.func.value, ast.Call) \
                and (dotted(n.func.value.func) or "").endswith("ASTVisitor")
            if not (is_parser or is_visit):
                continue
            nsites += 1
            covered = under_lock(n, {"parser_lock"})
            rep.instance("R17.1", f"{f.qualname}:{src(n.func)[-40:]}", nontrivial=True, sample={"site": f"{f.module.rel}:{n.lineno}", "call": src(n)[:60], "under_lock": covered})
            if not covered:
                unlocked.setdefault(f.qualname, []).append((f, n))
    for q, sites in unlocked.items():
        callers = cg.callers.get(q, set())
        all_callers_locked = bool(callers) and all(all(under_lock(cs, {"parser_lock"}) for cs in cg.sites.get((c, q), [])) for c in callers)
        if all_callers_locked:
            continue
        f, n = sites[0]
        rep.add(Finding("R17.1", f"R17.1/unlocked/{q}/{src(n.func)[-30:]}", f.module.rel, n.lineno, q,
                        f"`{src(n)[:60]}` reads or replaces the compiled parser's single global parse buffer outside `with parser_lock:`: a parse "
                        f"from another thread in between hands this call the other script's tree/comments (or dangling nodes)"))
    rep.floor("parser buffer access sites", nsites, 2)

    # ---- R17.2 -------------------------------------------------------------------------------------------
    reach = cg.reachable_from([r for r in API_ROOTS if r in P.functions])
    G = globalsx.inventory(P)
    # visitor dispatch and operator tables are not resolved by the call graph: treat every Operators.* validate/… method and every
    # visit_* method of the interpreter/transpiler as reachable from the API (they are dispatched from visit()/MAPPING tables)
    def api_reachable(q: str) -> bool:
        return q in reach or q.startswith(("vtlengine.Operators.", "vtlengine.Interpreter.", "vtlengine.duckdb_transpiler.Transpiler.",
                                           "vtlengine.Utils.__Virtual_Assets.", "vtlengine.Exceptions.", "vtlengine.ViralPropagation.", "vtlengine.AST.DAG.", "vtlengine.AST.ASTTemplate."))
    globalsx.report_shared_instances(P, rep, "R17.2", None, "a concurrent call reads the flags of the other call")
    nglob = 0
    for q, gvar in sorted(G.items()):
        writers = [w for w in list(gvar.writers) + list(gvar.mutators) if api_reachable(w)]
        readers = [r for r in gvar.readers if api_reachable(r)]
        nglob += 1
        locked = False
        rep.instance("R17.2", q, nontrivial=True, sample={"global": q, "writers": writers[:3], "readers": readers[:3], "classified_safe": q in SAFE})
        if not writers:
            continue
        if q in CONFINED:
            pref, why = CONFINED[q]
            outside = [x for x in list(gvar.writers) + list(gvar.mutators) + list(gvar.readers) if not x.startswith(pref)]
            if not outside:
                rep.exemption("R17.2", q, why)
                continue
        if q in SAFE_IF_READERS_UNREACHABLE:
            rnames, why = SAFE_IF_READERS_UNREACHABLE[q]
            # callers (transitively) of the reader functions that are reachable from the API
            bad_callers = []
            for rq in gvar.readers:
                for cq in cg.callers_closure([rq]) | {rq}:
                    # visit_* methods of the interpreter / transpiler are dispatched dynamically (not call-graph edges): they run on every API call
                    dispatched = cq.startswith(("vtlengine.duckdb_transpiler.Transpiler.", "vtlengine.Interpreter.", "vtlengine.duckdb_transpiler.io."))
                    if (cq in reach or dispatched) and cq != rq and not cq.endswith(tuple(rnames)):
                        bad_callers.append(cq)
            direct = [cq for cq in reach if any(isinstance(c_, ast.Call) and isinstance(c_.func, ast.Attribute) and c_.func.attr in rnames for c_ in walk_no_nested(P.functions[cq].node))] if rnames else []
            if not bad_callers and not direct:
                rep.exemption("R17.2", q, why)
                continue
            w0 = P.functions[(direct or bad_callers)[0]]
            rep.add(Finding("R17.2", f"R17.2/{q}", w0.module.rel, w0.node.lineno, w0.qualname,
                            f"process-global `{q}` is written by every run() and is now READ on an API path ({', '.join(x.split('.')[-1] for x in (direct or bad_callers)[:3])}): "
                            f"a concurrent call with another time_period_output_format changes the value between this call's write and its read"))
            continue
        if q in SAFE:
            rep.exemption("R17.2", q, SAFE[q])
            continue
        w0 = P.functions[writers[0]]
        rep.add(Finding("R17.2", f"R17.2/{q}", w0.module.rel, (gvar.writers.get(writers[0]) or gvar.mutators.get(writers[0]) or [w0.node.lineno])[0], writers[0],
                        f"process-global `{q}` is written by {', '.join(x.split('.')[-2] + '.' + x.split('.')[-1] for x in writers[:3])} and read by "
                        f"{', '.join(x.split('.')[-2] + '.' + x.split('.')[-1] for x in readers[:3]) or '(nobody yet)'} on API paths with no lock and no "
                        f"thread-local storage: a concurrent call overwrites the value between this call's write and its read"))
    rep.floor("process-globals inventoried", nglob, 8)

    # ---- R17.3 -------------------------------------------------------------------------------------------
    cc = P.func("vtlengine.duckdb_transpiler.Config.config.configured_connection")
    sd = [n for n in walk_no_nested(cc.node) if isinstance(n, ast.Assign) and any(isinstance(t, ast.Name) and "session" in t.id for t in n.targets)]
    if not sd:
        raise AnalysisError("configured_connection: session directory assignment not found")
    txt = " ".join(src(n.value) for n in sd)
    unique = any(k in txt for k in ("uuid.uuid4", "uuid4(", "uuid.uuid1", "mkdtemp", "token_hex", "secrets."))
    rep.instance("R17.3", "session-dir-unique", nontrivial=True, sample={"definition": txt[:120], "unique_per_call": unique})
    if not unique:
        rep.add(Finding("R17.3", "R17.3/session-dir-unique", cc.module.rel, sd[0].lineno, cc.qualname,
                        f"session directory is `{txt[:80]}`: not unique per call, so two overlapping run() calls of one process share the spill "
                        f"directory / session.duckdb file and the first to finish deletes it under the other"))
    rep.analysed = {"parser_sites": nsites, "globals": nglob, "api_reachable_functions": len(reach)}
    # ---- R17.4 hand-rolled caches: state shared by every call in the process, keyed by less than the computation reads ----
    rep.rule("R17.4", "no hand-rolled cache (lookup + store in a container that outlives the call) whose key omits a parameter the cached value depends on")
    from sa import globalsx as _gx4
    _gx4.report_handrolled_memos(P, rep, "R17.4", ("vtlengine",), "concurrent or successive API calls then observe each other's results")
    rep.rule("R17.5", "a function that declares a module global stores it at one point of any path (publish once): no intermediate value of a process-wide setting is visible "
                      "to another thread between two stores of one call")
    publish_once(P, rep, "R17.5")
    rep.assumptions = ["operator validate methods and visitor visit_* methods are reachable from the API through dispatch tables",
                       "CPython: attribute/global writes are not atomic with respect to a later read in the same call"]


def publish_once(P: Program, rep: Report, rule: str) -> None:
    """A function that declares `global G` stores G at one point of any path: two stores that can both run in one call (not the two arms of one if)
    expose an intermediate value of a process-wide setting to every other thread between them."""
    n = 0
    for f in P.iter_functions():
        gl: Set[str] = set()
        for x in walk_no_nested(f.node):
            if isinstance(x, ast.Global):
                gl |= set(x.names)
        if not gl:
            continue
        parent: Dict[ast.AST, Tuple[ast.AST, str]] = {}
        for p_ in ast.walk(f.node):
            for fld, val in ast.iter_fields(p_):
                for ch in (val if isinstance(val, list) else [val]):
                    if isinstance(ch, ast.AST):
                        parent[ch] = (p_, fld)

        def arms(node: ast.AST) -> Dict[int, str]:
            out: Dict[int, str] = {}
            while node in parent:
                p2, fld = parent[node]
                if isinstance(p2, (ast.If, ast.Try)) and fld in ("body", "orelse", "handlers"):
                    out[id(p2)] = fld
                node = p2
            return out
        sites: Dict[str, List[ast.AST]] = {}
        for st in walk_no_nested(f.node):
            tg = st.targets if isinstance(st, ast.Assign) else [st.target] if isinstance(st, (ast.AugAssign, ast.AnnAssign)) else []
            for t_ in tg:
                for nm in ast.walk(t_):
                    if isinstance(nm, ast.Name) and nm.id in gl and isinstance(nm.ctx, ast.Store):
                        sites.setdefault(nm.id, []).append(st)
        for g, ss in sorted(sites.items()):
            n += 1
            rep.instance(rule, f"{f.qualname}/{g}", nontrivial=True, sample={"global": g, "stores at lines": [s.lineno for s in ss]})
            for i, a in enumerate(ss):
                for b in ss[i + 1:]:
                    aa, ab = arms(a), arms(b)
                    if any(k in ab and ab[k] != v for k, v in aa.items()):
                        continue  # the two arms of one if / try: at most one of them runs
                    rep.add(Finding(rule, f"{rule}/{f.qualname}/{g}", f.module.rel, max(a.lineno, b.lineno), f.qualname,
                                    f"the process-wide `{g}` is stored twice in one call (lines {a.lineno} and {b.lineno}): between the two stores every other thread reads "
                                    f"the intermediate value (a raw, not yet validated / normalised setting) - a concurrent run() then behaves unlike the same run() alone"))
                    break
                else:
                    continue
                break
    rep.floor(f"{rule} (function, declared global) pairs", n, 3)
