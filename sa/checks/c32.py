"""C32 - execution failures surface as VTL errors, not raw engine errors (DESIGN §3 C32).

R32.1 error-channel agreement: every error('…') raised by SQL the engine emits (macro libraries + Python SQL skeletons)
      carries a constant text that is claimed by a branch of the reader that serves its execution site
      (_map_query_error for statement execution and result fetching; map_duckdb_error for loading), and by the branch of
      the SAME code when the text names a VTL code (first-match order matters); every branch returns a coded VTL exception
R32.2 statement execution is wrapped: every conn.execute whose SQL evaluates expressions over data (CREATE TABLE AS,
      UPDATE … SET … = macro(…), INSERT … SELECT) and is reachable from execute_queries sits in a try whose handler catches
      duckdb.Error (the base class, not a subset) and converts through the mapper of its channel
R32.3 no bare Python exception on the execution path: (a) no `raise <builtin exception>` reachable from
      SQLTranspiler.transpile / execute_queries except triaged ones; (b) every AST node class has a visit_ method in the
      SQL transpiler's MRO or is consumed by its parent's handler, so NodeVisitor.generic_visit's bare Exception is unreachable
R32.4 only the macros referenced by the transpiled queries are installed, plus those the load and fetch steps call themselves:
      each macro called by SQL that io code builds (period normalisation while loading INPUTS, period representation while
      fetching RESULTS) is added to the installed closure, and the condition under which it is added mentions only the
      datasets of that step (a result can have a Time_Period column - cast, time_agg, … - when no input has a time column); the
      format -> macro table of execute_queries equals the one of apply_time_period_representation.  Otherwise the step
      fails with a raw CatalogException
R32.5 contradiction rule: a node class X whose SQL handler (visit_X or a helper it passes `node` to) treats node.operand / node.children
      as a DATASET (asks _is_dataset / _get_dataset_sql / _get_dataset_structure / _apply_measures about it) produces a dataset-level
      SELECT; then (a) the operand-type classifier _get_node_type must be able to answer "dataset" for X - not a constant
      component / scalar answer - and (b) _get_dataset_structure must have a branch for X.  Otherwise an enclosing operator
      (abs(X(DS)), X(DS)[filter …], X(DS) = X(DS)) takes the SELECT for a scalar expression or finds no structure: a raw DuckDB
      ParserException or a Python TypeError escapes run() (known findings: Analytic, TimeAggregation)
R32.6 only the closure of referenced macros is installed, computed by sql/__init__.py from its own parse of the library files: that
      parse (_macro_graph, evaluated by the E6 evaluator on the real file texts) must find exactly the MACRO / TYPE objects a
      comment- and string-aware reading of the files finds, each with a parenthesis-balanced text; an object the splitter misses
      (a `;` in a comment or string literal) is silently left out and the first statement that needs it fails with a raw
      CatalogException
Not decided: which DuckDB errors can occur for well-typed inputs; the fall-through of _map_query_error for unknown messages
(recorded as a known finding with a demonstrated input).
"""
from __future__ import annotations

import ast
import re
from typing import Any, Dict, List, Optional, Set, Tuple

from sa import e7, sqlx
from sa.callgraph import callgraph
from sa.checks.c26 import CODE_RE, load_catalogue
from sa.cfg import CFG, describe_path
from sa.core import AnalysisError, Finding, FuncInfo, Program, Report, dotted, norm_locals, program, src, walk_no_nested

EXEC = "vtlengine.duckdb_transpiler.io._execution"
TR = "vtlengine.duckdb_transpiler.Transpiler.SQLTranspiler"
VTL_EXC = {"RunTimeError", "SemanticError", "DataLoadError", "InputValidationException"}


def error_writers(P: Program) -> List[Tuple[str, str, str, int, str]]:
    """(channel-site, constant text, file, line, where) for every error('…') in SQL text"""
    out = []
    macros = sqlx.load_macros(P)
    for m in macros.values():
        for mm in re.finditer(r"\berror\(\s*'((?:[^']|'')*)'", m.body, re.I):
            out.append(("macro", mm.group(1), m.file, m.line + m.body.count("\n", 0, mm.start()), f"macro:{m.name}"))
    for sk in sqlx.iter_skeletons(P):
        for mm in re.finditer(r"\berror\(\s*(?:" + sqlx.HOLE_L + r"(\w+)" + sqlx.HOLE_R + r"|'((?:[^']|'')*)')", sk.text, re.I):
            text = mm.group(2)
            if text is None and sk.func is not None:
                # error(⟦err⟧): follow the local definition of the hole variable
                for n in walk_no_nested(sk.func.node):
                    if isinstance(n, ast.Assign) and any(isinstance(t, ast.Name) and t.id == mm.group(1) for t in n.targets):
                        s2 = sqlx.skeleton_of(n.value)
                        if s2:
                            m3 = re.match(r"\s*'((?:[^']|'')*)'", s2[0])
                            text = m3.group(1) if m3 else s2[0][:40]
            if text is not None:
                out.append(("python", text, sk.module.rel, sk.line, sk.where))
    return out


def _branch_result(P: Program, f: FuncInfo, st: ast.If) -> Tuple[Optional[str], Optional[str]]:
    rets = [n for n in ast.walk(st) if isinstance(n, ast.Return) and n.value is not None]
    cls, code = None, None
    for r in rets:
        c = r.value
        if isinstance(c, ast.Call):
            name = c.func.id if isinstance(c.func, ast.Name) else getattr(c.func, "attr", "")
            if name in VTL_EXC:
                cls = name
                a0 = c.args[0] if c.args else {k.arg: k.value for k in c.keywords}.get("code")
                vals = P.const_values(f, f.module, a0) if a0 is not None else None
                code = sorted(vals)[0] if vals else None
            else:
                for tq in P.resolve_call(f, c)[:1]:
                    g = P.functions.get(tq)
                    if g is not None:
                        for r2 in ast.walk(g.node):
                            if isinstance(r2, ast.Return) and isinstance(r2.value, ast.Call):
                                n2 = r2.value.func.id if isinstance(r2.value.func, ast.Name) else ""
                                if n2 in VTL_EXC:
                                    cls = n2
                                    vals = P.const_values(g, g.module, r2.value.args[0]) if r2.value.args else None
                                    code = sorted(vals)[0] if vals else None
    return cls, code


def _is_message_test(P: Program, cond: ast.AST) -> bool:
    """a condition made only of substring tests on the (lower-cased) message"""
    if isinstance(cond, ast.BoolOp):
        return all(_is_message_test(P, v) for v in cond.values)
    if isinstance(cond, ast.UnaryOp) and isinstance(cond.op, ast.Not):
        return _is_message_test(P, cond.operand)
    return isinstance(cond, ast.Compare) and len(cond.ops) == 1 and isinstance(cond.ops[0], (ast.In, ast.NotIn)) and isinstance(cond.left, ast.Constant) \
        and isinstance(cond.left.value, str) and isinstance(cond.comparators[0], ast.Name) and cond.comparators[0].id.startswith("msg")


Branch = Tuple[ast.AST, Optional[str], Optional[str], int, Tuple[Tuple[FuncInfo, ast.AST], ...]]


def decision_list(P: Program, f: FuncInfo, guards: Tuple[Tuple[FuncInfo, ast.AST], ...] = (), depth: int = 0) -> List[Branch]:
    """Ordered (message condition, exception class, code, line, guards) of a mapper function.  A branch is a top-level
    `if <substring tests on the message>: return <VTL exception>`.  Followed: an enclosing `if G:` that is NOT a message test
    (G becomes a guard of every branch inside it) and the helper idiom `x = helper(msg, …)` + `if x is not None: return x`
    (the helper's own decision list is inlined at that position)."""
    if depth > 3:
        return []
    out: List[Branch] = []

    def block(body: List[ast.stmt], gs: Tuple[Tuple[FuncInfo, ast.AST], ...]) -> None:
        pending: Dict[str, List[Branch]] = {}
        for st in body:
            if isinstance(st, (ast.Assign, ast.AnnAssign)) and isinstance(getattr(st, "value", None), ast.Call):
                tgt = st.targets[0] if isinstance(st, ast.Assign) else st.target
                tq = P.resolve_call(f, st.value)
                if isinstance(tgt, ast.Name) and tq and tq[0] in P.functions and P.functions[tq[0]].module is f.module:
                    pending[tgt.id] = decision_list(P, P.functions[tq[0]], gs, depth + 1)
                continue
            if not isinstance(st, ast.If):
                continue
            t = st.test
            if isinstance(t, ast.Compare) and isinstance(t.left, ast.Name) and t.left.id in pending and len(t.ops) == 1 and isinstance(t.ops[0], ast.IsNot) \
                    and any(isinstance(r, ast.Return) and isinstance(r.value, ast.Name) and r.value.id == t.left.id for r in st.body):
                out.extend(pending.pop(t.left.id))
                continue
            if _is_message_test(P, t):
                cls, code = _branch_result(P, f, st)
                out.append((t, cls, code, st.lineno, gs))
            else:
                block(st.body, gs + ((f, t),))
    block(f.node.body, guards)  # type: ignore[attr-defined]
    return out


def guards_hold(P: Program, guards: Tuple[Tuple[FuncInfo, ast.AST], ...], sql_text: str) -> bool:
    """evaluate the non-message guards of a branch (E6) for a failing statement whose text is `sql_text`"""
    from sa.e6 import Interp, Raised, Unmodelled
    for gf, g in guards:
        it = Interp(P)
        try:
            v = it.eval(g, {"sql_query": sql_text, gf.params[1] if len(gf.params) > 1 else "sql_query": sql_text, "msg": "", "msg_lower": ""}, gf)
        except (Unmodelled, Raised) as e:
            raise AnalysisError(f"guard `{src(g)[:60]}` of {gf.qualname} is outside the evaluator's language: {e}")
        if not it.truth(v):
            return False
    return True


TH = "vtlengine.duckdb_transpiler.io._time_handling"


def _repr_macros(P: Program) -> Dict[str, str]:
    """TimePeriodRepresentation member -> macro name, from _time_handling._REPR_MACRO"""
    m = P.module(TH)
    node = m.assigns.get("_REPR_MACRO")
    if not isinstance(node, ast.Dict):
        raise AnalysisError(f"{TH}._REPR_MACRO is no longer a dict literal")
    out = {}
    for k, v in zip(node.keys, node.values):
        if not (isinstance(v, ast.Constant) and isinstance(v.value, str)):
            raise AnalysisError("_REPR_MACRO value is not a string constant")
        out[src(k).split(".")[-1]] = v.value
    return out


def _macro_channels(P: Program) -> Tuple[Set[str], Set[str], Optional[str]]:
    """(macros that can fail while a result is FETCHED, macros that can fail while a statement runs, the statement text the
    fetch site hands to the mapper)"""
    macros = sqlx.load_macros(P)
    seeds = set(_repr_macros(P).values())
    fetch: Set[str] = set()
    todo = [x for x in seeds if x in macros]
    while todo:
        x = todo.pop()
        if x in fetch:
            continue
        fetch.add(x)
        todo.extend(r for r in macros[x].refs() if r in macros and r not in fetch)
    fr = P.func(f"{EXEC}.fetch_result")
    arg = None
    for n in ast.walk(fr.node):
        if isinstance(n, ast.Call) and getattr(n.func, "id", "") == "_map_query_error" and len(n.args) > 1:
            vals = P.const_values(fr, fr.module, n.args[1])
            arg = sorted(vals)[0] if vals and len(vals) == 1 else 'UPDATE "t" SET "c" = ' + sorted(seeds)[0] + '("c")'
    return fetch, set(macros), arg  # arg None: the fetch site does not map duckdb errors at all


def holds(cond: ast.AST, text_lower: str) -> Optional[bool]:
    """Evaluate a substring-test condition on the known constant prefix of an error message."""
    if isinstance(cond, ast.BoolOp):
        vs = [holds(v, text_lower) for v in cond.values]
        if isinstance(cond.op, ast.And):
            return False if any(v is False for v in vs) else (True if all(v is True for v in vs) else None)
        return True if any(v is True for v in vs) else (False if all(v is False for v in vs) else None)
    if isinstance(cond, ast.UnaryOp) and isinstance(cond.op, ast.Not):
        v = holds(cond.operand, text_lower)
        return None if v is None else not v
    if isinstance(cond, ast.Compare) and len(cond.ops) == 1 and isinstance(cond.ops[0], (ast.In, ast.NotIn)) \
            and isinstance(cond.left, ast.Constant) and isinstance(cond.left.value, str) and "lower" in src(cond.comparators[0]):
        r = cond.left.value in text_lower
        return r if isinstance(cond.ops[0], ast.In) else not r
    return None


def run(rep: Report, tier: str) -> None:
    P = program()
    cat, _ = load_catalogue(P)
    rep.explanation = ("Writers: every error('…') in the two .sql macro libraries and in Python SQL skeletons. Reader: the ordered substring "
                       "tests of _map_query_error lowered to a decision list and evaluated on each writer's constant text. Execute sites: "
                       "call-graph reachability from execute_queries plus enclosing try/except shape. Visitor matrix for the SQL transpiler.")
    for rid, text in [("R32.1", "every SQL error('…') text is claimed by the intended branch of its channel's mapper; all branches return coded VTL exceptions"),
                      ("R32.2", "data-evaluating execute sites are wrapped by a duckdb.Error handler that maps"),
                      ("R32.3", "no bare Python exception reachable from transpile/execute; SQL transpiler handles every AST node class")]:
        rep.rule(rid, text)
    mq = P.func(f"{EXEC}._map_query_error")
    dl = decision_list(P, mq)
    rep.floor("branches of _map_query_error", len(dl), 10)
    for cond, cls, code, line, _gs in dl:
        rep.instance("R32.1", f"branch@{src(cond)[:40]}", nontrivial=True, sample={"condition": src(cond)[:80], "returns": cls, "code": code})
        if cls is None or code is None:
            rep.add(Finding("R32.1", f"R32.1/branch-not-coded/{src(cond)[:40]}", mq.module.rel, line, mq.qualname,
                            f"branch `{src(cond)[:60]}` does not return a coded VTL exception"))
        elif code not in cat:
            rep.add(Finding("R32.1", f"R32.1/branch-code/{code}", mq.module.rel, line, mq.qualname, f"branch returns uncatalogued code {code}"))
    writers = error_writers(P)
    fetch_macros, query_macros, fetch_sql_arg = _macro_channels(P)
    failing_site = "statement execution"
    rep.floor("SQL error() writers", len(writers), 12)
    LOADER_SITES = ("vtlengine.duckdb_transpiler.io._io", "vtlengine.duckdb_transpiler.io._validation")
    for kind, text, file, line, where in writers:
        tl = text.lower()
        channel = "load" if where.startswith(LOADER_SITES) else "query"
        mcode = re.search(r"\b(\d+-\d+-\d+-\d+)\b", text)
        key = f"{where}/{text[:30]}"
        if channel == "load":
            rep.instance("R32.1", f"writer/{key}", nontrivial=True, sample={"writer": text[:60], "channel": "map_duckdb_error"})
            continue
        claimed = None
        # the text of the failing statement as the mapper sees it at the site that serves this writer: the fetch-time
        # representation step passes "" (no statement text); statement execution passes the generated SQL, which contains
        # the macro call / the error(...) expression itself
        if kind == "macro" and where.split(":", 1)[-1] in fetch_macros:
            site_texts = [("result fetching (apply_time_period_representation)" + ("" if fetch_sql_arg is not None else ", where fetch_result applies no error mapping"), fetch_sql_arg)]
        elif kind == "macro":
            site_texts = [("statement execution", f"SELECT {where.split(':', 1)[-1]}(x) FROM t")]
        else:
            site_texts = [("statement execution", f"SELECT CASE WHEN c THEN error('{text}') END FROM t")]
        if kind == "macro" and where.split(":", 1)[-1] in fetch_macros and where.split(":", 1)[-1] in query_macros:
            site_texts.append(("statement execution", f"SELECT {where.split(':', 1)[-1]}(x) FROM t"))
        for site_name, site_sql in site_texts:
            hit = None
            for cond, cls, code, bl, gs in (dl if site_sql is not None else []):
                if holds(cond, tl) and guards_hold(P, gs, site_sql):
                    hit = (cond, cls, code, bl)
                    break
            if hit is None:
                claimed = None
                failing_site = site_name
                break
            claimed = hit
        rep.instance("R32.1", f"writer/{key}", nontrivial=True,
                     sample={"writer": text[:70], "where": where, "claimed_by": src(claimed[0])[:60] if claimed else None, "code": claimed[2] if claimed else None})
        if claimed is None:
            rep.add(Finding("R32.1", f"R32.1/unclaimed/{where}/{(mcode.group(1) if mcode else text[:24])}", file, line, where,
                            f"error('{text[:70]}…') raised by {where} is matched by no branch of _map_query_error when it fails during {failing_site}: the raw duckdb error escapes run()"))
        elif mcode and claimed[2] != mcode.group(1):
            rep.add(Finding("R32.1", f"R32.1/wrong-branch/{mcode.group(1)}", mq.module.rel, claimed[3], mq.qualname,
                            f"error text naming {mcode.group(1)} ({where}) is caught first by branch `{src(claimed[0])[:50]}` which returns "
                            f"{claimed[2]} (first-match order)"))
    # map_duckdb_error total: every return is a DataLoadError
    md = [f for f in P.iter_functions() if f.name == "map_duckdb_error"]
    if len(md) != 1:
        raise AnalysisError("map_duckdb_error not found")
    rets = [n for n in walk_no_nested(md[0].node) if isinstance(n, ast.Return)]
    rep.instance("R32.1", "map_duckdb_error-total", nontrivial=True, sample={"returns": len(rets)})
    for r in rets:
        ok = isinstance(r.value, ast.Call) and (getattr(r.value.func, "id", "") in VTL_EXC or (isinstance(r.value.func, ast.Name) and r.value.func.id.startswith("_")))
        if not ok:
            rep.add(Finding("R32.1", f"R32.1/map_duckdb_error/{src(r)[:40]}", md[0].module.rel, r.lineno, md[0].qualname,
                            f"`{src(r)[:60]}`: the load-error mapper must return a DataLoadError on every path"))

    # ---- R32.2 ---------------------------------------------------------------------------------------------
    cg = callgraph(P)
    nsites = execute_sites_wrapped(P, rep, "R32.2")
    duckdb_handlers_reraise(P, rep, "R32.2")
    # the statement handler maps through _map_query_error and re-raises the mapped error
    eq = P.func(f"{EXEC}.execute_queries")
    hs = [h for n in walk_no_nested(eq.node) if isinstance(n, ast.Try) for h in n.handlers if h.type is not None and "duckdb.Error" in src(h.type)]
    rep.instance("R32.2", "statement-handler-maps", nontrivial=True)
    def _maps(h: ast.AST, depth: int = 0) -> bool:
        for x in ast.walk(h):
            if isinstance(x, ast.Call):
                if getattr(x.func, "id", "") == "_map_query_error":
                    return True
                if depth < 2:
                    for t in P.resolve_call(eq, x):
                        g_ = P.functions.get(t)
                        if g_ is not None and g_.module.name.startswith("vtlengine.duckdb_transpiler") and _maps(g_.node, depth + 1):
                            return True
        return False
    if not hs or not _maps(hs[0]):
        rep.add(Finding("R32.2", "R32.2/statement-handler-maps", eq.module.rel, eq.node.lineno, eq.qualname,
                        "the statement-execution handler no longer maps duckdb.Error through _map_query_error"))
    # fall-through of the mapper: `return error` makes the caller re-raise the raw error
    last = mq.node.body[-1]  # type: ignore[attr-defined]
    rep.instance("R32.2", "mapper-fallthrough", nontrivial=True, sample={"last_statement": src(last)})
    if isinstance(last, ast.Return) and isinstance(last.value, ast.Name) and last.value.id == mq.params[0]:
        rep.add(Finding("R32.2", "R32.2/mapper-fallthrough", mq.module.rel, last.lineno, mq.qualname,
                        "_map_query_error returns the original duckdb error when no pattern matches and the caller re-raises it: any DuckDB "
                        "runtime error without a pattern (e.g. sqrt of a negative number → OutOfRangeException) escapes raw"))

    # ---- R32.4 macros used outside the transpiled queries are installed whenever their use site can run ----------
    rep.rule("R32.4", "macros called by the load / fetch steps are installed under a condition on the datasets those steps work on")
    _macro_availability(P, rep, cg)

    # ---- R32.1 (cont.): the coded exceptions the mappers build can be constructed (placeholders supplied; C26's rule on these sites) ----
    from sa.checks import c26 as _c26
    sub26 = Report("C26", tier)
    _c26.run(sub26, tier)
    nmap = 0
    for f26 in sub26.findings:
        if f26.file.startswith("src/vtlengine/duckdb_transpiler/io/"):
            nmap += 1
            rep.add(Finding("R32.1", f26.key.replace("R26.", "R32.1/R26."), f26.file, f26.line, f26.func,
                            f26.message + " - raised while a DuckDB error is being converted, so the KeyError / TypeError escapes run() instead of the VTL error"))
    rep.instance("R32.1", "mapper-exceptions-constructible", nontrivial=True, sample={"C26 findings at mapper sites": nmap})

    # ---- R32.6 the minimal installer sees every object of the macro library, whole ----
    rep.rule("R32.6", "the statement splitter of the minimal macro installer yields every MACRO / TYPE the library defines, with its complete text")
    _installer_view(P, rep)

    # ---- R32.5 node classes with a dataset-level SQL form are datasets for the classifier and the structure dispatcher ----
    rep.rule("R32.5", "every node class whose SQL handler has a dataset-level form is classified as a possible dataset and has a structure for nested use")
    _dataset_form_agreement(P, rep)

    # ---- R32.3 ---------------------------------------------------------------------------------------------
    roots = [f"{TR}.transpile", f"{EXEC}.execute_queries"]
    reach2 = cg.reachable_from([r for r in roots if r in P.functions])
    BUILTIN_EXC = {"Exception", "ValueError", "TypeError", "KeyError", "NotImplementedError", "RuntimeError", "AssertionError", "IndexError"}
    nraise = 0
    for q in sorted(reach2):
        f = P.functions[q]
        if not f.module.name.startswith(("vtlengine.duckdb_transpiler", "vtlengine.ViralPropagation")):
            continue
        for n in walk_no_nested(f.node):
            if isinstance(n, ast.Raise) and n.exc is not None:
                c = n.exc
                name = (c.func.id if isinstance(c, ast.Call) and isinstance(c.func, ast.Name) else c.id if isinstance(c, ast.Name) else "")
                if name in BUILTIN_EXC:
                    nraise += 1
                    key = f"{q}/{name}"
                    rep.instance("R32.3", f"raise/{key}", nontrivial=True, sample={"site": f"{f.module.rel}:{n.lineno}", "raise": src(n)[:80]})
                    if key in BARE_RAISE_TRIAGED:
                        rep.exemption("R32.3", key, BARE_RAISE_TRIAGED[key])
                    else:
                        rep.add(Finding("R32.3", f"R32.3/bare-raise/{key}", f.module.rel, n.lineno, q,
                                        f"`{src(n)[:70]}` raises a built-in exception on the execution path (after semantic analysis passed)"))
    N = e7.node_classes(P)
    tr = P.cls(TR)
    nvis = 0
    for name, nc in sorted(N.items()):
        if name in ("AST",):
            continue
        m = e7.visitor_method(P, tr, name)
        any_op = [mn for k in P.mro(tr) for mn in k.methods if mn.startswith(f"visit_{name}_")]
        nvis += 1
        rep.instance("R32.3", f"visit/{name}", nontrivial=True)
        if m is None and not any_op and name not in NODE_CONSUMED_BY_PARENT:
            rep.add(Finding("R32.3", f"R32.3/no-visit/{name}", tr.module.rel, tr.node.lineno, TR,
                            f"AST node class {name} has no visit_{name} in the SQL transpiler (nor is it consumed by a parent handler): "
                            f"NodeVisitor.generic_visit raises a bare Exception('No visit_{name} method')"))
    for k, why in NODE_CONSUMED_BY_PARENT.items():
        rep.exemption("R32.3", k, why)
    rep.analysed = {"mapper_branches": len(dl), "error_writers": len(writers), "execute_sites": nsites, "reachable_functions": len(reach2),
                    "ast_node_classes": nvis, "bare_raise_sites": nraise}
    # ---- R32.10 typed macro parameters need the storage compatibility version fixed when the session database is OPENED ----
    rep.rule("R32.10", "the library declares typed macro parameters, so every duckdb.connect(...) of the session database passes storage_compatibility_version in its config (a SET after opening a file database is too late)")
    typed_macros = []
    for sqlf in sorted((P.root / "duckdb_transpiler" / "sql").glob("*.sql")):
        for m_ in re.finditer(r"CREATE\s+(?:OR\s+REPLACE\s+)?MACRO\s+(\w+)\s*\(([^)]*)\)", _strip_sql_comments(sqlf.read_text()), re.I):
            if any(len(p_.split()) >= 2 for p_ in m_.group(2).split(",") if p_.strip() and ":=" not in p_):
                typed_macros.append(m_.group(1))
    cfgm = P.module("vtlengine.duckdb_transpiler.Config.config")
    connects = [(f_, c_) for f_ in P.iter_functions() if f_.module is cfgm for c_ in walk_no_nested(f_.node)
                if isinstance(c_, ast.Call) and src(c_.func) in ("duckdb.connect", "connect")]
    rep.instance("R32.10", "typed-macro-parameters", nontrivial=True, sample={"macros with typed parameters": len(typed_macros), "examples": typed_macros[:4], "connect sites": len(connects)})
    if typed_macros:
        if not connects:
            raise AnalysisError("Config.config: duckdb.connect(...) not found")
        for f_, c_ in connects:
            cfgkw = next((k.value for k in c_.keywords if k.arg == "config"), None)
            keys = {k_.value for k_ in cfgkw.keys if isinstance(k_, ast.Constant)} if isinstance(cfgkw, ast.Dict) else set()
            if "storage_compatibility_version" not in keys:
                rep.add(Finding("R32.10", f"R32.10/connect/{f_.qualname}", f_.module.rel, c_.lineno, f_.qualname,
                                f"`{src(c_)[:80]}` opens the session database without storage_compatibility_version in its config, while {len(typed_macros)} library macros declare typed "
                                f"parameters (e.g. {typed_macros[0]}): with a file-backed session (VTL_USE_IN_MEMORY_DB=0) installing them fails with a raw BinderException - the version "
                                f"of a database file is fixed when it is created, a later SET does not change it"))
    # ---- R32.9 a null Time_Period scalar result passes through the output formatting untouched, in every output format ----
    rep.rule("R32.9", "output formatting of a Time_Period SCALAR: a null value is left alone in every format (the handler is never built from None)")
    from sa.e6 import ClassVal as _CV9, Interp as _I9, Raised as _R9, Unmodelled as _U9
    from sa import structmodel as _sm9
    ff9 = P.func("vtlengine.files.output._time_period_representation.format_time_period_external_representation")

    class _NullHandlerUse(Exception):
        pass

    class _H:
        def __init__(self, v: Any) -> None:
            if not isinstance(v, str):
                raise _NullHandlerUse(repr(v))
            self.v = v

        def __getattr__(self, name: str) -> Any:
            return lambda *a, **k: f"<{name}:{self.v}>"
    for mode9 in ("vtl", "sdmx_gregorian", "sdmx_reporting", "natural"):
        for val9 in (None, "2020-Q1"):
            sc9 = _sm9.MNode("Scalar", name="sc_r", data_type=_CV9("vtlengine.DataTypes.TimePeriod"), value=val9)
            outcome = "ok"
            try:
                _I9(P, externals={"isinstance": _sm9._isinstance, "TimePeriodHandler": _H}).call(ff9, {"operand": sc9, "mode": mode9})
            except _NullHandlerUse as e:
                outcome = f"builds TimePeriodHandler({e})"
            except _U9 as e:
                raise AnalysisError(f"R32.9: format_time_period_external_representation outside the evaluator's language: {e}")
            except _R9 as e:
                outcome = f"raises {getattr(e.exc, 'cls', e.exc)}"
            rep.instance("R32.9", f"scalar/{mode9}/{'null' if val9 is None else 'value'}", nontrivial=True, sample={"format": mode9, "value": val9, "after": sc9.value, "outcome": outcome})
            if val9 is None and (outcome != "ok" or sc9.value is not None):
                rep.add(Finding("R32.9", f"R32.9/scalar-null/{mode9}", ff9.module.rel, ff9.node.lineno, ff9.qualname,
                                f"a null Time_Period scalar result under time_period_output_format={mode9!r}: the formatter {outcome} (value afterwards {sc9.value!r}); TimePeriodHandler(None) raises "
                                f"a raw TypeError, so `sc_r <- cast(<null>, time_period)` makes run() fail with a Python error instead of returning the null scalar"))
            if val9 is not None and (outcome != "ok" or not isinstance(sc9.value, str) or sc9.value == val9 and False):
                rep.add(Finding("R32.9", f"R32.9/scalar-value/{mode9}", ff9.module.rel, ff9.node.lineno, ff9.qualname,
                                f"a Time_Period scalar {val9!r} under format {mode9!r}: the formatter {outcome}, value afterwards {sc9.value!r}"))
    rep.rule("R32.8", "the error mappers cannot fail themselves: partial operations on the engine's message are guarded")
    mapper_partial_operations(P, rep, "R32.8")
    # ---- R32.7 every dataset a statement reads is scheduled for loading: the dependency analysis does not carry aliases across statements ----
    rep.rule("R32.7", "dependency analysis: per-statement state (join aliases) is reset between statements - a dataset hidden by a stale alias is never loaded and the run ends in a raw CatalogException")
    from sa.checks.c12 import per_statement_state
    per_statement_state(P, rep, "R32.7")
    # ---- R32.11: every pattern DuckDB's RE2 cannot run is routed to the Python matcher, whatever else the pattern contains ----
    rep.rule("R32.11", "is_re2_incompatible evaluated on patterns that combine an RE2-unsupported construct (numeric / named backreference, look-around, atomic or conditional group) "
                       "with constructs RE2 accepts ((?:…), (?i), character classes, escapes): the unsupported construct is detected in every combination, and plain patterns stay native")
    from sa.e6 import Interp as _I11, Raised as _R11, Unmodelled as _U11
    fre = P.func("vtlengine.duckdb_transpiler.Transpiler.operators.is_re2_incompatible")
    unsupported = ["(ab)\\1", "(a)(b)\\2x", "(?P<n>a)(?P=n)", "a(?=b)", "a(?!b)", "(?<=a)b", "(?<!a)b", "(?>a+)b", "(a)?(?(1)b|c)", "(a)\\k<n>"]
    harmless = ["", "(?:x|ab)", "(?i)", "[\\1-9]+", "\\d+\\.", "(?:a(?:b))c", "x{2,3}(?s)."]
    n11 = 0
    shown11 = 0
    for u in unsupported:
        for h in harmless:
            for pat in {h + u, u + h}:
                try:
                    got = _I11(P, max_steps=20000).call(fre, {"pattern": pat})
                except (_R11, _U11) as e:
                    raise AnalysisError(f"R32.11: is_re2_incompatible outside the evaluator's language for {pat!r}: {e}")
                n11 += 1
                if n11 <= 3:
                    rep.instance("R32.11", f"re2/{pat}", nontrivial=True, sample={"pattern": pat, "python_matcher": got})
                if got is not True and shown11 < 3:
                    shown11 += 1
                    rep.add(Finding("R32.11", f"R32.11/re2/{u}/{h or 'alone'}", fre.module.rel, fre.node.lineno, fre.qualname,
                                    f"the pattern {pat!r} contains {u!r}, which DuckDB's RE2 rejects, but is_re2_incompatible returns {got!r}: match_characters sends it to the native matcher "
                                    f"and the raw duckdb.InvalidInputException (invalid escape sequence / missing argument) escapes instead of a result or a VTL error"))
                    break
    for h in harmless + ["abc", "^[A-Z]{3}\\d$", "(a|b)+c?"]:
        try:
            got = _I11(P, max_steps=20000).call(fre, {"pattern": h})
        except (_R11, _U11) as e:
            raise AnalysisError(f"R32.11: is_re2_incompatible outside the evaluator's language for {h!r}: {e}")
        n11 += 1
        if got is not False:
            rep.note(f"R32.11: the RE2-compatible pattern {h!r} is routed to the Python matcher (slower, not wrong)")
    rep.instance("R32.11", "patterns", nontrivial=True, sample={"evaluated": n11})
    rep.floor("R32.11 patterns evaluated", n11, 100)
    # ---- R32.12: a NULL scalar result is recognised before any type-specific formatting ----
    rep.rule("R32.12", "_normalize_scalar_value: every path to a formatting call (strftime-based date formatting, rounding) has passed the null test - pd.NaT is a datetime instance and "
                       "NaN a float, so a formatter reached first raises a raw ValueError for a NULL Date / Number scalar")
    fns = P.func(f"{EXEC}._normalize_scalar_value")
    g12 = CFG(fns.node)

    def _is_null_test(n: Any) -> bool:
        return any(isinstance(c, ast.Call) and (dotted(c.func) or "").split(".")[-1] in ("isna", "isnull", "notna", "notnull") for c in g12.calls_at(n)) or \
            any(isinstance(x, ast.Compare) and any(isinstance(o, (ast.Is, ast.IsNot)) for o in x.ops) and any(isinstance(c_, ast.Constant) and c_.value is None for c_ in x.comparators)
                for e_ in g12.own_exprs(n) for x in ast.walk(e_))
    fmt_nodes = [n for n in g12.nodes if any(isinstance(c, ast.Call) and ((dotted(c.func) or "").split(".")[-1].startswith(("_format", "format_", "_round", "round")) or
                                                                         (isinstance(c.func, ast.Attribute) and c.func.attr in ("strftime", "isoformat"))) for c in g12.calls_at(n))]
    if not fmt_nodes or not any(_is_null_test(n) for n in g12.nodes):
        raise AnalysisError("_normalize_scalar_value: formatting calls / null test not found (anchor changed)")
    for fnode in fmt_nodes:
        rep.instance("R32.12", f"format@{src(fnode.stmt)[:40] if fnode.stmt is not None else fnode.kind}", nontrivial=True)
        p12 = g12.path_avoiding(g12.entry, lambda n, fnode=fnode: n is fnode, _is_null_test, follow_exc=False)
        if p12 is not None:
            rep.add(Finding("R32.12", f"R32.12/format-before-null-test/{src(fnode.stmt)[:40] if fnode.stmt is not None else ''}", fns.module.rel, getattr(fnode.stmt, "lineno", fns.node.lineno), fns.qualname,
                            f"`{src(fnode.stmt)[:70] if fnode.stmt is not None else ''}` is reachable without the null test: a NULL Date scalar arrives as pd.NaT (a datetime instance), so "
                            f"`sc_r <- cast(null, date);` ends in a raw `ValueError: NaTType does not support strftime` instead of a scalar holding null", describe_path(p12)))
    # ---- R32.13: rounding a fetched scalar is total over the floats the engine can return ----
    rep.rule("R32.13", "_round_significant evaluated on every kind of float DuckDB can return for a scalar (zero, tiny, huge, +/-infinity): it returns a float, it does not raise "
                       "(exp(1000) and power(10, 400) overflow to infinity)")
    frs = P.func(f"{EXEC}._round_significant")
    n13 = 0
    for v13 in (0.0, -0.0, 1.5, -123456.789, 5e-324, -2.5e-300, 1.7976931348623157e308, float("inf"), float("-inf")):
        for digits in (15, 6, 1):
            try:
                got13 = _I11(P, max_steps=4000).call(frs, {frs.params[0]: v13, frs.params[1]: digits})
                bad13 = None if isinstance(got13, float) or isinstance(got13, int) else f"returns {got13!r}"
            except _R11 as r:
                bad13 = f"raises {getattr(r.exc, 'kind', '?')} ({str(getattr(r.exc, 'kwargs', {}).get('message', ''))[:60]})"
            except _U11 as e:
                raise AnalysisError(f"R32.13: _round_significant outside the evaluator's language: {e}")
            n13 += 1
            if digits == 15:
                rep.instance("R32.13", f"round/{v13!r}", nontrivial=True, sample={"value": repr(v13), "outcome": bad13 or "float"})
            if bad13 and digits == 15:
                rep.add(Finding("R32.13", f"R32.13/round/{v13!r}", frs.module.rel, frs.node.lineno, frs.qualname,
                                f"_round_significant({v13!r}, {digits}) {bad13}: a scalar result with that value (e.g. `sc_r <- exp(1000);`) makes run() end in a raw Python exception "
                                f"instead of returning the scalar"))
    rep.floor("R32.13 values x digits", n13, 20)
    # ---- R32.14: round / trunc with a precision that is a column expression are applied to DOUBLE ----
    rep.rule("R32.14", "registry SQL of round / trunc with a non-constant precision operand (a component): the value operand is cast to DOUBLE first - DuckDB has no "
                       "ROUND(DECIMAL, <non-constant>) and raises NotImplementedException, which no VTL error maps")
    from sa import registryx as _rx14
    import re as _re14
    REG14 = _rx14.extract(P)
    n14 = 0
    for op14 in ("round", "trunc"):
        try:
            sql14 = str(_rx14.registry_sql(REG14, op14, '"Me_1"', '"Me_2"'))
        except Exception as e:  # noqa: BLE001
            raise AnalysisError(f"R32.14: registry SQL of {op14} not evaluable: {e}")
        n14 += 1
        rep.instance("R32.14", f"precision/{op14}", nontrivial=True, sample={"operator": op14, "sql": sql14})
        m14 = _re14.match(r"\s*(\w+)\s*\((.*)\)\s*$", sql14, _re14.S)
        first = ""
        if m14:
            depth, cur = 0, ""
            for ch in m14.group(2):
                if ch == "(":
                    depth += 1
                if ch == ")":
                    depth -= 1
                if ch == "," and depth == 0:
                    break
                cur += ch
            first = cur.strip()
        if not _re14.search(r"(AS\s+(DOUBLE|FLOAT|REAL)\s*\)|::\s*(DOUBLE|FLOAT|REAL))\s*$", first, _re14.I):
            e14 = next((e_ for e_ in REG14 if e_.token == op14), None)
            rep.add(Finding("R32.14", f"R32.14/precision/{op14}", "src/vtlengine/duckdb_transpiler/Transpiler/operators.py", getattr(e14, "line", 1), f"registry[{op14}]",
                            f"{op14}(Me_1, Me_2) with the number of digits given by a component is generated as `{sql14}`: the value operand `{first}` is not cast to DOUBLE, and Number "
                            f"components are DECIMAL - DuckDB raises NotImplementedException (ROUND(DECIMAL, INTEGER) with non-constant precision), which escapes run() raw"))
    rep.floor("R32.14 precision operators", n14, 2)
    rep.assumptions = ["a DuckDB error() call surfaces as duckdb.InvalidInputException whose text contains the constant message",
                       "substring tests on the dynamic suffix of a message are treated as not matching"]


def enclosing_duckdb_handler(n: ast.AST) -> str:
    """'duckdb.Error' | '<narrower types>' | 'none' for the innermost try whose BODY contains n and has a duckdb handler."""
    c = n
    p = getattr(n, "_parent", None)
    while p is not None and not isinstance(p, (ast.FunctionDef, ast.AsyncFunctionDef)):
        if isinstance(p, ast.Try) and any(c is st or c in ast.walk(st) for st in p.body):
            for h in p.handlers:
                t = src(h.type) if h.type is not None else "BaseException"
                if "duckdb" in t or t in ("Exception", "BaseException"):
                    if t in ("duckdb.Error", "Exception", "BaseException") or "duckdb.Error" in t:
                        return "duckdb.Error"
                    return t
                if isinstance(h.type, ast.Name) and h.type.id.isupper():
                    return f"{h.type.id} (a tuple constant)"
        c = p
        p = getattr(p, "_parent", None)
    return "none"


BARE_RAISE_TRIAGED: Dict[str, str] = {
    "vtlengine.ViralPropagation.sql.vp_reduce_refs/ValueError": "guards an empty list; every caller passes >= 1 column reference (checked by reading the three call sites)",
}
NODE_CONSUMED_BY_PARENT: Dict[str, str] = {
    "NvlJoinPair": "read field-by-field by the JoinOp handler (node.nvl pairs), never dispatched",
    "ASTScalarType": "type annotation inside operator signatures; visit_Operator stores parameters without visiting their types",
    "ComponentType": "type annotation inside operator signatures; never dispatched by the SQL transpiler",
    "DatasetType": "type annotation inside operator signatures; never dispatched by the SQL transpiler",
}


def _macro_availability(P: Program, rep: Report, cg, rule: str = "R32.4") -> None:  # noqa: C901
    eq = P.func(f"{EXEC}.execute_queries")
    # (1) what execute_queries adds to the closure, and under which conditions
    init_calls = [n for n in ast.walk(eq.node) if isinstance(n, ast.Call) and getattr(n.func, "id", "") == "initialize_time_types"]
    if len(init_calls) != 1:
        raise AnalysisError("execute_queries: exactly one initialize_time_types(...) call expected")
    frag_kw = {k.arg: k.value for k in init_calls[0].keywords}.get("sql_fragments")
    if frag_kw is None:
        rep.instance(rule, "all-macros-installed", sample="initialize_time_types is called without a fragment list: every macro is installed")
        return
    if not isinstance(frag_kw, ast.Name):
        raise AnalysisError("execute_queries: sql_fragments is not a local list variable")
    lst = frag_kw.id
    params = set(eq.params)
    added: Dict[str, Set[str]] = {}  # macro name -> parameters mentioned by the enclosing conditions (union over its add sites: each site listed)
    sites: List[Tuple[str, Set[str], int]] = []

    def walk(body: List[ast.stmt], conds: Tuple[ast.AST, ...]) -> None:
        for st in body:
            if isinstance(st, ast.If):
                walk(st.body, conds + (st.test,))
                walk(st.orelse, conds + (st.test,))
                continue
            if isinstance(st, (ast.For, ast.While, ast.With, ast.Try)):
                for fld in ("body", "orelse", "finalbody"):
                    walk(getattr(st, fld, []) or [], conds)
                continue
            for n in ast.walk(st):
                if isinstance(n, ast.Call) and isinstance(n.func, ast.Attribute) and n.func.attr in ("append", "extend") and src(n.func.value) == lst and n.args:
                    names = _const_strings(P, eq, n.args[0])
                    mentioned = {x.id for c in conds for x in ast.walk(c) if isinstance(x, ast.Name) and x.id in params}
                    for nm in names:
                        sites.append((nm, mentioned, n.lineno))
    walk(eq.node.body, ())  # type: ignore[attr-defined]
    for nm, mentioned, _ln in sites:
        added.setdefault(nm, set())
    # (2) use sites outside the queries: SQL skeletons of the io package that call a vtl_ macro, and the representation table
    reach_fetch = cg.reachable_from([f"{EXEC}.fetch_result"])
    reach_load = cg.reachable_from([q for q in (f"{EXEC}.load_scheduled_datasets",) if q in P.functions])
    uses: List[Tuple[str, str, str, int, str]] = []  # macro, step, file, line, where
    for sk in sqlx.iter_skeletons(P):
        if sk.func is None or not sk.module.name.startswith("vtlengine.duckdb_transpiler.io"):
            continue
        for mname in sorted(set(re.findall(r"\b(vtl_\w+)\s*\(", sk.text))):
            step = "fetch" if sk.func.qualname in reach_fetch else "load" if sk.func.qualname in reach_load else None
            if step:
                uses.append((mname, step, sk.module.rel, sk.line, sk.func.qualname))
    rm = _repr_macros(P)
    th = P.module(TH)
    ar = P.func(f"{TH}.apply_time_period_representation")
    if ar.qualname not in reach_fetch:
        raise AnalysisError("apply_time_period_representation is no longer reached from fetch_result")
    for member, mname in sorted(rm.items()):
        uses.append((mname, "fetch", th.rel, ar.node.lineno, f"{ar.qualname} (_REPR_MACRO[{member}])"))
    rep.floor(f"{rule} macro use sites outside the transpiled queries", len(uses), 5)
    ALLOWED = {"fetch": {"output_datasets", "output_scalars", "time_period_output_format"}, "load": {"input_datasets", "path_dict", "dataframe_dict"}}
    STEP_TXT = {"fetch": "while a RESULT is fetched", "load": "while an INPUT is loaded"}
    for mname, step, file, line, where in uses:
        my_sites = [(m_, l_) for n_, m_, l_ in sites if n_ == mname]
        rep.instance(rule, f"{step}/{mname}/{where.split('.')[-1][:40]}", sample={"macro": mname, "used by": where, "added under conditions on": [sorted(m_) for m_, _l in my_sites]})
        if not my_sites:
            rep.add(Finding(rule, f"{rule}/not-installed/{mname}", eq.module.rel, init_calls[0].lineno, eq.qualname,
                            f"macro {mname} is called {STEP_TXT[step]} ({where}) but execute_queries never adds it to the installed closure: a script whose statements do not mention it "
                            f"fails with a raw CatalogException"))
            continue
        if not any(m_ <= ALLOWED[step] for m_, _l in my_sites):
            m_, l_ = my_sites[0]
            rep.add(Finding(rule, f"{rule}/wrong-condition/{mname}", eq.module.rel, l_, eq.qualname,
                            f"macro {mname} is called {STEP_TXT[step]} ({where}) but is only installed under a condition on {sorted(m_ - ALLOWED[step])}: "
                            + ("a result can have a time column that no input has (cast(…, time_period), time_agg, period literals), and then the fetch-time UPDATE fails with a raw CatalogException"
                               if step == "fetch" else "an input with a time column is then normalised with a macro that was not installed")))
    # (3) the two format -> macro tables agree
    table = None
    for n in ast.walk(eq.node):
        if isinstance(n, ast.Dict) and n.values and all(isinstance(v, ast.Constant) and isinstance(v.value, str) and v.value.startswith("vtl_") for v in n.values):
            table = {k.value if isinstance(k, ast.Constant) else src(k): v.value for k, v in zip(n.keys, n.values)}  # type: ignore[union-attr]
    if table is not None:
        enum_vals = _enum_values(P, "vtlengine.Model.TimePeriodRepresentation") if hasattr(P, "classes") else {}
        for member, mname in sorted(rm.items()):
            fmt = enum_vals.get(member)
            rep.instance(rule, f"table/{member}", sample={"format": fmt, "fetch uses": mname, "installed": table.get(fmt)})
            if fmt is not None and table.get(fmt) != mname:
                rep.add(Finding(rule, f"{rule}/table/{member}", eq.module.rel, eq.node.lineno, eq.qualname,
                                f"output format {fmt!r}: the fetch step calls {mname} but execute_queries installs {table.get(fmt)!r} for it"))


def _const_strings(P: Program, f: FuncInfo, e: ast.AST) -> Set[str]:
    """string constants an expression can evaluate to (constant, local variable bound once to a constant / dict.get over a literal dict)"""
    if isinstance(e, ast.Constant) and isinstance(e.value, str):
        return {e.value}
    if isinstance(e, ast.Name):
        out: Set[str] = set()
        for n in ast.walk(f.node):
            if isinstance(n, ast.Assign) and any(isinstance(t, ast.Name) and t.id == e.id for t in n.targets):
                out |= _const_strings(P, f, n.value)
        return out
    if isinstance(e, ast.Call) and isinstance(e.func, ast.Attribute) and e.func.attr == "get" and isinstance(e.func.value, ast.Dict):
        out2 = {v.value for v in e.func.value.values if isinstance(v, ast.Constant) and isinstance(v.value, str)}
        for a in e.args[1:]:
            out2 |= _const_strings(P, f, a)
        return out2
    if isinstance(e, ast.Subscript) and isinstance(e.value, ast.Dict):
        return {v.value for v in e.value.values if isinstance(v, ast.Constant) and isinstance(v.value, str)}
    if isinstance(e, (ast.List, ast.Tuple)):
        out3: Set[str] = set()
        for x in e.elts:
            out3 |= _const_strings(P, f, x)
        return out3
    return set()


def _enum_values(P: Program, cq: str) -> Dict[str, str]:
    ci = P.classes.get(cq)
    out: Dict[str, str] = {}
    if ci is None:
        return out
    for st in ci.node.body:
        if isinstance(st, ast.Assign) and isinstance(st.targets[0], ast.Name) and isinstance(st.value, ast.Constant) and isinstance(st.value.value, str):
            out[st.targets[0].id] = st.value.value
    return out


def _dataset_form_agreement(P: Program, rep: Report) -> None:  # noqa: C901
    SV = "vtlengine.duckdb_transpiler.Transpiler.structure_visitor.StructureVisitor"
    ci = P.classes[TR]
    NC = e7.node_classes(P)
    ASKS = ("_is_dataset", "_get_dataset_sql", "_apply_measures", "_get_dataset_structure")

    def uses_dataset(f: FuncInfo, depth: int, seen: Set[str]) -> Optional[int]:
        if f.qualname in seen or depth > 2:
            return None
        seen.add(f.qualname)
        for n in walk_no_nested(f.node):
            if isinstance(n, ast.Call) and isinstance(n.func, ast.Attribute) and isinstance(n.func.value, ast.Name) and n.func.value.id == "self":
                if n.func.attr in ASKS and n.args and any(isinstance(x, ast.Name) and x.id == "node" for x in ast.walk(n.args[0])) and src(n.args[0]) != "node":
                    return n.lineno
                g = P.lookup_method(ci, n.func.attr)
                if g is not None and any(isinstance(a, ast.Name) and a.id == "node" for a in n.args):
                    r = uses_dataset(g, depth + 1, seen)
                    if r is not None:
                        return r
        return None
    d_sql: Dict[str, Tuple[FuncInfo, int]] = {}
    for name, f in sorted(ci.methods.items()):
        if name.startswith("visit_") and name[6:] in NC:
            ln = uses_dataset(f, 0, set())
            if ln is not None:
                d_sql[name[6:]] = (f, ln)
    rep.floor("R32.5 node classes with a dataset-level SQL form", len(d_sql), 8)
    gt, gs = P.func(f"{SV}._get_node_type"), P.func(f"{SV}._get_dataset_structure")

    def branches(f: FuncInfo) -> Dict[str, List[ast.If]]:
        out: Dict[str, List[ast.If]] = {}
        for n in ast.walk(f.node):
            if isinstance(n, ast.If):
                for c in ast.walk(n.test):
                    if isinstance(c, ast.Call) and getattr(c.func, "id", "") == "isinstance" and len(c.args) == 2:
                        t = c.args[1]
                        for e_ in (t.elts if isinstance(t, ast.Tuple) else [t]):
                            lst = out.setdefault(src(e_).split(".")[-1], [])
                            if n not in lst:
                                lst.append(n)
        return out
    bt, bs = branches(gt), branches(gs)
    for X, (hf, ln) in sorted(d_sql.items()):
        rep.instance("R32.5", f"dataset-form/{X}", nontrivial=True, sample={"handler": hf.name, "asks-about-operand-at": ln, "classifier-branch": X in bt, "structure-branch": X in bs})
        if X not in bs:
            rep.add(Finding("R32.5", f"R32.5/no-structure/{X}", gs.module.rel, gs.node.lineno, gs.qualname,
                            f"{hf.name} has a dataset-level form (it asks about node's operand as a dataset at line {ln}) but _get_dataset_structure has no branch for {X}: "
                            f"an operator applied to it in the same statement ({X}(DS)[filter …], abs({X}(DS))) finds no structure and run() ends in a raw Python TypeError / DuckDB error"))
        if X not in bt:
            rep.add(Finding("R32.5", f"R32.5/classifier/{X}", gt.module.rel, gt.node.lineno, gt.qualname,
                            f"{hf.name} has a dataset-level form but _get_node_type has no branch for {X} and answers `scalar`: an enclosing operator writes the dataset-level SELECT where "
                            f"a scalar expression belongs (DuckDB ParserException)"))
        else:
            consts = []
            for br in bt[X]:
                rets = [r for r in br.body if isinstance(r, ast.Return)]
                consts.append(rets[0].value.id if rets and isinstance(rets[0].value, ast.Name) and rets[0].value.id in ("_COMPONENT", "_SCALAR") else None)
            if consts and all(c is not None for c in consts):
                rep.add(Finding("R32.5", f"R32.5/classifier-constant/{X}", gt.module.rel, bt[X][0].lineno, gt.qualname,
                                f"{hf.name} has a dataset-level form but _get_node_type answers the constant {consts[0]} for every {X}: abs({X}(DS …)) is written as a scalar "
                                f"function around a SELECT (DuckDB ParserException)"))


def _installer_view(P: Program, rep: Report) -> None:
    import re as _re
    from sa.e6 import Interp, Raised, Unmodelled
    SQLPKG = "vtlengine.duckdb_transpiler.sql"
    f = P.func(f"{SQLPKG}._macro_graph")
    m = P.module(SQLPKG)
    files_node = m.assigns.get("_SQL_FILES")
    names = [c.value for c in ast.walk(files_node) if isinstance(c, ast.Constant) and isinstance(c.value, str) and c.value.endswith(".sql")] if files_node is not None else []
    if not names:
        raise AnalysisError("sql/__init__.py: _SQL_FILES no longer lists the .sql files as constants")
    sql_dir = P.root / "duckdb_transpiler" / "sql"
    text = "\n".join((sql_dir / n).read_text() for n in names if (sql_dir / n).exists())
    it = Interp(P, externals={"_read_full_sql": lambda: text, "_MacroGraph": lambda **kw: kw}, max_steps=3000000)
    try:
        g = it.call(f, {})
    except (Unmodelled, Raised) as e:
        raise AnalysisError(f"R32.6: _macro_graph outside the evaluator's language: {e}")
    seen = dict(g["statements"])
    # reference reading: comments and string literals removed, then CREATE … MACRO|TYPE name
    stripped = _re.sub(r"--[^\n]*", "", text)
    stripped = _re.sub(r"'(?:[^']|'')*'", "''", stripped)
    defined = []
    for mm in _re.finditer(r"\bCREATE\s+(?:OR\s+REPLACE\s+)?(MACRO|TYPE)\s+([A-Za-z_]\w*)", stripped, _re.I):
        if mm.group(2) not in defined:
            defined.append(mm.group(2))
    rep.floor("R32.6 objects defined by the library", len(defined), 40)
    rel = "src/vtlengine/duckdb_transpiler/sql/__init__.py"
    for name in defined:
        st = seen.get(name)
        rep.instance("R32.6", f"object/{name}", nontrivial=True, sample={"seen_by_installer": st is not None})
        if st is None:
            rep.add(Finding("R32.6", f"R32.6/invisible/{name}", rel, f.node.lineno, f.qualname,
                            f"the library defines {name} but the installer's statement splitter does not see it (a `;` in a comment or string literal before its CREATE splits the statement): "
                            f"the minimal install silently leaves it out and the first query or fetch step that calls it fails with a raw CatalogException"))
            continue
        body = _re.sub(r"'(?:[^']|'')*'", "''", _re.sub(r"--[^\n]*", "", st))
        if body.count("(") != body.count(")"):
            rep.add(Finding("R32.6", f"R32.6/truncated/{name}", rel, f.node.lineno, f.qualname,
                            f"the installer's text of {name} is not parenthesis-balanced: the splitter cut the statement at a `;` inside a comment or string literal, so installing it is a raw ParserException"))


def mapper_partial_operations(P: Program, rep: Report, rule: str) -> None:
    """The functions that turn an engine error into a VTL error run INSIDE the except handler: an exception of their own replaces the
    VTL error by a raw Python one.  Operations on the engine's message that are partial - indexing the result of re.findall / a
    regex `.groups()`, `.group()` applied directly to re.search / re.match (None when nothing matches), `.split(...)[k]` with k >= 1,
    `.index(...)`, int()/float() of a slice of the message - must sit in a try block or under a test of the value they depend on."""
    mappers = [f for f in P.iter_functions() if f.module.name.startswith("vtlengine.duckdb_transpiler") and f.cls is None
               and (f.name in ("map_duckdb_error", "_map_query_error", "_map_load_error") or f.name.startswith("_map_") and "error" in f.name)]
    if len(mappers) < 2:
        raise AnalysisError(f"{rule}: error mapper functions (map_duckdb_error, _map_query_error) not found")
    n = 0
    for f in mappers:
        parents: Dict[int, ast.AST] = {}
        for x in ast.walk(f.node):
            for ch in ast.iter_child_nodes(x):
                parents[id(ch)] = x

        def guarded(x: ast.AST, dep: str) -> bool:
            cur = parents.get(id(x))
            while cur is not None and cur is not f.node:
                if isinstance(cur, ast.Try):
                    return True
                if isinstance(cur, (ast.If, ast.IfExp)) and dep and dep in src(cur.test):
                    return True
                cur = parents.get(id(cur))
            return False
        for x in walk_no_nested(f.node):
            bad = None
            dep = ""
            if isinstance(x, ast.Subscript) and isinstance(x.slice, ast.Constant) and isinstance(x.slice.value, int) and isinstance(x.value, ast.Call):
                c = x.value
                cn = src(c.func)
                if cn in ("re.findall",) or (isinstance(c.func, ast.Attribute) and c.func.attr in ("findall", "groups")):
                    bad = f"`{src(x)[:70]}` indexes the list of matches"
                elif isinstance(c.func, ast.Attribute) and c.func.attr in ("split", "rsplit", "partition") and x.slice.value not in (0, -1):
                    bad = f"`{src(x)[:70]}` takes part {x.slice.value} of a split"
            elif isinstance(x, ast.Call) and isinstance(x.func, ast.Attribute) and x.func.attr in ("group", "groups", "start", "end", "span") and isinstance(x.func.value, ast.Call) \
                    and src(x.func.value.func) in ("re.search", "re.match", "re.fullmatch"):
                bad = f"`{src(x)[:70]}` uses the match object without testing it"
            elif isinstance(x, ast.Call) and isinstance(x.func, ast.Attribute) and x.func.attr == "index" and isinstance(x.func.value, (ast.Name, ast.Call)) and x.args:
                bad = f"`{src(x)[:70]}` raises ValueError when the text is absent"
                dep = src(x.args[0])
            if isinstance(x, ast.Call) and isinstance(x.func, ast.Attribute) and x.func.attr in ("group", "groups") and isinstance(x.func.value, ast.Name):
                n += 1
                rep.instance(rule, f"mapper-partial/{f.name}/{norm_locals(src(x), f.node)[:40]}", nontrivial=True)
                if not guarded(x, x.func.value.id):
                    bad = f"`{src(x)[:70]}` uses a match object that is not tested on this path"
            if bad is None:
                continue
            n += 1
            if not guarded(x, dep or "\0"):
                rep.add(Finding(rule, f"{rule}/mapper-partial/{f.qualname}/{norm_locals(src(x), f.node)[:50]}", f.module.rel, x.lineno, f.qualname,
                                f"{bad} inside the error mapper {f.name}: when the engine's message has another shape the mapper itself raises (IndexError / AttributeError / ValueError) "
                                f"and that raw Python error replaces the VTL error the caller should get"))
    rep.instance(rule, "mapper-partial-operations", nontrivial=False, sample={"mappers": [f.qualname for f in mappers], "partial operations examined": n})



def _strip_sql_comments(t: str) -> str:
    t = re.sub(r"/\*.*?\*/", " ", t, flags=re.S)
    return re.sub(r"--[^\n]*", " ", t)


def execute_sites_wrapped(P: Program, rep: Report, rule: str) -> int:
    """Every conn.execute reachable from execute_queries whose SQL evaluates expressions over data (CREATE TABLE AS, UPDATE SET, INSERT,
    SELECT over vtl_ macros) sits inside an `except duckdb.Error` handler (its own or every caller's).  Shared with C01: a scalar-level
    domain error (ln(0), division by zero) raised by the engine must come back as the VTL error of the operator."""
    cg = callgraph(P)
    cg = callgraph(P)
    reach = cg.reachable_from([f"{EXEC}.execute_queries"])
    nsites = 0
    for q in sorted(reach):
        f = P.functions[q]
        if not f.module.name.startswith("vtlengine.duckdb_transpiler"):
            continue
        for n in walk_no_nested(f.node):
            if not (isinstance(n, ast.Call) and isinstance(n.func, ast.Attribute) and n.func.attr in ("execute", "sql") and n.args):
                continue
            sk = sqlx.skeleton_of(n.args[0])
            text = sk[0] if sk else ""
            if not text and isinstance(n.args[0], ast.Name):
                # execute(var): look at the definitions of var in this function
                for a in walk_no_nested(f.node):
                    if isinstance(a, ast.Assign) and any(isinstance(t, ast.Name) and t.id == n.args[0].id for t in a.targets):
                        s2 = sqlx.skeleton_of(a.value)
                        if s2:
                            text += " " + s2[0]
                        else:
                            text += " " + src(a.value)
            up = text.upper()
            evaluating = bool(re.search(r"CREATE TABLE .* AS |\bUPDATE\b.*\bSET\b|INSERT INTO", up, re.S)) or "VTL_" in up and "SELECT" in up
            if not evaluating:
                continue
            nsites += 1
            # enclosing try with a duckdb.Error handler (in this function, or in every caller one level up)
            handler = enclosing_duckdb_handler(n)
            where = f"{q}:{text.strip()[:30]}"
            rep.instance(rule, where, nontrivial=True, sample={"site": f"{f.module.rel}:{n.lineno}", "sql": text.strip()[:60], "handler": handler})
            if handler == "none":
                # one level up: all callers wrap the call
                callers = [c for c in cg.callers.get(q, ()) if c in reach]
                wrapped = bool(callers) and all(any(enclosing_duckdb_handler(cs) in ("duckdb.Error",) for cs in cg.sites.get((c, q), [])) for c in callers)
                if wrapped:
                    continue
                rep.add(Finding(rule, f"{rule}/unwrapped/{q}", f.module.rel, n.lineno, q,
                                f"`{src(n)[:70]}` evaluates SQL over data outside any `except duckdb.Error` handler: a failing row surfaces as a raw "
                                f"duckdb exception"))
            elif handler != "duckdb.Error":
                rep.add(Finding(rule, f"{rule}/narrow-handler/{q}", f.module.rel, n.lineno, q,
                                f"the handler around `{src(n)[:50]}` catches {handler}, not duckdb.Error: other DuckDB error classes "
                                f"(OutOfRange, Binder, …) bypass the VTL error mapping"))
    rep.floor(f"{rule} data-evaluating execute sites", nsites, 4)
    return nsites


HANDLER_SWALLOWS_REVIEWED = {
    "vtlengine.duckdb_transpiler.io._io._detect_csv_format": "format sniffing: a failed sniff falls back to the default delimiter; the load that follows is wrapped on its own",
}


def _always_raises(P: Program, f: FuncInfo, body: List[ast.stmt], depth: int = 0) -> bool:
    """every path through `body` ends in a raise (structural: raise / if-else both raising / a call to a helper every path of which raises)"""
    for st in body:
        if isinstance(st, ast.Raise):
            return True
        if isinstance(st, ast.If) and st.orelse and _always_raises(P, f, st.body, depth) and _always_raises(P, f, st.orelse, depth):
            return True
        if isinstance(st, ast.Expr) and isinstance(st.value, ast.Call) and depth < 2:
            ts = [P.functions.get(t) for t in P.resolve_call(f, st.value)]
            if ts and all(g_ is not None and _always_raises(P, g_, g_.node.body, depth + 1) for g_ in ts):  # type: ignore[attr-defined]
                return True
        if isinstance(st, (ast.Return, ast.Continue, ast.Break)):
            return False
        if isinstance(st, ast.Try) and st.finalbody and _always_raises(P, f, st.finalbody, depth):
            return True
    return False


def duckdb_handlers_reraise(P: Program, rep: Report, rule: str) -> None:
    """No handler of a DuckDB error in the execution / loading modules completes normally: every path through it raises (the mapped VTL error,
    or the original).  A handler that maps what it can and then falls out swallows every unmapped engine failure (out of memory, I/O,
    interrupt): the run carries on and returns a result the failed step never produced.  Shared with C16."""
    n = 0
    for f in P.iter_functions():
        if not f.qualname.startswith("vtlengine.duckdb_transpiler.io."):
            continue
        for t in walk_no_nested(f.node):
            if not isinstance(t, ast.Try):
                continue
            for h in t.handlers:
                ty = src(h.type) if h.type is not None else "<bare>"
                if "duckdb" not in ty:
                    continue
                n += 1
                ok = _always_raises(P, f, h.body)
                rep.instance(rule, f"handler/{f.qualname}/{ty}", nontrivial=True, sample={"function": f.qualname, "catches": ty, "every_path_raises": ok})
                if ok:
                    continue
                if f.qualname in HANDLER_SWALLOWS_REVIEWED:
                    rep.exemption(rule, f"handler/{f.qualname}/{ty}", HANDLER_SWALLOWS_REVIEWED[f.qualname])
                    continue
                rep.add(Finding(rule, f"{rule}/handler-falls-through/{f.qualname}", f.module.rel, h.lineno, f.qualname,
                                f"the `except {ty}` handler of {f.qualname} has a path that neither raises the mapped error nor re-raises the original: a DuckDB failure without a VTL "
                                f"mapping (out of memory, disk full, interrupt) is swallowed there and the run continues with whatever the failed step left behind"))
    rep.floor(f"{rule} duckdb handlers", n, 6)
