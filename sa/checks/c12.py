"""C12 - results do not depend on the textual order of statements (DESIGN §3 C12).

R12.1 dependency traversal completeness (E7): for every AST node class the DAGAnalyzer handler (own, inherited from
      ASTTemplate, or via super()) descends into every field that can hold an operand expression; skipped fields are an
      explicit reasoned table
R12.2 numbering agreement: visit_Start numbers exactly the children that sort_ast later treats as sortable statements
      (over the closed list of top-level classes the interpreter accepts); sort_elements indexes statements[x-1];
      sort_ast re-emits every group of top-level nodes
R12.3 outputs/persistent parity: wherever the DAG (or the transpiler's input lookup) resolves a name to its defining
      statement it treats ':=' (outputs) and '<-' (persistent) alike
R12.4 duplicate-assignment check is order-free and on every normal path of create_dag; the cycle error is raised from
      the graph sort, which precedes the re-ordering
R12.5 per-statement analyser state (alias set, dependency accumulator) is re-initialised between statements on every path
R12.6 semantic validation does not mutate its operands (interprocedural effect analysis on every Operators *validat*
      method): a mutated operand is a dataset stored for later statements, so results would depend on statement order
R12.7 the SQL transpiler carries no state from one statement into the next: scratch containers filled by expression handlers are
      re-initialised on every path of the per-statement loop, handlers rebind attributes only inside restoring context managers,
      parameter-scope stacks are balanced (independent statements keep their textual order after the sort, so leaked state makes the
      result depend on where a statement is written)
R12.8 the interpreter restores every context attribute (is_from_*, ruleset_*, ...) that a handler sets, on every normal path out of
      the handler (two reasoned exceptions guarded by such flags)
Not decided: that equal dependency graphs give equal run() results (runtime).
"""
from __future__ import annotations

import ast
from typing import Dict, List, Optional, Set, Tuple

from sa import e7
from sa.cfg import CFG, describe_path
from sa.core import AnalysisError, Finding, FuncInfo, Program, Report, norm_locals, program, src, walk_no_nested
from sa.effects import EffectAnalysis

DAGMOD = "vtlengine.AST.DAG"
DAG = f"{DAGMOD}.DAGAnalyzer"

# node fields the dependency analysis deliberately does not descend into (R12.1); one reason each
SKIPPED_FIELDS: Dict[Tuple[str, str], str] = {
    ("Assignment", "left"): "the defined name, recorded as output, not an operand",
    ("PersistentAssignment", "left"): "the defined name, recorded as persistent output, not an operand",
    ("Aggregation", "grouping"): "component identifiers of the operand dataset",
    ("Aggregation", "having_clause"): "component-level condition over the aggregated dataset (scalar references there are not supported by the DAG; information)",
    ("Analytic", "order_by"): "OrderBy nodes name components",
    ("Analytic", "window"): "Windowing holds integer bounds",
    ("HROperation", "conditions"): "condition components of the operand dataset",
    ("HROperation", "rule_component"): "component of the operand dataset",
    ("JoinOp", "nvl"): "NvlJoinPair holds a component name and a constant",
    ("NvlJoinPair", "default"): "constant",
    ("TimeAggregation", "period_to_ref"): "VarID naming a scalar parameter inside UDO bodies (resolved at call time)",
    ("ViralPropagationDef", "aggregate_clause"): "definition, not a statement operand",
    ("ViralPropagationDef", "enumerated_clauses"): "definition, not a statement operand",
    ("DatasetType", "components"): "type annotation inside operator signatures",
}

# R12.6: operand mutation sites that exist on the reference tree (by design of those operators: the result reuses the
# operand's objects); key = function / statement with the function's LOCAL variables written § (sa.core.norm_locals), so that the
# table survives a renaming of locals
OPERAND_MUTATION_REFERENCE: Dict[Tuple[str, str], str] = {
    # (function, statement prefix) -> reason
    ("vtlengine.Operators.Assignment.Assignment.validate", "right_operand.name = left_operand"): "assignment renames its freshly computed right operand to the target name",
    ("vtlengine.Operators.Conditional.If.validate", "§.data_type = §.data_type = binary_implicit_promotion("): "if-then-else unifies the branch types in place (branches are per-statement temporaries)",
    ("vtlengine.Operators.General.Eval.validate", "output.name = external_routine.name"): "eval names its declared output",
    ("vtlengine.Operators.Join.Apply.create_dataset", "prefix += '#'"): "string augmentation (immutable value)",
    ("vtlengine.Operators.Join.Apply.create_dataset", "§.name = §.name[len(prefix):] if"): "apply strips alias prefixes on the join temporary",
    ("vtlengine.Operators.Numeric.Random.validate", "index.data_type = binary_implicit_promotion(index.data_type, Integer)"): "random promotes its index scalar in place (constant operand)",
    ("vtlengine.Operators.RoleSetter.RoleSetter.validate", "operand.role = cls.role"): "role setters act on the calc temporary",
    ("vtlengine.Operators.Validation.Check.validate", "§['imbalance'].name = 'imbalance'"): "check renames the imbalance component of its temporary operand",
    ("vtlengine.Model.Dataset.delete_component", "self.components.pop(component_name, None)"): "aggr clause / check_hierarchy drop a component of their working dataset (reference behaviour)",
    ("vtlengine.Model.Dataset.delete_component", "self.data.drop(columns=[component_name], inplace=True)"): "aggr clause / check_hierarchy drop a component of their working dataset (reference behaviour)",
    ("vtlengine.Model.Dataset.add_component", "self.components[component.name] = component"): "aggr clause adds the aggregated components to a result sharing the working dataset's component dict (reference behaviour)",
}
# sites inside vtlengine.Model are accepted only when reached from these validation entry points
MODEL_SITE_ENTRIES: Dict[Tuple[str, str], Tuple[str, ...]] = {
    ("vtlengine.Model.Dataset.delete_component", "self.components.pop(component_name, None)"): ("vtlengine.Operators.Clause.Aggregate.validate", "vtlengine.Operators.Validation.Check_Hierarchy.validate_hr_dataset"),
    ("vtlengine.Model.Dataset.delete_component", "self.data.drop(columns=[component_name], inplace=True)"): ("vtlengine.Operators.Clause.Aggregate.validate", "vtlengine.Operators.Validation.Check_Hierarchy.validate_hr_dataset"),
    ("vtlengine.Model.Dataset.add_component", "self.components[component.name] = component"): ("vtlengine.Operators.Clause.Aggregate.validate",),
}


def _callee_name(c: ast.Call) -> str:
    return c.func.id if isinstance(c.func, ast.Name) else (c.func.attr if isinstance(c.func, ast.Attribute) else "")


def _records_dependencies(P: Program, owner: FuncInfo, loop: ast.For) -> bool:
    """Does this loop record one StatementDeps per iteration (directly or through a self-method it calls)?"""
    def stores(node: ast.AST) -> bool:
        return any(isinstance(x, ast.Assign) and isinstance(x.targets[0], ast.Subscript) and src(x.targets[0].value) == "self.dependencies"
                   for x in ast.walk(node))
    if any(stores(st) for st in loop.body):
        return True
    for st in loop.body:
        for c in ast.walk(st):
            if isinstance(c, ast.Call) and isinstance(c.func, ast.Attribute) and isinstance(c.func.value, ast.Name) and c.func.value.id == "self":
                for tq in P.resolve_call(owner, c)[:4]:
                    hf = P.functions.get(tq)
                    if hf is not None and not hf.name.startswith("visit") and stores(hf.node):
                        return True
    return False


def handler_visits(P: Program, visitor, node_name: str, _depth: int = 0) -> Tuple[Optional[FuncInfo], Set[str]]:
    m = e7.visitor_method(P, visitor, node_name)
    if m is None:
        return None, set()
    param = [x for x in m.params if x != "self"][0]
    v = e7.visited_fields(P, m, param)
    # super().visit_X(node) / super(Cls, self).visit_X(node)
    for n in ast.walk(m.node):
        if isinstance(n, ast.Call) and isinstance(n.func, ast.Attribute) and n.func.attr == m.name and isinstance(n.func.value, ast.Call) \
                and _callee_name(n.func.value) == "super" and m.cls is not None and _depth < 3:
            for k in P.mro(m.cls)[1:]:
                if m.name in k.methods:
                    bm = k.methods[m.name]
                    bp = [x for x in bm.params if x != "self"][0]
                    v |= e7.visited_fields(P, bm, bp)
                    break
    return m, v


def run(rep: Report, tier: str) -> None:
    P = program()
    rep.explanation = ("AST-node × DAGAnalyzer-handler matrix (fields visited vs fields that can hold nodes); class-filter comparison "
                       "between visit_Start, sort_ast and the interpreter's accepted top-level classes; attribute-read parity of "
                       "outputs/persistent per function; CFG must-pass-through rules in create_dag and the statement loop; "
                       "interprocedural operand-mutation analysis over all Operators validation methods.")
    for rid, text in [("R12.1", "DAG handlers descend into every operand-bearing field of every AST node class"),
                      ("R12.2", "numbered statements == sortable statements; index offset; every top-level group re-emitted"),
                      ("R12.3", "name→defining-statement lookups read both .outputs and .persistent"),
                      ("R12.4", "redefinition check order-free and unavoidable; cycle error from the sort that precedes re-ordering"),
                      ("R12.5", "per-statement analyser state re-initialised between statements"),
                      ("R12.6", "semantic validation methods do not mutate objects reachable from their operands")]:
        rep.rule(rid, text)
    N = e7.node_classes(P)
    dag = P.cls(DAG)

    # ---- R12.1 -----------------------------------------------------------------------------------------
    nfields = handler_field_matrix(P, rep, "R12.1")

    traversal_on_every_path(P, rep, "R12.1")
    alias_after_operand(P, rep, "R12.1")
    rep.rule("R12.12", "no transpiler / structure-visitor method mutates a dataset structure taken from the tables shared by all statements")
    stored_structures_untouched(P, rep, "R12.12")
    from sa.checks.c11 import call_scoped_class_state as _class_state
    _class_state(P, rep, "R12.13")
    rep.rule("R12.14", "no InterpreterAnalyzer.visit_* method mutates the shared parts (components dict, Component objects) of a structure obtained from self.visit(operand)")
    interpreter_leaves_operands(P, rep, "R12.14")
    rep.rule("R12.11", "the interpreter evaluates a deep copy of a user-defined operator's stored body on every path")
    udo_body_copied(P, rep, "R12.11")

    # ---- R12.2 -----------------------------------------------------------------------------------------
    vs = P.func(f"{DAG}.visit_Start")
    sa_ = P.func(f"{DAG}.sort_ast")
    interp_vs = P.func("vtlengine.Interpreter.InterpreterAnalyzer.visit_Start")
    def isinstance_classes(call: ast.Call) -> Set[str]:
        a = call.args[1]
        return {src(x).split(".")[-1] for x in (a.elts if isinstance(a, ast.Tuple) else [a])}
    # closed list of top-level classes: union of the isinstance tuples guarding SemanticError 1-2-5 in the interpreter
    closed: Set[str] = set()
    for n in walk_no_nested(interp_vs.node):
        if isinstance(n, ast.If) and any(isinstance(x, ast.Raise) and "1-2-5" in src(x) for x in n.body):
            for c in ast.walk(n.test):
                if isinstance(c, ast.Call) and _callee_name(c) == "isinstance":
                    closed |= isinstance_classes(c)
    if len(closed) < 5:
        raise AnalysisError(f"interpreter visit_Start: closed list of top-level classes not found ({closed})")
    numbered: Set[str] = set()
    for n in walk_no_nested(vs.node):
        if isinstance(n, ast.If) and isinstance(n.test, ast.Call) and _callee_name(n.test) == "isinstance" \
                and isinstance(getattr(n, "_parent", None), ast.For) and src(getattr(n, "_parent").iter).endswith("node.children") \
                and any(isinstance(x, ast.Call) and src(x.func) == "self.visit" and x.args and src(x.args[0]) == src(n.test.args[0]) for x in ast.walk(n)):
            numbered = isinstance_classes(n.test)
    if not numbered:
        raise AnalysisError("DAG visit_Start: isinstance filter of numbered statements not found")
    subclass_closure = lambda s: s | ({"PersistentAssignment"} if "Assignment" in s else set())
    numbered = subclass_closure(numbered)
    excluded: Optional[Set[str]] = None
    groups: List[str] = []
    for n in walk_no_nested(sa_.node):
        if isinstance(n, (ast.Assign, ast.AnnAssign)) and isinstance(n.value, ast.ListComp):
            tname = src(n.targets[0] if isinstance(n, ast.Assign) else n.target)
            groups.append(tname)
            for c in ast.walk(n.value):
                if isinstance(c, ast.UnaryOp) and isinstance(c.op, ast.Not) and isinstance(c.operand, ast.Call) and _callee_name(c.operand) == "isinstance":
                    excluded = isinstance_classes(c.operand)
    if excluded is None:
        raise AnalysisError("sort_ast: `not isinstance(node, (…))` filter of sortable statements not found")
    sortable = closed - excluded
    rep.instance("R12.2", "numbered==sortable", nontrivial=True, sample={"closed_list": sorted(closed), "numbered_by_visit_Start": sorted(numbered),
                                                                        "sortable_in_sort_ast": sorted(sortable)})
    if numbered != sortable:
        rep.add(Finding("R12.2", "R12.2/numbered==sortable", sa_.module.rel, sa_.node.lineno, sa_.qualname,
                        f"visit_Start numbers children of classes {sorted(numbered)} but sort_ast indexes the list of {sorted(sortable)} "
                        f"(closed list {sorted(closed)}): the topological order is applied to the wrong statements"))
    se = P.func(f"{DAG}.sort_elements")
    subs = [s for s in ast.walk(se.node) if isinstance(s, ast.Subscript) and isinstance(s.slice, ast.BinOp)]
    rep.instance("R12.2", "index-offset", nontrivial=True, sample={"index": [src(s) for s in subs]})
    if not subs or not all(isinstance(s.slice.op, ast.Sub) and isinstance(s.slice.right, ast.Constant) and s.slice.right.value == 1 for s in subs):
        rep.add(Finding("R12.2", "R12.2/index-offset", se.module.rel, se.node.lineno, se.qualname,
                        "sort_elements must index statements[x - 1] (statement numbers start at 1)"))
    final = [n for n in walk_no_nested(sa_.node) if isinstance(n, ast.Assign) and src(n.targets[0]).endswith(".children")]
    rep.instance("R12.2", "all-groups-re-emitted", nontrivial=True, sample={"groups": groups, "assignment": src(final[0])[:120] if final else None})
    if not final:
        raise AnalysisError("sort_ast: assignment to ast.children not found")
    # every group list must flow (through local definitions, transitively) into the value assigned to ast.children;
    # the group of SORTABLE statements (the one filtered with `not isinstance`) flows in through sort_elements
    local_defs: Dict[str, List[ast.AST]] = {}
    for n in walk_no_nested(sa_.node):
        if isinstance(n, (ast.Assign, ast.AnnAssign)) and getattr(n, "value", None) is not None:
            for t in (n.targets if isinstance(n, ast.Assign) else [n.target]):
                if isinstance(t, ast.Name):
                    local_defs.setdefault(t.id, []).append(n.value)
    consumed: Set[str] = set()
    work = [x.id for x in ast.walk(final[0].value) if isinstance(x, ast.Name)]
    while work:
        v = work.pop()
        if v in consumed:
            continue
        consumed.add(v)
        for d in local_defs.get(v, []):
            work.extend(x.id for x in ast.walk(d) if isinstance(x, ast.Name))
    missing = [g_ for g_ in groups if g_ not in consumed]
    if missing:
        rep.add(Finding("R12.2", "R12.2/all-groups-re-emitted", sa_.module.rel, final[0].lineno, sa_.qualname,
                        f"top-level nodes collected in {missing} are dropped from the re-ordered script"))
    excluded_groups = set()
    for n in walk_no_nested(sa_.node):
        if isinstance(n, (ast.Assign, ast.AnnAssign)) and isinstance(n.value, ast.ListComp):
            for c in ast.walk(n.value):
                if isinstance(c, ast.Call) and _callee_name(c) == "isinstance" and not isinstance(getattr(c, "_parent", None), ast.UnaryOp):
                    excluded_groups |= isinstance_classes(c)
    if excluded - excluded_groups:
        rep.add(Finding("R12.2", "R12.2/group-for-every-excluded-class", sa_.module.rel, sa_.node.lineno, sa_.qualname,
                        f"classes {sorted(excluded - excluded_groups)} are excluded from the sortable statements but collected in no group: they vanish from the script"))

    # ---- R12.3 -----------------------------------------------------------------------------------------
    sites: List[Tuple[FuncInfo, str]] = []
    funcs = [f for f in P.iter_functions() if f.module.name == DAGMOD] + [P.func("vtlengine.duckdb_transpiler.Transpiler.SQLTranspiler._get_assignment_inputs")]
    R123_EXEMPT = {
        f"{DAG}.statement_structure": "removes a ':=' statement's own name from its inputs; for '<-' the self-reference stays and is rejected as a cycle - both forms are rejected, no order dependence",
        f"{DAG}.visit_Assignment": "writer of outputs", f"{DAG}.visit_PersistentAssignment": "writer of persistent",
        f"{DAGMOD}.HRDAGAnalyzer.visit_DefIdentifier": "hierarchy rules only have '=' definitions",
    }
    for f in funcs:
        reads: Dict[str, Set[str]] = {}
        for n in walk_no_nested(f.node):
            if isinstance(n, ast.Attribute) and n.attr in ("outputs", "persistent") and isinstance(n.ctx, ast.Load):
                reads.setdefault(src(n.value), set()).add(n.attr)
        for base_, attrs in reads.items():
            key = f"{f.qualname}/{base_}"
            rep.instance("R12.3", key, nontrivial=True, sample={"function": f.qualname, "object": base_, "reads": sorted(attrs)})
            if attrs == {"outputs"}:
                if f.qualname in R123_EXEMPT:
                    rep.exemption("R12.3", f.qualname, R123_EXEMPT[f.qualname])
                    continue
                rep.add(Finding("R12.3", f"R12.3/{key}", f.module.rel, f.node.lineno, f.qualname,
                                f"`{base_}.outputs` is consulted without `{base_}.persistent`: a name defined with '<-' is not found where one "
                                f"defined with ':=' is, so dependency edges differ between the two assignment forms"))
    rep.floor("outputs/persistent lookup sites", sum(1 for _ in rep.nontrivial if _.startswith("R12.3/")), 5)

    # ---- R12.4 -----------------------------------------------------------------------------------------
    cd = P.func(f"{DAG}.create_dag")
    g = CFG(cd.node, exception_catches_all=True)
    sort_nodes = [n for n in g.nodes if any(_callee_name(c) == "sort_ast" for c in g.calls_at(n))]
    build_nodes = [n for n in g.nodes if any(_callee_name(c) == "_build_and_sort_graph" for c in g.calls_at(n))]
    rep.instance("R12.4", "create_dag-order", nontrivial=True)
    if not sort_nodes or not build_nodes:
        raise AnalysisError("create_dag: _build_and_sort_graph / sort_ast calls not found")
    p = g.path_avoiding(g.entry, lambda n: n is g.exit, lambda n: n in sort_nodes, follow_exc=False)
    if p is not None:
        rep.add(Finding("R12.4", "R12.4/sort-on-every-path", cd.module.rel, cd.node.lineno, cd.qualname,
                        "create_dag can return without sort_ast (re-ordering and the redefinition check are skipped)", describe_path(p)))
    p = g.path_avoiding(g.entry, lambda n: n in sort_nodes, lambda n: n in build_nodes, follow_exc=False)
    if p is not None:
        rep.add(Finding("R12.4", "R12.4/build-before-sort", cd.module.rel, cd.node.lineno, cd.qualname,
                        "sort_ast is reachable without the graph sort that detects cycles", describe_path(p)))
    gs = CFG(sa_.node)
    chk = [n for n in gs.nodes if any(_callee_name(c) == "check_overwriting" for c in gs.calls_at(n))]
    rep.instance("R12.4", "check_overwriting-on-every-path", nontrivial=True)
    if not chk or gs.path_avoiding(gs.entry, lambda n: n is gs.exit, lambda n: n in chk, follow_exc=False) is not None:
        rep.add(Finding("R12.4", "R12.4/check_overwriting-on-every-path", sa_.module.rel, sa_.node.lineno, sa_.qualname,
                        "sort_ast can finish without check_overwriting: a name assigned twice is not rejected"))
    co = P.func(f"{DAG}.check_overwriting")
    loops = [n for n in walk_no_nested(co.node) if isinstance(n, ast.For)]
    ok = len(loops) == 1 and src(loops[0].iter) == co.params[1] and any(isinstance(x, ast.Raise) and "1-2-2" in src(x) for x in ast.walk(loops[0])) \
        and not any(isinstance(x, (ast.Break, ast.Continue, ast.Return)) for x in ast.walk(loops[0]))
    seen_sets = [n for n in walk_no_nested(co.node) if isinstance(n, (ast.Assign, ast.AnnAssign)) and "set()" in src(n)]
    rep.instance("R12.4", "check_overwriting-shape", nontrivial=True)
    if not ok or not seen_sets:
        rep.add(Finding("R12.4", "R12.4/check_overwriting-shape", co.module.rel, co.node.lineno, co.qualname,
                        "check_overwriting must scan ALL statements against a `seen` set and raise SemanticError 1-2-2 on a repeat"))
    bs = P.func(f"{DAG}._build_and_sort_graph")
    handlers = [h for n in walk_no_nested(bs.node) if isinstance(n, ast.Try) for h in n.handlers if h.type is not None and "NetworkXUnfeasible" in src(h.type)]
    rep.instance("R12.4", "cycle-error", nontrivial=True)
    if not handlers or not any(isinstance(x, ast.Raise) and "1-3-2-3" in src(x) for h in handlers for x in ast.walk(h)):
        rep.add(Finding("R12.4", "R12.4/cycle-error", bs.module.rel, bs.node.lineno, bs.qualname,
                        "a cyclic dependency (NetworkXUnfeasible) must be reported as SemanticError 1-3-2-3"))

    # ---- R12.5 -----------------------------------------------------------------------------------------
    mutated_in_visits = per_statement_state(P, rep, "R12.5")

    # ---- R12.6 -----------------------------------------------------------------------------------------
    nmeth = operand_mutations(P, rep, "R12.6")
    rep.rule("R12.9", "clause-level names produced by another statement become dependencies of EVERY statement that reads them (`:=` and `<-` producers alike)")
    unknown_resolution(P, rep, "R12.9")
    rep.analysed = {"ast_node_classes": len(N), "node_bearing_fields": nfields, "validation_methods": nmeth,
                    "per_statement_accumulators": sorted(mutated_in_visits)}
    # ---- R12.7: the transpiler carries nothing from one statement into the next (shared rule RT.3 a/b/d) ----
    rep.rule("R12.7", "SQL transpiler: per-statement scratch state re-initialised on every path; attribute rebinding only in restoring scopes; scope stacks balanced")
    from sa import transp
    transp.state_discipline(P, rep, "R12.7", parts="abd")
    # ---- R12.8: interpreter context flags set by a handler are restored on every normal path out of it ----
    rep.rule("R12.8", "InterpreterAnalyzer: a context attribute set by a handler is restored (reset or re-assigned from a saved value) on every normal path out of it")
    IA = P.cls("vtlengine.Interpreter.InterpreterAnalyzer")
    CONTEXT_OK = {
        ("visit_Aggregation", "aggregation_dataset"): "consulted only while is_from_having / is_from_grouping is set, and both flags are restored by this handler; every branch that sets it clears it after the having/grouping visit",
        ("visit_RegularAggregation", "regular_aggregation_dataset"): "consulted only while is_from_regular_aggregation is set; the handler restores the flag, and the next clause overwrites the dataset before reading it",
    }
    n128 = 0
    for name_, m_ in IA.methods.items():
        if name_ in ("visit_Start", "__post_init__", "__init__"):
            continue
        sets_ = [(a_, n_) for a_, k_, n_ in transp._self_attr_writes(m_.node) if k_ == "rebind" and isinstance(n_, (ast.Assign, ast.AnnAssign))]
        if not sets_:
            continue
        g_ = CFG(m_.node)
        for attr_, node_ in sets_:
            v_ = node_.value
            if v_ is None or (isinstance(v_, ast.Constant) and v_.value in (False, None)) or transp._is_fresh(v_) or (isinstance(v_, ast.Name) and v_.id.startswith(("saved", "old", "prev"))):
                continue  # this IS a reset / restore
            n128 += 1
            key_ = f"{name_}/{attr_}"
            rep.instance("R12.8", key_, nontrivial=True)
            if (name_, attr_) in CONTEXT_OK:
                rep.exemption("R12.8", key_, CONTEXT_OK[(name_, attr_)])
                continue
            start_ = [x for x in g_.nodes if x.stmt is node_]
            resets_ = {x for x in g_.nodes if x.stmt is not None and x.kind == "stmt" and x.stmt is not node_ and isinstance(x.stmt, (ast.Assign, ast.AnnAssign))
                       and any(src(t) == f"self.{attr_}" for t in (x.stmt.targets if isinstance(x.stmt, ast.Assign) else [x.stmt.target]))}
            p_ = g_.path_avoiding(start_[0], lambda x: x is g_.exit, lambda x: x in resets_, follow_exc=False) if start_ else None
            if p_ is not None:
                rep.add(Finding("R12.8", f"R12.8/{key_}", m_.module.rel, node_.lineno, m_.qualname,
                                f"self.{attr_} is set here and there is a normal path to the end of {name_} that does not restore it: the context of this construct stays "
                                f"switched on for whatever is analysed next, so the analysis of a later statement depends on this one having come first", describe_path(p_)))
    rep.floor("R12.8 context attribute sets", n128, 8)
    rep.assumptions = ["visit dispatch is by exact class name (`visit_` + type(node).__name__)",
                       "operand-mutation sites present on the reference tree are taken as designed behaviour (listed exemptions)"]


def unknown_resolution(P: Program, rep: Report, rule: str) -> None:
    """DAGAnalyzer.visit_Start ends by turning names that were met inside clauses (and could not be told from component names) into
    script-level dependencies when SOME statement produces them.  That tail is evaluated (E6) on abstract dependency tables - the
    statement loop is given an empty child list - for: a name produced by `:=` and read by two other statements; a name produced by
    a persistent `<-`; a name nobody produces.  Every reader must get the name as an input (a dependency edge: ordering, load/drop
    schedule), in whatever order the statements are numbered; an unproduced name stays a component reference."""
    from sa.e6 import Interp, Raised, Unmodelled
    f = P.func(f"{DAG}.visit_Start")

    class Deps:
        def __init__(self, outputs=(), persistent=(), inputs=(), unknown=()):
            self.outputs, self.persistent, self.inputs, self.unknown_variables = list(outputs), list(persistent), list(inputs), list(unknown)

    class Me:
        _e6_class = DAG
    scenarios = {
        "produced-by-assignment/two-readers": ({1: Deps(outputs=["sc"]), 2: Deps(outputs=["A"], inputs=["DS_1"], unknown=["sc", "Me_1"]),
                                               3: Deps(persistent=["B"], inputs=["DS_1"], unknown=["sc"])}, {"sc", "Me_1"}, {2: ["sc"], 3: ["sc"]}, {"Me_1"}),
        "readers-before-producer": ({1: Deps(outputs=["A"], inputs=["DS_1"], unknown=["sc"]), 2: Deps(outputs=["B"], inputs=["DS_1"], unknown=["sc"]),
                                     3: Deps(outputs=["sc"])}, {"sc"}, {1: ["sc"], 2: ["sc"]}, set()),
        "produced-by-persistent-assignment": ({1: Deps(persistent=["sc"]), 2: Deps(persistent=["A"], inputs=["DS_1"], unknown=["sc"])}, {"sc"}, {2: ["sc"]}, set()),
        "not-produced": ({1: Deps(outputs=["A"], inputs=["DS_1"], unknown=["Me_1"])}, {"Me_1"}, {}, {"Me_1"}),
    }
    for label, (deps, unknown, want_inputs, want_unknown) in scenarios.items():
        me = Me()
        me.dependencies, me.unknown_variables, me.udos = deps, set(unknown), {}
        me.number_of_statements, me.alias, me.is_first_assignment, me.current_deps = 1, set(), False, Deps()
        node = type("N", (), {"children": []})()
        before = {k: list(d.inputs) for k, d in deps.items()}
        try:
            Interp(P, externals={"copy.copy": lambda x: set(x) if isinstance(x, set) else list(x), "isinstance": lambda o, t: False}).call(f, {"self": me, "node": node})
        except (Unmodelled, Raised) as e:
            raise AnalysisError(f"{rule}: DAGAnalyzer.visit_Start outside the evaluator's language: {e}")
        got_inputs = {k: [x for x in d.inputs if x not in before[k]] for k, d in deps.items() if [x for x in d.inputs if x not in before[k]]}
        left = {k: list(d.unknown_variables) for k, d in deps.items()}
        rep.instance(rule, f"unknown-resolution/{label}", nontrivial=True, sample={"new inputs": got_inputs, "still unknown": sorted(me.unknown_variables)})
        ok = got_inputs == want_inputs and set(me.unknown_variables) == want_unknown and all(v not in left[k] for k, vs in want_inputs.items() for v in vs)
        if not ok:
            rep.add(Finding(rule, f"{rule}/unknown-resolution/{label}", f.module.rel, f.node.lineno, f.qualname,
                            f"names read inside clauses ({label}): statements {sorted(want_inputs)} must get {sorted({v for vs in want_inputs.values() for v in vs})} as an input "
                            f"(dependency edge); got new inputs {got_inputs}, still unresolved {sorted(me.unknown_variables)}: a reader without the edge is ordered / scheduled as if the "
                            f"name were a component - it can run before its producer, or the producer's table is dropped before it runs"))


def per_statement_state(P: Program, rep: Report, rule: str) -> Dict[str, str]:
    """Per-statement analyser state (alias set, dependency accumulator) is re-initialised between statements on every path of the
    statement loops.  Shared with C32: a join alias that survives into a later statement hides a dataset of the same name there;
    the dataset is left out of the inputs, never loaded, and the run ends in DuckDB's `Table ... does not exist`."""
    dag = P.cls(DAG)
    vs = P.func(f"{DAG}.visit_Start")
    mutated_in_visits: Dict[str, str] = {}
    for c in [dag] + [P.cls(f"{DAGMOD}.HRDAGAnalyzer")]:
        for mname, mf in c.methods.items():
            if not mname.startswith("visit_") or mname in ("visit_Start", "visit_HRuleset"):
                continue
            for n in walk_no_nested(mf.node):
                if isinstance(n, ast.Call) and isinstance(n.func, ast.Attribute) and n.func.attr in ("add", "append", "update", "extend", "remove", "discard"):
                    b = n.func.value
                    while isinstance(b, ast.Attribute) and not (isinstance(b.value, ast.Name) and b.value.id == "self"):
                        b = b.value
                    if isinstance(b, ast.Attribute) and isinstance(b.value, ast.Name) and b.value.id == "self":
                        mutated_in_visits.setdefault(b.attr, mf.qualname)
    if not mutated_in_visits:
        raise AnalysisError("no per-statement accumulators found in DAGAnalyzer visit_* methods")
    for loop_owner in (vs, P.func(f"{DAGMOD}.HRDAGAnalyzer.visit_HRuleset")):
        gl = CFG(loop_owner.node)
        # the statement visit inside the per-statement loop: self.visit(<loop variable>)
        rec = []
        for n in gl.nodes:
            if n.kind != "stmt" or n.stmt is None:
                continue
            lp = getattr(n.stmt, "_parent", None)
            while lp is not None and not isinstance(lp, ast.For):
                lp = getattr(lp, "_parent", None)
            if lp is None or not isinstance(lp.target, ast.Name):
                continue
            if any(src(c.func) == "self.visit" and c.args and src(c.args[0]) == lp.target.id for c in gl.calls_at(n)) \
                    and _records_dependencies(P, loop_owner, lp):
                rec.append(n)
        if not rec:
            raise AnalysisError(f"{loop_owner.qualname}: per-statement self.visit(<loop variable>) not found")
        loop_node = getattr(rec[0].stmt, "_parent", None)
        while loop_node is not None and not isinstance(loop_node, ast.For):
            loop_node = getattr(loop_node, "_parent", None)
        H = [n for n in gl.nodes if n.kind == "loop" and n.stmt is loop_node]
        for attr, where in sorted(mutated_in_visits.items()):
            def resets(n, attr=attr) -> bool:
                if n.kind == "stmt" and isinstance(n.stmt, ast.Assign) and any(src(t) == f"self.{attr}" for t in n.stmt.targets):
                    return True
                for c in gl.calls_at(n):  # one level of self-method wrappers
                    if isinstance(c.func, ast.Attribute) and isinstance(c.func.value, ast.Name) and c.func.value.id == "self":
                        for tq in P.resolve_call(loop_owner, c)[:4]:
                            hf = P.functions.get(tq)
                            if hf and not hf.name.startswith("visit") and any(
                                    isinstance(x, ast.Assign) and any(src(t) == f"self.{attr}" for t in x.targets) for x in hf.node.body):
                                return True
                return False
            key = f"{loop_owner.name}/self.{attr}"
            rep.instance(rule, key, nontrivial=True, sample={"loop": loop_owner.qualname, "accumulator": f"self.{attr}", "mutated_in": where})
            for r0 in rec:
                p = gl.path_avoiding(r0, lambda n: n in H or n is gl.exit, resets, follow_exc=False)
                if p is not None:
                    rep.add(Finding(rule, f"{rule}/{key}", loop_owner.module.rel, r0.lineno, loop_owner.qualname,
                                    f"self.{attr} (filled by {where}) is not re-initialised between two statements: names collected for one "
                                    f"statement leak into the analysis of every later-written statement", describe_path(p)))
                    break
    return mutated_in_visits



def operand_mutations(P: Program, rep: Report, rule: str, module_prefixes: Tuple[str, ...] = ("vtlengine.Operators",), floor: int = 80) -> int:
    """No validation method of an operator class mutates an object reachable from its operands (effect analysis from every
    `*validat*` method, interprocedural).  Operands are the structures stored for later statements: a component renamed, re-typed or
    deleted in place changes what the next statement that reads the same dataset sees.  Shared with C02 (clause validators) and C07
    (check / check_datapoint / check_hierarchy validators), restricted there to the operator modules of the property."""
    A = EffectAnalysis(P)
    op_base = P.cls("vtlengine.Operators.Operator")
    nmeth = 0
    seen_ref: Set[str] = set()
    for c in [op_base] + P.subclasses(op_base.qualname):
        if not c.qualname.startswith(module_prefixes):
            continue
        for name, f in c.methods.items():
            if "validat" not in name:
                continue
            params = {p_: frozenset({("S", p_)}) for p_ in f.params if p_ not in ("self", "cls")}
            if not params:
                continue
            nmeth += 1
            summ = A.analyse(f, params, (f.qualname,))
            rep.instance(rule, f.qualname, nontrivial=True,
                         sample={"method": f.qualname, "operand_mutation_sites": len(summ.sites)} if c.qualname.endswith(("Operators.Binary", "Operators.Unary", "Clause.Drop", "Validation.Check")) else None)
            for s in summ.sites:
                ref = [r for r in OPERAND_MUTATION_REFERENCE if r[0] == s.func and (s.norm or s.text).startswith(r[1])
                       and (r[0].startswith("vtlengine.Operators.") or f.qualname in MODEL_SITE_ENTRIES.get(r, ()))]
                if ref:
                    seen_ref.add(f"{ref[0][0]}/{ref[0][1]}")
                    continue
                k = f"{s.func}/{(s.norm or s.text)[:70]}"
                rep.add(Finding(rule, f"{rule}/{k}", s.file, s.line, s.func,
                                f"`{s.text}` mutates an object reachable from operand(s) {list(s.origins)} of {f.qualname}: operands are the datasets "
                                f"stored for later statements, so their structure would depend on which statements ran before", list(s.chain)))
    rep.floor(f"{rule} operator validation methods analysed", nmeth, floor)
    if module_prefixes == ("vtlengine.Operators",):
        for r, why in OPERAND_MUTATION_REFERENCE.items():
            rep.exemption(rule, f"{r[0]}/{r[1]}", why)
            if f"{r[0]}/{r[1]}" not in seen_ref:
                rep.note(f"{rule} reference site no longer present: {r[0]}/{r[1]}")
    return nmeth


# guards under which a handler of the dependency analysis legitimately does not descend into a field (normalised test text -> reason)
TRAVERSAL_GUARDS: Dict[Tuple[str, str, str], str] = {
    ("visit_BinOp", "right", "node.op == AS or node.op == TO"): "`X as a` / `rename a to b`: the right side is a NAME being introduced, not an expression that reads data",
    ("visit_RegularAggregation", "children", "node.op in [KEEP, DROP, RENAME]"): "keep / drop / rename list component names of the clause dataset; there is no expression to analyse",
    ("visit_ParamOp", "params", "§.parameters[§].type_.kind == 'DataSet'"): "legacy branch for a ParamOp whose op is a user-defined operator name: the constructor builds UDOCall nodes for those "
                                                                            "calls (Expr.py / ExprComponents.py), and a ParamOp's op is always a built-in keyword",
    ("visit_UDOCall", "params", "not isinstance(§, Constant) and § is not Component"): "a constant reads nothing; an argument bound to a component-typed parameter is the NAME of a component of the "
                                                                                     "dataset argument, not a script-level value",
}


def _pure_kind_test(t: ast.AST, mentions) -> bool:
    """a test about WHAT the field / its element is (None, empty, of some class) and nothing else: isinstance(x, ...), x is [not] None, x, not x,
    and boolean combinations of those"""
    if isinstance(t, ast.BoolOp):
        return all(_pure_kind_test(v, mentions) for v in t.values)
    if isinstance(t, ast.UnaryOp) and isinstance(t.op, ast.Not):
        return _pure_kind_test(t.operand, mentions)
    if isinstance(t, ast.Call) and isinstance(t.func, ast.Name) and t.func.id in ("isinstance", "hasattr", "len") and t.args and mentions(t.args[0]):
        return True
    if isinstance(t, ast.Compare) and len(t.ops) == 1 and mentions(t.left):
        c0 = t.comparators[0]
        if isinstance(t.ops[0], (ast.Is, ast.IsNot)) and isinstance(c0, ast.Constant) and c0.value is None:
            return True
        if isinstance(t.left, ast.Call) and isinstance(t.left.func, ast.Name) and t.left.func.id == "len" and isinstance(c0, ast.Constant):
            return True
    if isinstance(t, (ast.Name, ast.Attribute)) and mentions(t):
        return True
    return False


def _assume_present(fn: ast.AST, param: str, fld: str) -> ast.AST:
    import copy
    root = copy.deepcopy(fn)
    want = f"{param}.{fld}"

    def polarity(t: ast.AST) -> Optional[bool]:
        """True: the test holds when the field is present; False: when it is absent; None: not a presence test of the field"""
        if isinstance(t, ast.UnaryOp) and isinstance(t.op, ast.Not):
            p_ = polarity(t.operand)
            return None if p_ is None else not p_
        if src(t) == want:
            return True
        if isinstance(t, ast.Compare) and len(t.ops) == 1 and src(t.left) == want and isinstance(t.comparators[0], ast.Constant) and t.comparators[0].value is None:
            return isinstance(t.ops[0], ast.IsNot) if isinstance(t.ops[0], (ast.Is, ast.IsNot)) else None
        return None

    class T(ast.NodeTransformer):
        def visit_If(self, node: ast.If):  # noqa: N802
            self.generic_visit(node)
            pol = polarity(node.test)
            if pol is None:
                return node
            taken = node.body if pol else node.orelse
            return taken or [ast.copy_location(ast.Pass(), node)]
    return T().visit(root)


def traversal_on_every_path(P: Program, rep: Report, rule: str, only_nodes: Optional[Set[str]] = None) -> None:
    """Path form of R12.1: a handler of the dependency analysis that descends into an operand-bearing field of its node does so on EVERY
    path through the handler - except paths that test the field itself (absent / empty / its elements' kind) or pass one of the
    reviewed guards.  A context-dependent early return (`if self.is_from_regular_aggregation: return`) drops the dependency edges of
    whatever the skipped sub-expression reads: a scalar produced by another statement is then not an input of this one, the statements
    are not ordered, and its table is released before the reader runs."""
    dag = P.cls(DAG)
    N = e7.node_classes(P)
    n = 0
    used_guards: Set[Tuple[str, str, str]] = set()
    for name, nc in sorted(N.items()):
        if name == "AST" or not nc.node_fields or (only_nodes is not None and name not in only_nodes):
            continue
        m0 = e7.visitor_method(P, dag, name)
        if m0 is None or m0.cls is None:
            continue
        # the handler itself and, when it delegates with super().visit_X(node), the inherited one (the generic ASTTemplate traversal)
        chain = [m0]
        if any(isinstance(x, ast.Call) and isinstance(x.func, ast.Attribute) and x.func.attr == m0.name and isinstance(x.func.value, ast.Call) and _callee_name(x.func.value) == "super"
               for x in ast.walk(m0.node)):
            for k in P.mro(m0.cls)[1:]:
                if m0.name in k.methods:
                    chain.append(k.methods[m0.name])
                    break
        for m in chain:
            param = [x for x in m.params if x != "self"][0]
            vis = e7.visited_fields(P, m, param)
            for fld in sorted(vis & set(nc.node_fields)):
                # the handler specialised under "the field is present": `if node.f is None: A else: B` -> B, `if node.f: A` -> A, ...
                g = CFG(_assume_present(m.node, param, fld), for_nonempty=True)
                elem: Set[str] = set()
                for x in ast.walk(m.node):
                    if isinstance(x, (ast.For, ast.comprehension)) and any(isinstance(y, ast.Attribute) and y.attr == fld and isinstance(y.value, ast.Name) and y.value.id == param
                                                                             for y in ast.walk(x.iter)):
                        elem |= {t.id for t in ast.walk(x.target) if isinstance(t, ast.Name)}

                def mentions(e: ast.AST, fld=fld, elem=elem) -> bool:
                    return any((isinstance(y, ast.Attribute) and y.attr == fld and isinstance(y.value, ast.Name) and y.value.id == param)
                               or (isinstance(y, ast.Name) and y.id in elem) for y in ast.walk(e))
                vnodes, gnodes = [], []
                for nd in g.nodes:
                    if nd.stmt is None:
                        continue
                    for e in g.own_exprs(nd):
                        for c in ast.walk(e):
                            if isinstance(c, ast.Call) and isinstance(c.func, ast.Attribute) and (c.func.attr == "visit" or c.func.attr.startswith("visit_") or c.func.attr == "generic_visit"):
                                if any(mentions(a) for a in c.args) or (c.func.attr != "visit" and any(isinstance(a, ast.Name) and a.id == param for a in c.args)):
                                    vnodes.append(nd)
                    if nd.kind == "test" and isinstance(nd.stmt, (ast.If, ast.While)):
                        if _pure_kind_test(nd.stmt.test, mentions):
                            gnodes.append(nd)
                        else:
                            k = (m.name, fld, norm_locals(src(nd.stmt.test), m.node))
                            if k in TRAVERSAL_GUARDS:
                                gnodes.append(nd)
                                used_guards.add(k)
                n += 1
                rep.instance(rule, f"every-path/{name}.{fld}", nontrivial=True, sample={"handler": m.qualname, "field": fld, "visit sites": sorted({v.lineno for v in vnodes})} if n <= 3 else None)
                p = g.path_avoiding(g.entry, lambda x: x is g.exit, lambda x: x in vnodes or x in gnodes, follow_exc=False)
                if p is not None:
                    rep.add(Finding(rule, f"{rule}/every-path/{name}.{fld}", m.module.rel, m.node.lineno, m.qualname,
                                    f"{m.qualname} descends into {name}.{fld} on some paths only: a path that never tests the field returns without visiting it, so datasets and "
                                    f"script-level values read inside that sub-expression create no dependency edge for the statement (it can run before its producer, or after the "
                                    f"producer's table was released)", describe_path(p)))
    for k in used_guards:
        rep.exemption(rule, "/".join(k), TRAVERSAL_GUARDS[k])
    rep.floor(f"{rule} handler fields", n, min(3, len(only_nodes)) if only_nodes else 12)



def alias_after_operand(P: Program, rep: Report, rule: str) -> None:
    """The dependency analysis records a join alias (`DS_1 as a`) so that later mentions of `a` are not taken for datasets to load.  The
    alias must be recorded only AFTER the aliased operand itself has been visited: `inner_join(DS_1 as DS_1, ...)` is legal, and if
    the name is already in the alias set when the operand is visited the dataset is never made an input of the statement (it is not
    loaded: `Table DS_1 does not exist`).  Rule: every `self.<set>.add(<x>.right.value)` is preceded, on every path, by a visit of
    `<x>.left` or of `<x>` itself."""
    n = 0
    for cq in (DAG, f"{DAGMOD}.HRDAGAnalyzer"):
        c = P.cls(cq)
        for name, f in c.methods.items():
            adds = [x for x in walk_no_nested(f.node) if isinstance(x, ast.Call) and isinstance(x.func, ast.Attribute) and x.func.attr == "add"
                    and isinstance(x.func.value, ast.Attribute) and isinstance(x.func.value.value, ast.Name) and x.func.value.value.id == "self"
                    and x.args and isinstance(x.args[0], ast.Attribute) and x.args[0].attr == "value" and isinstance(x.args[0].value, ast.Attribute) and x.args[0].value.attr == "right"]
            if not adds:
                continue
            g = CFG(f.node, for_nonempty=True)
            for a in adds:
                root = src(a.args[0].value.value)
                n += 1
                an = [x for x in g.nodes if x.stmt is not None and x.kind == "stmt" and any(y is a for y in ast.walk(x.stmt))]
                vis = [x for x in g.nodes if x.stmt is not None and any(isinstance(y, ast.Call) and isinstance(y.func, ast.Attribute) and y.func.attr == "visit" and y.args
                                                                         and src(y.args[0]) in (root, f"{root}.left") for e in g.own_exprs(x) for y in ast.walk(e))]
                rep.instance(rule, f"alias-after-operand/{f.qualname}", nontrivial=True, sample={"alias recorded from": src(a.args[0]), "operand visits": sorted({v.lineno for v in vis})})
                for node_ in an:
                    p = g.path_avoiding(g.entry, lambda x, node_=node_: x is node_, lambda x: x in vis, follow_exc=False)
                    if p is not None:
                        rep.add(Finding(rule, f"{rule}/alias-after-operand/{f.qualname}", f.module.rel, a.lineno, f.qualname,
                                        f"`{src(a)}` records the alias before the aliased operand `{root}.left` has been visited: a dataset whose name equals an alias of the same join "
                                        f"(`DS_1 as DS_1`, `DS_2 as DS_1`) is then taken for the alias, is not an input of the statement and is never loaded", describe_path(p)))
    rep.floor(f"{rule} alias recording sites", n, 1)



def udo_body_copied(P: Program, rep: Report, rule: str) -> None:
    """The interpreter keeps the body of every user-defined operator in its registry and evaluates it once per call; evaluating binds
    the call's arguments INTO the tree (visit_VarID rewrites node.value for dataset and component parameters).  Every evaluation must
    therefore run on a deep copy: `self.visit(E)` with E reaching the stored `["expression"]` is only allowed through deepcopy(...) on
    every path, otherwise the first call's arguments stay in the stored body and later calls - in whatever order the statements run -
    compute with them."""
    f = P.func("vtlengine.Interpreter.InterpreterAnalyzer.visit_UDOCall")
    g = CFG(f.node)

    def is_copy(e: ast.AST) -> bool:
        return isinstance(e, ast.Call) and src(e.func).split(".")[-1] == "deepcopy"

    def reaches_stored(e: ast.AST, depth: int = 0) -> bool:
        for x in ast.walk(e):
            if isinstance(x, ast.Subscript) and isinstance(x.slice, ast.Constant) and x.slice.value == "expression":
                return True
            if isinstance(x, ast.Name) and depth < 4:
                for d in walk_no_nested(f.node):
                    if isinstance(d, (ast.Assign, ast.AnnAssign)) and d.value is not None and any(isinstance(t, ast.Name) and t.id == x.id for t in (d.targets if isinstance(d, ast.Assign) else [d.target])) \
                            and d.value is not e and reaches_stored(d.value, depth + 1):
                        return True
        return False
    n = 0
    for c in [x for x in walk_no_nested(f.node) if isinstance(x, ast.Call) and isinstance(x.func, ast.Attribute) and x.func.attr == "visit" and x.args]:
        a = c.args[0]
        if not reaches_stored(a):
            continue
        n += 1
        rep.instance(rule, f"udo-body-copy/{norm_locals(src(c), f.node)[:50]}", nontrivial=True, sample={"visited": src(a)[:80]})
        if is_copy(a):
            continue
        bad = None
        if isinstance(a, ast.Name):
            defs = [x for x in g.nodes if x.stmt is not None and x.kind == "stmt" and isinstance(x.stmt, (ast.Assign, ast.AnnAssign))
                    and any(isinstance(t, ast.Name) and t.id == a.id for t in (x.stmt.targets if isinstance(x.stmt, ast.Assign) else [x.stmt.target]))]
            copies = [x for x in defs if x.stmt.value is not None and is_copy(x.stmt.value)]
            vnode = [x for x in g.nodes if x.stmt is not None and any(y is c for e in g.own_exprs(x) for y in ast.walk(e))]
            for d in [x for x in defs if x not in copies]:
                for vn in vnode:
                    pth = g.path_avoiding(d, lambda x, vn=vn: x is vn, lambda x: x in copies, follow_exc=False)
                    if pth is not None:
                        bad = describe_path(pth)
        else:
            bad = [f"self.visit({src(a)[:60]})"]
        if bad:
            rep.add(Finding(rule, f"{rule}/udo-body-copy", f.module.rel, c.lineno, f.qualname,
                            f"`{src(c)[:80]}` can evaluate the STORED body of the user-defined operator instead of a deep copy: evaluation writes the call's arguments into the tree, "
                            f"so a second call from another statement computes with the first call's component / dataset names and the result depends on statement order", bad))
    rep.floor(f"{rule} evaluations of a stored operator body", n, 1)


def handler_field_matrix(P: Program, rep: Report, rule: str, only_nodes: Optional[Set[str]] = None, floor: int = 45) -> int:
    """AST-node x DAGAnalyzer-handler matrix: every field of a node class that can hold an operand expression is visited by the handler
    the dependency analysis uses for that class (its own or the inherited ASTTemplate traversal).  Shared with C06 (analytic nodes) and
    C13 (all nodes: an operand that creates no edge is not kept for its reader)."""
    N = e7.node_classes(P)
    dag = P.cls(DAG)
    nfields = 0
    for name, nc in sorted(N.items()):
        if name == "AST" or not nc.node_fields or (only_nodes is not None and name not in only_nodes):
            continue
        m, visited = handler_visits(P, dag, name)
        for fld in sorted(nc.node_fields):
            nfields += 1
            key = f"{name}.{fld}"
            rep.instance(rule, key, nontrivial=True, sample={"node": name, "field": fld, "handler": m.qualname if m else None,
                                                               "visited": fld in visited} if name in ("BinOp", "JoinOp", "Aggregation") else None)
            if fld in visited:
                continue
            if (name, fld) in SKIPPED_FIELDS:
                rep.exemption(rule, key, SKIPPED_FIELDS[(name, fld)])
                continue
            where = m.module.rel if m else dag.module.rel
            line = m.node.lineno if m else dag.node.lineno
            rep.add(Finding(rule, f"{rule}/{key}", where, line, m.qualname if m else DAG,
                            f"AST field {key} ({nc.fields[fld]}) can hold an operand expression but the dependency analysis "
                            f"{'handler ' + m.qualname + ' never visits it' if m else 'has no visit_' + name + ' handler'}: a dataset used there "
                            f"creates no dependency edge, so the statement may run before its producer"))
    rep.floor(f"{rule} node-bearing AST fields", nfields, floor)
    for (cn, fl), _ in SKIPPED_FIELDS.items():
        if cn not in N or fl not in N[cn].fields:
            rep.note(f"{rule} exemption refers to a field that no longer exists: {cn}.{fl}")
    return nfields


STRUCTURE_SOURCES_CALLS = {"_get_dataset_structure": "the structure of another dataset", "get_structure": "the structure of another dataset", "_get_output_dataset": "the statement's output structure"}
STRUCTURE_SOURCES_ATTRS = {"available_tables": "available_tables", "output_datasets": "output_datasets", "input_datasets": "input_datasets"}


def stored_structures_untouched(P: Program, rep: Report, rule: str) -> int:
    """No method of the transpiler or its structure visitor mutates a structure it got from the tables shared by all statements
    (available_tables / input_datasets / output_datasets, or through _get_dataset_structure / _get_output_dataset): the structure of an
    operand is what every later statement of the same script resolves against, so a component added to it in place makes the result of a
    later statement depend on which statements were transpiled before it (effect analysis, interprocedural, per method)."""
    from sa import structmodel as _sm
    A = EffectAnalysis(P)
    A.source_calls = dict(STRUCTURE_SOURCES_CALLS)
    A.source_attrs = dict(STRUCTURE_SOURCES_ATTRS)
    n = 0
    seen: Set[str] = set()
    for cq in (_sm.SV, _sm.TRQ):
        c = P.cls(cq)
        for name, f in sorted(c.methods.items()):
            summ = A.analyse(f, {}, (f.qualname,))
            n += 1
            if name in ("_build_calc_structure", "_build_ds_ds_binop_structure", "visit_Assignment"):
                rep.instance(rule, f.qualname, nontrivial=True, sample={"method": f.qualname, "mutations_of_shared_structures": len(summ.sites)})
            else:
                rep.instance(rule, f.qualname, nontrivial=True)
            for s_ in summ.sites:
                k = f"{s_.func}/{(s_.norm or s_.text)[:70]}"
                if k in seen:
                    continue
                seen.add(k)
                rep.add(Finding(rule, f"{rule}/{k}", s_.file, s_.line, s_.func,
                                f"`{s_.text[:90]}` mutates {', '.join(sorted(set(s_.origins)))} (reached from {f.qualname}): that object is shared by every statement of the script, "
                                f"so a later statement that enumerates the components of the same dataset sees the change - the result depends on which statements were transpiled before"))
    rep.floor(f"{rule} transpiler methods analysed", n, 150)
    return n


def interpreter_leaves_operands(P: Program, rep: Report, rule: str, only_methods: Optional[Set[str]] = None, floor: int = 30) -> int:
    """InterpreterAnalyzer.visit_X returns, for a dataset name, a SHALLOW copy of the stored dataset: the Dataset object is fresh, its components
    dict and Component objects are the stored ones.  No visit_* method (nor anything it calls) may mutate those shared parts: a component
    deleted, renamed or retyped in place changes what every later statement reading the same dataset sees.  Effect analysis with
    `self.visit(...)` results as fresh holders of shared parts; the operator-level in-place edits already reviewed under R12.6
    (OPERAND_MUTATION_REFERENCE) are exempt here with the same reasons.  Shared with C03 (aggregation / having)."""
    A = EffectAnalysis(P)
    A.source_calls_fresh = {"visit": "the structure of an operand (shallow copy of a stored dataset)"}
    A.track_self_attrs = True
    c = P.cls("vtlengine.Interpreter.InterpreterAnalyzer")
    # first pass over ALL visit methods: which attributes of the interpreter hold (parts of) an operand structure between methods (self.aggregation_dataset, ...)
    for name, f in sorted(c.methods.items()):
        if name.startswith("visit_"):
            A.analyse(f, {}, (f.qualname,))
    A.memo.clear()
    n = 0
    seen: Set[str] = set()
    for name, f in sorted(c.methods.items()):
        if not name.startswith("visit_") or (only_methods is not None and name not in only_methods):
            continue
        summ = A.analyse(f, {}, (f.qualname,))
        n += 1
        rep.instance(rule, f"interpreter/{name}", nontrivial=True, sample={"method": name, "mutations_of_operand_structures": len(summ.sites)} if summ.sites or name in ("visit_Aggregation", "visit_ParamOp") else None)
        for s_ in summ.sites:
            norm = s_.norm or s_.text
            if any(r[0] == s_.func and norm.startswith(r[1]) and r[0].startswith("vtlengine.Operators.") for r in OPERAND_MUTATION_REFERENCE):
                continue
            k = f"{s_.func}/{norm[:70]}"
            if k in seen:
                continue
            seen.add(k)
            rep.add(Finding(rule, f"{rule}/{k}", s_.file, s_.line, s_.func,
                            f"`{s_.text[:90]}` mutates {', '.join(sorted(set(s_.origins)))} (reached from InterpreterAnalyzer.{name}): visit_VarID hands out a shallow copy, so the components "
                            f"dict and the Component objects are those of the dataset stored for the rest of the script - a later statement (or the same one) no longer finds the component"))
    rep.floor(f"{rule} interpreter visit methods analysed", n, floor if only_methods is None else len(only_methods))
    return n
