"""C19 - run() rejects every input that violates its declared structure (DESIGN §3 C19).

R19.1 constraint emission: build_create_table_sql emits NOT NULL exactly for identifiers and non-nullable components
      (decision table over role × nullable); the post-load validation normalises Time_Period values BEFORE the
      duplicate / single-row / format checks and performs all of them on every path (unless the documented skip flag)
R19.2 accept-language ⊆ valid-language for Time_Period: the load regex, restricted to canonical shapes (which the
      normaliser's fast path returns unchanged), admits only real periods (period numbers within PeriodDuration.periods);
      Time intervals are checked for start ≤ end somewhere on the load path
R19.3 documented formats ⊆ accept-language: every format and example of the "Accepted input formats" docs tables for
      Time (intervals) and Time_Period is accepted by the loader's regex pipeline
Not decided: what DuckDB's own CAST accepts for Integer/Number/Boolean/Date text.
"""
from __future__ import annotations

import ast
import re
from typing import Any, Dict, List, Optional, Set, Tuple

from sa import regexlang, rst, sqlconc, sqlexpr, sqlx
from sa.cfg import CFG, describe_path
from sa.core import AnalysisError, Finding, Program, Report, program, src, walk_no_nested
from sa.e6 import ClassVal, ExternalObj, Interp, Raised

VAL = "vtlengine.duckdb_transpiler.io._validation"
IO = "vtlengine.duckdb_transpiler.io._io"


def pattern(P: Program, modname: str, name: str) -> str:
    m = P.module(modname)
    if name not in m.assigns:
        raise AnalysisError(f"anchor vanished: {modname}.{name}")
    v = P.const_values(None, m, m.assigns[name])
    if not v or len(v) != 1:
        raise AnalysisError(f"{name} is not a constant pattern")
    return next(iter(v))


def _callee_name(c: ast.Call) -> str:
    return c.func.id if isinstance(c.func, ast.Name) else (c.func.attr if isinstance(c.func, ast.Attribute) else "")


def period_limits(P: Program) -> Dict[str, int]:
    """PeriodDuration.periods: indicator -> number of periods in a year (class-level dict literal)"""
    thm = P.module("vtlengine.DataTypes.TimeHandling")
    limits: Dict[str, int] = {}
    pd_cls = thm.classes.get("PeriodDuration")
    if pd_cls is not None:
        for st in ast.walk(pd_cls.node):
            if isinstance(st, ast.Assign) and any(isinstance(t, ast.Name) and t.id == "periods" for t in st.targets) and isinstance(st.value, ast.Dict):
                limits = {k.value: v_.value for k, v_ in zip(st.value.keys, st.value.values) if isinstance(k, ast.Constant) and isinstance(v_, ast.Constant)}
    if set(limits) < set("ASQMWD"):
        raise AnalysisError("PeriodDuration.periods not found")
    return limits


class _LoadEvents:
    """Events of the post-load validation, followed through helpers of the io modules (call depth <= 4):
    norm = _normalize_time_period_columns, dup = validate_no_duplicates, temp = validate_temporal_columns, dwi = a COUNT(*) query.
    The documented VTL_SKIP_LOAD_VALIDATION switch is taken out by specialising every function under `_skip_load_validation() == False`
    (an `if [not] _skip_load_validation():` is replaced by the branch taken when validation is not skipped)."""
    DIRECT = {"_normalize_time_period_columns": "norm", "validate_no_duplicates": "dup", "validate_temporal_columns": "temp"}

    def __init__(self, P: Program, skipping: bool = False) -> None:
        self.P = P
        self.skipping = skipping  # True: specialise under _skip_load_validation() == True instead (what still happens with the documented switch on)
        self._cfg: Dict[str, CFG] = {}
        self._kinds: Dict[str, Set[str]] = {}
        self.skip_seen = False

    def _specialise(self, fn: ast.AST) -> ast.AST:
        import copy
        outer = self
        root = copy.deepcopy(fn)

        class T(ast.NodeTransformer):
            def visit_If(self, node: ast.If) -> Any:
                self.generic_visit(node)
                t = node.test
                neg = isinstance(t, ast.UnaryOp) and isinstance(t.op, ast.Not)
                core = t.operand if neg else t  # type: ignore[union-attr]
                if isinstance(core, ast.Call) and _callee_name(core) == "_skip_load_validation":
                    outer.skip_seen = True
                    taken = (node.orelse if neg else node.body) if outer.skipping else (node.body if neg else node.orelse)
                    return taken or [ast.copy_location(ast.Pass(), node)]
                return node

            def visit_FunctionDef(self, node: ast.FunctionDef) -> Any:
                if node is not root:
                    return node
                self.generic_visit(node)
                return node
        return T().visit(root)

    def cfg(self, f: Any) -> CFG:
        if f.qualname not in self._cfg:
            self._cfg[f.qualname] = CFG(self._specialise(f.node))
        return self._cfg[f.qualname]

    def helper(self, f: Any, c: ast.Call) -> Optional[Any]:
        if _callee_name(c) in self.DIRECT:
            return None
        for q in self.P.resolve_call(f, c):
            g = self.P.functions.get(q)
            if g is not None and g.module.name.startswith("vtlengine.duckdb_transpiler.io") and g.cls is None:
                return g
        return None

    def direct(self, c: ast.Call) -> Optional[str]:
        nm = _callee_name(c)
        if nm in self.DIRECT:
            return self.DIRECT[nm]
        if any("COUNT(*)" in (sqlx.skeleton_of(a) or ("", []))[0] for a in c.args):
            return "dwi"
        return None

    def kinds(self, f: Any, depth: int = 0) -> Set[str]:
        if f.qualname in self._kinds:
            return self._kinds[f.qualname]
        self._kinds[f.qualname] = set()
        out: Set[str] = set()
        g = self.cfg(f)
        for n in g.nodes:
            for c in g.calls_at(n):
                d = self.direct(c)
                if d:
                    out.add(d)
                elif depth < 4:
                    h = self.helper(f, c)
                    if h is not None:
                        out |= self.kinds(h, depth + 1)
        self._kinds[f.qualname] = out
        return out

    def _nodes_must(self, f: Any, kind: str, depth: int = 0) -> List[Any]:
        """nodes of f whose normal completion implies that an event of `kind` happened"""
        g = self.cfg(f)
        out = []
        for n in g.nodes:
            for c in g.calls_at(n):
                if self.direct(c) == kind:
                    out.append(n)
                elif depth < 4:
                    h = self.helper(f, c)
                    if h is not None and kind in self.kinds(h) and self.path_without(h, kind, depth + 1) is None:
                        out.append(n)
        return out

    def path_without(self, f: Any, kind: str, depth: int = 0) -> Optional[List[str]]:
        g = self.cfg(f)
        must = self._nodes_must(f, kind, depth)
        p = g.path_avoiding(g.entry, lambda n: n is g.exit, lambda n: n in must, follow_exc=False)
        return None if p is None else describe_path(p)

    def reachable_before(self, f: Any, kind: str, before: str, depth: int = 0) -> Optional[Tuple[Any, int, List[str]]]:
        """a `kind` event that some path reaches without a completed `before` event: (function, line, path)"""
        g = self.cfg(f)
        done = self._nodes_must(f, before, depth)
        for n in sorted(g.nodes, key=lambda x: x.lineno):
            if n in done:
                continue
            for c in g.calls_at(n):
                if self.direct(c) == kind:
                    p = g.path_avoiding(g.entry, lambda x, n=n: x is n, lambda x: x in done, follow_exc=False)
                    if p is not None:
                        return (f, n.lineno, describe_path(p))
                elif depth < 4:
                    h = self.helper(f, c)
                    if h is not None and kind in self.kinds(h):
                        p = g.path_avoiding(g.entry, lambda x, n=n: x is n, lambda x: x in done, follow_exc=False)
                        if p is not None:
                            inner = self.reachable_before(h, kind, before, depth + 1)
                            if inner is not None:
                                return (inner[0], inner[1], describe_path(p) + ["-> " + h.qualname] + inner[2])
        return None


def run(rep: Report, tier: str) -> None:
    P = program()
    macros = {k.lower(): v for k, v in sqlx.load_macros(P).items()}
    rep.explanation = ("Decision table of the CREATE TABLE builder over role × nullable; CFG ordering rules in the post-load validation; "
                       "regular-language inclusion (regex → NFA → product search with witnesses) between the load regexes and the language of "
                       "real periods derived from PeriodDuration.periods; documented formats/examples read from the docs tables and pushed "
                       "through the parsed normalisation macro and the load regex.")
    for rid, text in [("R19.1", "NOT NULL emitted iff identifier or non-nullable; normalise ≺ duplicate/DWI/format checks on every path"),
                      ("R19.2", "load accept-language ⊆ language of real periods; interval order checked"),
                      ("R19.3", "documented input formats and examples are accepted by the loader")]:
        rep.rule(rid, text)

    not_null_decision_table(P, rep, "R19.1")
    # ordering in _validate_loaded_table (helpers of the same module are followed: see _LoadEvents)
    ev = _LoadEvents(P)
    v = P.func(f"{IO}._validate_loaded_table")
    have = ev.kinds(v)
    if not {"norm", "dup", "temp", "dwi"} <= have:
        raise AnalysisError(f"_validate_loaded_table: normalise / duplicate / temporal / single-row checks not all found (found {sorted(have)})")
    for kind, nm in (("dup", "duplicate-key check"), ("temp", "temporal format check"), ("dwi", "single-datapoint check")):
        rep.instance("R19.1", f"order/normalise-before-{nm}", nontrivial=True)
        bad = ev.reachable_before(v, kind, "norm")
        if bad is not None:
            fn_, line_, path_ = bad
            rep.add(Finding("R19.1", f"R19.1/order/normalise-before-{nm}", fn_.module.rel, line_, fn_.qualname,
                            f"the {nm} can run before Time_Period values are normalised: the same period spelled in two accepted ways "
                            f"(2020M1 / 2020-M01) is then compared as raw text", path_))
    for kind, nm in (("dup", "duplicate-key check"), ("temp", "temporal format check")):
        rep.instance("R19.1", f"on-every-path/{nm}", nontrivial=True)
        p = ev.path_without(v, kind)
        if p is not None:
            rep.add(Finding("R19.1", f"R19.1/on-every-path/{nm}", v.module.rel, v.node.lineno, v.qualname,
                            f"_validate_loaded_table can return without the {nm} (other than through the documented skip flag)", p))
    if not ev.skip_seen:
        raise AnalysisError("_validate_loaded_table: the documented VTL_SKIP_LOAD_VALIDATION switch was not found")
    # every loader reaches _validate_loaded_table on its success paths
    for ln in ("load_datapoints_duckdb", "_load_parquet", "register_dataframes"):
        lf = P.func(f"{IO}.{ln}")
        gl = CFG(lf.node)
        vn = [n for n in gl.nodes if any(_callee_name(c) == "_validate_loaded_table" for c in gl.calls_at(n))]
        # locals holding an INSERT statement text (assigned from a skeleton that starts with INSERT INTO)
        ins_vars = {t.id for n_ in walk_no_nested(lf.node) if isinstance(n_, (ast.Assign, ast.AnnAssign)) and n_.value is not None
                    and "INSERT INTO" in (sqlx.skeleton_of(n_.value) or ("", []))[0].upper()
                    for t in (n_.targets if isinstance(n_, ast.Assign) else [n_.target]) if isinstance(t, ast.Name)}
        inserts = [n for n in gl.nodes if n.kind == "stmt" and any("INSERT INTO" in (sqlx.skeleton_of(a) or ("", []))[0].upper() or
                                                                    (isinstance(a, ast.Name) and a.id in ins_vars) for c in gl.calls_at(n) for a in c.args)]
        rep.instance("R19.1", f"validate-after-load/{ln}", nontrivial=True)
        if not inserts or not vn:
            raise AnalysisError(f"{ln}: INSERT execution / _validate_loaded_table call not found")
        for ins in inserts:
            # from a successful INSERT, every normal path to the next loop iteration / exit passes validation
            targets = lambda n: n is gl.exit or (n.kind == "loop")
            for s in gl.norm_succ.get(ins, set()):
                p = [s] if (s not in vn and targets(s)) else (None if s in vn else gl.path_avoiding(s, targets, lambda n: n in vn, follow_exc=False))
                if p is not None:
                    rep.add(Finding("R19.1", f"R19.1/validate-after-load/{ln}", lf.module.rel, ins.lineno, lf.qualname,
                                    f"{ln} can finish loading a table without _validate_loaded_table (duplicates / formats unchecked)", describe_path(p)))

    # ---- R19.2 languages ------------------------------------------------------------------------------------
    tp_pat = pattern(P, VAL, "TIME_PERIOD_PATTERN")
    tp = regexlang.compile_nfa(tp_pat, "search")
    limits = period_limits(P)
    def num_re(lim: int, width: int) -> str:
        return "(" + "|".join(str(i).zfill(width) for i in range(1, lim + 1)) + ")"
    shapes = {"A": (r"\d{4}A", r"\d{4}A"), "S": (r"\d{4}-S\d", r"\d{4}-S" + num_re(limits["S"], 1)),
              "Q": (r"\d{4}-Q\d", r"\d{4}-Q" + num_re(limits["Q"], 1)), "M": (r"\d{4}-M\d{2}", r"\d{4}-M" + num_re(limits["M"], 2)),
              "W": (r"\d{4}-W\d{2}", r"\d{4}-W" + num_re(limits["W"], 2)), "D": (r"\d{4}-D\d{3}", r"\d{4}-D" + num_re(limits["D"], 3))}
    # the normaliser returns canonical shapes unchanged (fast path): checked by evaluating the parsed macro on shape witnesses
    for ind, (shape, valid) in shapes.items():
        sh = regexlang.compile_nfa(shape)
        w_shape = regexlang.witness([sh])
        try:
            fixed = sqlconc.call_macro(macros, "vtl_period_normalize", w_shape) == w_shape
        except (sqlconc.SqlError, sqlexpr.ParseError):
            fixed = False
        w = regexlang.witness([tp, sh], [regexlang.compile_nfa(valid)])
        rep.instance("R19.2", f"time_period/{ind}", nontrivial=True, sample={"indicator": ind, "canonical_shape": shape, "max_period": limits[ind],
                                                                              "normaliser_keeps_shape": fixed, "invalid_but_accepted": w})
        if w is not None and fixed:
            rep.add(Finding("R19.2", f"R19.2/time_period/{ind}", f"src/vtlengine/duckdb_transpiler/io/_validation.py",
                            P.module(VAL).assigns["TIME_PERIOD_PATTERN"].lineno, "TIME_PERIOD_PATTERN",
                            f"the load regex accepts `{w}` (canonical shape {shape}, returned unchanged by vtl_period_normalize): period number "
                            f"outside 1..{limits[ind]} for indicator {ind} is not a real period but run() accepts it"))
    # compact annual with a digit: \d{4}A\d
    w = regexlang.witness([tp, regexlang.compile_nfa(r"\d{4}A[02-9]")])
    rep.instance("R19.2", "time_period/annual-digit", nontrivial=True, sample={"witness": w})
    if w is not None:
        rep.add(Finding("R19.2", "R19.2/time_period/annual-digit", "src/vtlengine/duckdb_transpiler/io/_validation.py",
                        P.module(VAL).assigns["TIME_PERIOD_PATTERN"].lineno, "TIME_PERIOD_PATTERN",
                        f"the load regex accepts `{w}` (annual indicator followed by a digit other than 1): not a period of any documented form"))
    # interval order: some function on the load path compares the two dates
    loaders = [fn for fn in P.iter_functions() if fn.module.name in (IO, VAL)]
    order_checked = any(re.search(r"date1|start.*>.*end|\[0\]\s*>\s*.*\[1\]|split\(['\"]/['\"]\)", src(fn.node)) and "TimeInterval" in src(fn.node) for fn in loaders) or \
        any("vtl_interval" in s.text and (">" in s.text or "<=" in s.text) for s in sqlx.iter_skeletons(P) if s.module.name in (IO, VAL))
    rep.instance("R19.2", "interval-order", nontrivial=True, sample={"order_check_on_load_path": order_checked})
    if not order_checked:
        rep.add(Finding("R19.2", "R19.2/interval-order", "src/vtlengine/duckdb_transpiler/io/_validation.py",
                        P.module(VAL).assigns["TIME_INTERVAL_PATTERN"].lineno, "TIME_INTERVAL_PATTERN",
                        "Time values are validated by shape only: nothing on the load path compares the two dates, so a reversed interval "
                        "(2020-12-31/2020-01-01) is accepted by run() (the pandas validator rejects it)"))

    # ---- R19.3 docs ⊆ accept ----------------------------------------------------------------------------------
    tabs = rst.tables(P.repo / "docs" / "data_types.rst")
    ti = regexlang.compile_nfa(pattern(P, VAL, "TIME_INTERVAL_PATTERN"), "search")
    time_tab = [t for t in tabs if t.titles and t.titles[-1].startswith("Time (TimeInterval)")]
    if not time_tab:
        raise AnalysisError("docs: Time (TimeInterval) table not found")
    cell = next((r[1] for r in time_tab[0].rows if r and r[0].startswith("Input")), "")
    doc_fmts = re.findall(r'"([^"]+)"', cell)
    PLACEHOLDER = {"YYYY": r"\d{4}", "MM": r"\d{2}", "DD": r"\d{2}"}
    nfmt = 0
    for fm in doc_fmts:
        rx = re.escape(fm)
        for k, v_ in PLACEHOLDER.items():
            rx = rx.replace(k, v_)
        rx = rx.replace(r"\-", "-").replace(r"\/", "/")
        try:
            lang = regexlang.compile_nfa(rx)
        except regexlang.Unsupported:
            continue
        nfmt += 1
        w = regexlang.witness([lang], [ti])
        rep.instance("R19.3", f"time/{fm}", nontrivial=True, sample={"documented": fm, "as_regex": rx, "rejected_witness": w})
        if w is not None:
            rep.add(Finding("R19.3", f"R19.3/time/{fm}", "docs/data_types.rst", time_tab[0].line, "Time (TimeInterval) input",
                            f"documented Time input form \"{fm}\" (e.g. `{w}`) is rejected by the loader's TIME_INTERVAL_PATTERN"))
    rep.floor("documented Time formats", nfmt, 2)
    canon_ok = regexlang.compile_nfa("|".join(v_[0] for v_ in shapes.values()))
    in_tab = [t for t in tabs if t.rows and t.rows[0][:3] == ["Period", "Formats", "Examples"]]
    if not in_tab:
        raise AnalysisError("docs: Time_Period input formats table not found")
    nex = 0
    for row in in_tab[0].rows[1:]:
        for ex in [x.strip() for x in row[2].split(",") if x.strip()]:
            nex += 1
            try:
                norm = sqlconc.call_macro(macros, "vtl_period_normalize", ex.upper())
                ok = isinstance(norm, str) and tp.matches(norm.upper())
            except (sqlconc.SqlError, sqlexpr.ParseError) as e:
                norm, ok = f"<error {e}>", False
            rep.instance("R19.3", f"time_period-example/{ex}", nontrivial=True, sample={"example": ex, "normalised": norm, "accepted": ok} if nex <= 2 else None)
            if not ok:
                rep.add(Finding("R19.3", f"R19.3/time_period-example/{ex}", "docs/data_types.rst", in_tab[0].line, "Time_Period input formats",
                                f"documented Time_Period input \"{ex}\" is normalised to {norm!r} and rejected by the load regex"))
    rep.floor("documented Time_Period examples", nex, 10)
    rep.analysed = {"period_limits": limits, "docs_time_formats": doc_fmts, "docs_time_period_examples": nex}
    integer_csv_guard(P, rep, "R19.4")
    rep.rule("R19.6", "post-load validation queries examine every row: no LIMIT inside a derived table that the outer query filters")
    limit_before_filter(P, rep, "R19.6")
    # ---- R19.5 one period, one key: every accepted spelling is normalised to the canonical text BEFORE the duplicate check compares texts ----
    rep.rule("R19.5", "every accepted spelling of a Time_Period is normalised to the one canonical text (two spellings of one period must meet in the duplicate-key check)")
    from sa.checks.c21 import spelling_grid
    spelling_grid(rep, "R19.5", macros, limits, null_clause=True)
    # ---- R19.7: the nullability a structure declares is the nullability the loaders enforce ----
    rep.rule("R19.7", "_build_component evaluated over role x declared nullability: an explicit `nullable` is taken as given (false stays false for measures and attributes), a missing "
                      "one defaults to `role is not Identifier` - the NOT NULL constraint of the input table and the missing-column check are built from it")
    from sa.e6 import Unmodelled as _U197
    fb7 = P.func("vtlengine.API._InternalApi._build_component")
    n7 = 0
    for role in ("Identifier", "Measure", "Attribute", "ViralAttribute"):
        for nl in ("absent", True, False):
            cj: Dict[str, Any] = {"name": "X", "role": role, "type": "Number", "data_type": "Number"}
            if nl != "absent":
                cj["nullable"] = nl
            try:
                r7 = Interp(P, externals={"_extract_data_type": lambda c: (None, ClassVal("vtlengine.DataTypes.Number")), "VTL_Component": lambda **kw: kw, "Component": lambda **kw: kw}).call(fb7, {"component": cj})
                got7 = r7.get("nullable") if isinstance(r7, dict) else getattr(r7, "nullable", "<?>")
            except Raised as e:
                got7 = f"<raises {getattr(e.exc, 'code', None) or getattr(e.exc, 'kind', '?')}>"
            except _U197 as e:
                raise AnalysisError(f"R19.7: _build_component outside the evaluator's language: {e}")
            want7 = nl if nl != "absent" else role != "Identifier"
            n7 += 1
            rep.instance("R19.7", f"nullable/{role}/{nl}", nontrivial=True, sample={"role": role, "declared": nl, "loaded": got7})
            if got7 is not want7:
                rep.add(Finding("R19.7", f"R19.7/nullable/{role}/{nl}", fb7.module.rel, fb7.node.lineno, fb7.qualname,
                                f"a {role} declared with nullable={nl if nl != 'absent' else '<missing>'} is loaded with nullable={got7} (expected {want7}): the input table is created without "
                                f"(or with) NOT NULL accordingly, so a null or a missing column in a component declared not nullable is accepted instead of raising a DataLoadError"))
    rep.floor("R19.7 role/nullability combinations", n7, 12)
    # ---- R19.8: an accepted Date value comes back as the instant that was loaded (shared with C18 R18.7) ----
    rep.rule("R19.8", "result fetch: a TIMESTAMP column is rendered with its time of day iff the column holds one, sub-second fractions included (the probe's row predicate evaluated on "
                      "a model table): an accepted `YYYY-MM-DD HH:MM:SS.ffffff` value is not returned as a bare date")
    from sa.checks.c18 import fetch_time_format as _ftf
    _ftf(P, rep, "R19.8")
    # ---- R19.9: every dataset given as a DataFrame becomes a (validated) table ----
    rep.rule("R19.9", "register_dataframes creates the table of every dataset of the script on every path of its loop (only `name not in input_datasets` skips)")
    every_dataframe_becomes_a_table(P, rep, "R19.9")
    rep.rule("R19.10", "with VTL_SKIP_LOAD_VALIDATION set, _validate_loaded_table still normalises the Time_Period columns on every path (the switch skips checks, not canonicalisation)")
    normalisation_with_skip_flag(P, rep, "R19.10")
    rep.assumptions = ["DuckDB regexp_matches has search semantics (patterns are anchored explicitly)",
                       "the load regex is applied to the value after vtl_period_normalize (read from _validate_loaded_table)",
                       "DuckDB read_csv with an integral column type rounds fractional literals instead of rejecting them (observed once on the installed DuckDB while writing R19.4)"]


def not_null_decision_table(P: Program, rep: Report, rule: str) -> None:
    """build_create_table_sql evaluated over role x nullable, plain and with a storage-type override: NOT NULL iff identifier or non-nullable."""
    # ---- R19.1 decision table -------------------------------------------------------------------------------
    f = P.func(f"{VAL}.build_create_table_sql")
    role_cls = None
    mm = P.module("vtlengine.Model")
    if "Role" not in mm.classes:
        raise AnalysisError("anchor vanished: Model.Role")
    role_members = {st.targets[0].id: st.value.value for st in mm.classes["Role"].node.body
                    if isinstance(st, ast.Assign) and isinstance(st.value, ast.Constant)}
    dt = "vtlengine.DataTypes"
    for rname, rval in sorted(role_members.items()):
        for nullable in (True, False):
            # plain column, and a column whose storage type the loader overrides (Date -> TIMESTAMP: every Date column of a CSV file)
            for variant, dtype_, extra in (("plain", "Integer", {}), ("type-override", "Date", {"type_overrides": {"C": "TIMESTAMP"}})):
                comp = ExternalObj({"role": rval, "nullable": nullable, "data_type": ClassVal(f"{dt}.{dtype_}"), "name": "C"})
                it = Interp(P)
                try:
                    sql = it.call(f, dict({"table_name": "T", "components": {"C": comp}}, **extra))
                except Raised as r:
                    raise AnalysisError(f"build_create_table_sql raised {r.exc}")
                got = "NOT NULL" in str(sql).upper()
                want = (rname == "IDENTIFIER") or (not nullable)
                key = f"not-null/{rname}/{nullable}" + ("" if variant == "plain" else f"/{variant}")
                rep.instance(rule, key, nontrivial=True, sample={"role": rname, "nullable": nullable, "sql": sql})
                if variant != "plain" and "TIMESTAMP" not in str(sql).upper():
                    raise AnalysisError(f"build_create_table_sql ignores type_overrides (`{sql}`): the override variant of R19.1 has lost its anchor")
                if got != want:
                    rep.add(Finding(rule, f"{rule}/not-null/{rname}/nullable={nullable}" + ("" if variant == "plain" else f"/{variant}"), f.module.rel, f.node.lineno, f.qualname,
                                    f"component with role {rname}, nullable={nullable}" + ("" if variant == "plain" else " whose storage type is overridden (a Date column stored as TIMESTAMP)")
                                    + f": column is declared {'NOT NULL' if got else 'nullable'} (`{sql}`); identifiers and non-nullable components must reject nulls, others must accept them"))


def integer_csv_guard(P: Program, rep: Report, rule: str) -> None:
    """CSV path: a non-integral value in an Integer column is rejected (producer/consumer agreement of get_csv_read_type and
    build_select_columns, lowered with the finite evaluator).  Shared with C20: validate_dataset rejects such a value (0-3-1-6)."""
    rep.rule(rule, "CSV loader: the read type chosen for an Integer column and the SELECT expression built from it reject non-integral values (no silent rounding)")
    from sa import structmodel as sm
    from sa.e6 import Unmodelled
    grt, bsc = P.func(f"{VAL}.get_csv_read_type"), P.func(f"{VAL}.build_select_columns")
    for role_nullable, rn in ((False, "identifier"), (True, "measure")):
        comp = sm.MComp("I", "Identifier" if not role_nullable else "Measure", ClassVal("vtlengine.DataTypes.Integer"), role_nullable)
        ext = {"get_decimal_type": lambda: "DECIMAL(⟦w⟧,⟦s⟧)"}
        try:
            rt = Interp(P, externals=ext).call(grt, {"comp": comp})
            cols = Interp(P, externals=ext).call(bsc, {"components": {"I": comp}, "keep_columns": ["I"], "csv_dtypes": {"I": rt}, "dataset_name": "DS", "type_overrides": None})
        except (Unmodelled, Raised) as e:
            raise AnalysisError(f"{rule}: CSV select builder outside the evaluator's language: {e}")
        expr = cols[0] if cols else ""
        rep.instance(rule, f"integer-csv/{rn}", nontrivial=True, sample={"read_type": rt, "select": " ".join(str(expr).split())[:160]})
        integral_read = str(rt).upper().split("(")[0] in ("BIGINT", "INTEGER", "INT", "SMALLINT", "HUGEINT", "TINYINT")
        guarded = "error(" in str(expr).lower() and ("floor(" in str(expr).lower() or "trunc(" in str(expr).lower() or "% 1" in str(expr) or "round(" in str(expr).lower())
        if integral_read:
            rep.add(Finding(rule, f"{rule}/integer-csv/{rn}", grt.module.rel, grt.node.lineno, grt.qualname,
                            f"an Integer {rn} is read from CSV with the integral column type {rt}: DuckDB's CSV reader rounds a literal such as 1.5 to 2 while parsing (no error, "
                            f"ignore_errors or not), so the fractional value is accepted and two rows 7.25 / 7 collapse into one key; the read type must keep the fraction "
                            f"(DOUBLE / DECIMAL / VARCHAR) for the select expression to be able to reject it"))
        elif not guarded:
            rep.add(Finding(rule, f"{rule}/integer-csv/{rn}", bsc.module.rel, bsc.node.lineno, bsc.qualname,
                            f"an Integer {rn} read from CSV as {rt} is loaded with `{' '.join(str(expr).split())[:140]}`: no test of the decimal part and the cast to BIGINT rounds, so 1.5 is accepted "
                            f"as 2 instead of being rejected with DataLoadError 0-3-1-6 (the read type and the branch of build_select_columns that guards it no longer agree)"))


def loaded_table_checks_on_every_path(P: Program, rep: Report, rule: str) -> None:
    """run()'s post-load validation (_validate_loaded_table): every normal exit has passed the duplicate-key check and the temporal
    format check, except through the documented VTL_SKIP_LOAD_VALIDATION return (shared with C20: validate_dataset performs these
    checks unconditionally, so a path of run() that skips one accepts inputs validate_dataset rejects)"""
    ev = _LoadEvents(P)
    v = P.func(f"{IO}._validate_loaded_table")
    for kind, nm in (("dup", "duplicate-key check"), ("temp", "temporal format check")):
        if kind not in ev.kinds(v):
            raise AnalysisError(f"_validate_loaded_table no longer reaches the {nm}")
        rep.instance(rule, f"run-side/on-every-path/{nm}", nontrivial=True)
        p = ev.path_without(v, kind)
        if p is not None:
            rep.add(Finding(rule, f"{rule}/run-side/on-every-path/{nm}", v.module.rel, v.node.lineno, v.qualname,
                            f"run(): _validate_loaded_table can return without the {nm} (other than through the documented skip flag), while validate_dataset always performs it: "
                            f"the two disagree on such inputs", p))



def limit_before_filter(P: Program, rep: Report, rule: str) -> None:
    """A validation query must look at EVERY stored row.  `LIMIT k` may end a query whose rows are all witnesses (`... WHERE bad LIMIT 1`:
    any one will do); a LIMIT inside a derived table whose result the outer query goes on to filter or aggregate restricts the check to
    the first k rows in physical order: a malformed value in a later row is not seen."""
    n = 0
    for sk in sqlx.iter_skeletons(P):
        if sk.func is None or not sk.func.module.name.startswith("vtlengine.duckdb_transpiler.io"):
            continue
        toks = sqlx.tokenize(sk.text)
        depth = 0
        depths = []
        for t in toks:
            if t.text == "(":
                depth += 1
            depths.append(depth)
            if t.text == ")":
                depth -= 1
        for i, t in enumerate(toks):
            if t.up != "LIMIT" or depths[i] == 0:
                continue
            n += 1
            d = depths[i]
            j = i
            while j < len(toks) and not (toks[j].text == ")" and depths[j] == d):
                j += 1
            outer = [toks[k].up for k in range(j + 1, len(toks)) if depths[k] == d - 1]
            if any(x in ("WHERE", "HAVING", "GROUP") for x in outer):
                rep.add(Finding(rule, f"{rule}/limit-before-filter/{sk.where}", sk.module.rel, sk.line, sk.where,
                                f"`{' '.join(sk.text.split())[:130]}`: the LIMIT cuts the derived table to its first row(s) BEFORE the outer query filters it, so only the first stored "
                                f"row(s) are examined: a malformed value further down the table passes run() while validate_dataset() (which checks every value) rejects it"))
    rep.instance(rule, "nested-LIMIT-sites", nontrivial=False, sample={"LIMIT inside a derived table": n})


def every_dataframe_becomes_a_table(P: Program, rep: Report, rule: str) -> None:
    """register_dataframes: on every normal path through the loop body a table is created for the dataset (CREATE TABLE from
    build_create_table_sql), whatever the DataFrame holds - the only skip is the membership guard `name not in input_datasets`.  A dataset
    without datapoints is still an operand: union / intersect / setdiff / symdiff (and every other operator) must find its (empty) table.
    Shared between C05 and C19."""
    import copy
    f = P.func(f"{IO}.register_dataframes")
    loops = [n for n in walk_no_nested(f.node) if isinstance(n, ast.For)]
    if len(loops) != 1:
        raise AnalysisError(f"register_dataframes: expected one loop over the DataFrames, found {len(loops)}")
    fn = copy.deepcopy(f.node)
    loop = [n for n in ast.walk(fn) if isinstance(n, ast.For)][0]
    dict_params = set(f.params)

    def membership_guard(st: ast.stmt) -> bool:
        return (isinstance(st, ast.If) and not st.orelse and len(st.body) == 1 and isinstance(st.body[0], ast.Continue) and isinstance(st.test, ast.Compare)
                and len(st.test.ops) == 1 and isinstance(st.test.ops[0], ast.NotIn) and isinstance(st.test.comparators[0], ast.Name) and st.test.comparators[0].id in dict_params
                and isinstance(st.test.left, ast.Name))
    guards = [st for st in loop.body if membership_guard(st)]
    loop.body = [st for st in loop.body if not membership_guard(st)] or [ast.Pass()]
    g = CFG(fn, for_nonempty=True)
    creates = [n for n in g.nodes if n.stmt is not None and any(isinstance(c, ast.Call) and any(isinstance(x, ast.Call) and (getattr(x.func, "id", "") or getattr(x.func, "attr", "")) == "build_create_table_sql"
                                                                                                   for x in ast.walk(c)) for c in g.calls_at(n))]
    # a create statement hoisted into a local first: `sql = build_create_table_sql(...); conn.execute(sql)` counts at the assignment
    if not creates:
        raise AnalysisError("register_dataframes: no CREATE TABLE (build_create_table_sql) found in the loop (anchor changed)")
    heads = [n for n in g.nodes if n.stmt is loop or (n.stmt is not None and getattr(n.stmt, "lineno", -1) == loop.lineno and n.kind in ("test", "loop", "for"))]
    first = [n for n in g.nodes if n.stmt is loop.body[0]]
    if not first or not heads:
        raise AnalysisError("register_dataframes: loop nodes not found in the CFG")
    rep.instance(rule, "register_dataframes/create-on-every-path", nontrivial=True, sample={"membership_guards": len(guards), "create_sites": len(creates)})
    p = g.path_avoiding(first[0], lambda n: n in heads or n is g.exit, lambda n: n in creates, follow_exc=False)
    if first[0] in creates:
        p = None
    if p is not None:
        rep.add(Finding(rule, f"{rule}/register_dataframes/create-on-every-path", f.module.rel, loop.lineno, f.qualname,
                        "register_dataframes can finish an iteration for a dataset of the script without creating its table (a skip that is not the `name not in input_datasets` guard): "
                        "an operand given as a DataFrame without datapoints then has no table, and the statement that reads it fails with a raw CatalogException instead of working "
                        "on an empty dataset", describe_path(p)))


def normalisation_with_skip_flag(P: Program, rep: Report, rule: str) -> None:
    """The documented benchmarking switch VTL_SKIP_LOAD_VALIDATION skips CHECKS (duplicates, temporal formats); the normalisation of
    Time_Period columns to the one canonical text is not a check - every later operator and the output rendering assume it.  With every
    function specialised under `_skip_load_validation() == True`, _validate_loaded_table still normalises on every normal path.
    Shared between C19, C20 and C21 (spellings of one period denote the same period)."""
    ev = _LoadEvents(P, skipping=True)
    v = P.func(f"{IO}._validate_loaded_table")
    if "norm" not in _LoadEvents(P).kinds(v):
        raise AnalysisError("_validate_loaded_table no longer reaches _normalize_time_period_columns")
    rep.instance(rule, "skip-flag/normalisation-on-every-path", nontrivial=True, sample={"switch_seen": True})
    p = ev.path_without(v, "norm") if "norm" in ev.kinds(v) else ["(no call of _normalize_time_period_columns remains when validation is skipped)"]
    if not ev.skip_seen:
        raise AnalysisError("_validate_loaded_table: the VTL_SKIP_LOAD_VALIDATION test not found (anchor changed)")
    if p is not None:
        rep.add(Finding(rule, f"{rule}/skip-flag/normalisation-on-every-path", v.module.rel, v.node.lineno, v.qualname,
                        "with VTL_SKIP_LOAD_VALIDATION set, _validate_loaded_table returns without normalising the Time_Period columns: the documented switch skips the checks, not the "
                        "canonicalisation - `2021S2`, `2020-01`, `2020M1` then stay as written, are compared as different texts and are rendered as NULL or garbage by the output macros", p))
