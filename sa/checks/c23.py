"""C23 - the parser never crashes and locates syntax errors (DESIGN §3 C23).  Structural clauses decided:

R23.1 (C++, lexical/brace-matched) every member of the parser's process-global `ParserState` is assigned / cleared / reset in
      do_parse before `parser->start()`; the collecting error listener replaces the default listeners on BOTH the lexer and the
      parser before the parse; get_syntax_error returns None exactly when no error was recorded
R23.2 (CFG) in create_ast the syntax error of THIS parse is read after parse() and, when present, raised as VTLSyntaxError on
      every path before the tree is visited; its line/column are the parser's own; the parsed text is the caller's text;
      create_ast_with_comments reaches create_ast on every path (outside any handler that swallows)
R23.3 a parse leaves no state behind: no function on the parse path is memoised; every process-global container the AST
      constructor writes is re-initialised at the start of each parse
R23.4 the parser lock is released on every exit: it is only taken by `with` (or an acquire is paired with a release on the
      normal and the exceptional exit)
R23.5 the parse path raises VTL errors only: every `raise` in create_ast / the AST constructor raises a VTLEngineException
      subclass, except the else-branch of a dispatch chain that is exhaustive over the grammar alternatives of its rule
      (unreachable)
Not decided: crashes / hangs inside the ANTLR C++ runtime (stack depth, malformed UTF-8), that positions lie inside the input.
"""
from __future__ import annotations

import ast
import re
from typing import Dict, List, Optional, Set, Tuple

from sa import astctor, g4, globalsx
from sa.callgraph import callgraph
from sa.cfg import CFG, describe_path
from sa.core import AnalysisError, Finding, FuncInfo, Program, Report, dotted, norm_locals, program, src, walk_no_nested

CPP = "AST/Grammar/_cpp_parser/bindings.cpp"
PARSE_ROOTS = ["vtlengine.API.create_ast", "vtlengine.AST.ASTComment.create_ast_with_comments"]
CACHE_DECOS = {"lru_cache", "cache", "cached_property", "functools.lru_cache", "functools.cache", "functools.cached_property", "memoize"}
VTL_BASE = "vtlengine.Exceptions.VTLEngineException"


# built-in raises that no text accepted by the grammar can reach (one reason each, from the grammar rule the method serves)
_E = "vtlengine.AST.ASTConstructorModules"
RAISE_UNREACHABLE: Dict[str, str] = {
    "vtlengine.AST.ASTConstructor.ASTVisitor.visitDefHierarchical/Exception#0":
        "ruleClauseHierarchical: ruleItemHierarchical (EOL ruleItemHierarchical)* - the grammar requires at least one rule, so the rule list is never empty",
    f"{_E}.Expr.Expr.visitExpr/ValueError#0":
        "caseExpr: CASE (WHEN expr THEN expr)+ ELSE expr has 1 + 4k + 2 children, so len % 4 == 3 always holds",
    f"{_E}.ExprComponents.ExprComp.visitCaseExprComp/ValueError#0":
        "caseExprComp has the same shape as caseExpr: 4k + 3 children",
    f"{_E}.Expr.Expr.visitHierarchyFunctions/NotImplementedError#0":
        "inputModeHierarchy: RULE | DATASET | RULE_PRIORITY - the grammar does not admit dataset_priority in hierarchy()",
    f"{_E}.Terminals.Terminals.visitErCode/Exception#0":
        "only reached if visitConstant raises; str() of a constant value cannot fail, and erCode: ERRORCODE constant always holds a constant",
}


def _f(rule: str, key: str, file: str, line: int, func: str, msg: str, path=None) -> Finding:
    return Finding(rule, f"{rule}/{key}", file, line, func, msg, path)


# ------------------------------------------------------------------------------------------------------------------
def _strip_cpp(text: str) -> str:
    """remove comments and string literals (keeping line structure)"""
    out = []
    i = 0
    n = len(text)
    while i < n:
        c = text[i]
        if text.startswith("//", i):
            j = text.find("\n", i)
            j = n if j < 0 else j
            i = j
        elif text.startswith("/*", i):
            j = text.find("*/", i + 2)
            j = n if j < 0 else j + 2
            out.append("\n" * text.count("\n", i, j))
            i = j
        elif c == '"':
            j = i + 1
            while j < n and text[j] != '"':
                j += 2 if text[j] == "\\" else 1
            out.append('""')
            i = j + 1
        elif c == "'":
            j = i + 1
            while j < n and text[j] != "'":
                j += 2 if text[j] == "\\" else 1
            out.append("' '")
            i = j + 1
        else:
            out.append(c)
            i += 1
    return "".join(out)


def _block_after(text: str, start: int) -> Tuple[int, int]:
    """(open, close) indices of the brace block that starts at or after `start`"""
    o = text.find("{", start)
    if o < 0:
        raise AnalysisError("bindings.cpp: block not found")
    depth = 0
    for i in range(o, len(text)):
        if text[i] == "{":
            depth += 1
        elif text[i] == "}":
            depth -= 1
            if depth == 0:
                return o, i
    raise AnalysisError("bindings.cpp: unbalanced braces")


def _line_of(text: str, idx: int) -> int:
    return text.count("\n", 0, idx) + 1


def _check_cpp(P: Program, rep: Report) -> None:
    p = P.root / CPP
    if not p.exists():
        raise AnalysisError(f"anchor vanished: {CPP}")
    rel = str(p.relative_to(P.repo)) if hasattr(P, "repo") else f"src/vtlengine/{CPP}"
    text = _strip_cpp(p.read_text())
    m = re.search(r"\bstruct\s+ParserState\b", text)
    if not m:
        raise AnalysisError("bindings.cpp: struct ParserState not found")
    o, c = _block_after(text, m.end())
    body = text[o + 1:c]
    # top-level members (depth 0 inside the struct), skipping nested struct definitions
    members: List[str] = []
    depth = 0
    stmt = ""
    for ch in body:
        if ch == "{":
            depth += 1
        elif ch == "}":
            depth -= 1
            stmt = ""
            continue
        if depth == 0:
            if ch == ";":
                s = stmt.strip()
                stmt = ""
                if s and not s.startswith("struct"):
                    mm = re.search(r"([A-Za-z_]\w*)\s*$", s)
                    if mm:
                        members.append(mm.group(1))
            else:
                stmt += ch
    rep.analysed["ParserState_members"] = members
    if len(members) < 5:
        raise AnalysisError(f"bindings.cpp: ParserState members not recognised ({members})")
    gvar = re.search(r"\bstatic\s+ParserState\s+(\w+)\s*;", text)
    if not gvar:
        raise AnalysisError("bindings.cpp: global ParserState instance not found")
    g = gvar.group(1)
    dp = re.search(r"\bdo_parse\s*\([^)]*\)\s*\{", text)
    if not dp:
        raise AnalysisError("bindings.cpp: do_parse not found")
    o2, c2 = _block_after(text, dp.start())
    fn = text[o2:c2]
    st = re.search(rf"{g}\.parser\s*->\s*start\s*\(", fn)
    if not st:
        raise AnalysisError("bindings.cpp: parser->start() not found in do_parse")
    before = fn[:st.start()]
    line0 = _line_of(text, o2)
    for mem in members:
        rep.instance("R23.1", f"reset/{mem}")
        if not re.search(rf"{g}\.{mem}\s*(=[^=]|\.clear\s*\(|\.reset\s*\()", before):
            rep.add(_f("R23.1", f"reset/{mem}", rel, line0, "do_parse",
                       f"ParserState::{mem} is not assigned / cleared / reset in do_parse before parser->start(): what the previous parse left in it "
                       f"(error, comments, text) is reported for the next text"))
    for who in ("lexer", "parser"):
        rep.instance("R23.1", f"listener/{who}")
        rm = re.search(rf"{g}\.{who}\s*->\s*removeErrorListeners\s*\(", before)
        ad = re.search(rf"{g}\.{who}\s*->\s*addErrorListener\s*\(\s*&\s*\w*[cC]ollecting\w*\s*\)", before)
        if not (rm and ad and rm.start() < ad.start()):
            rep.add(_f("R23.1", f"listener/{who}", rel, line0, "do_parse",
                       f"the collecting error listener does not replace the {who}'s default listeners before the parse: {who} errors are printed to stderr and "
                       f"not recorded, so an invalid text yields a tree instead of a VTL syntax error"))
    gs = re.search(r"\bget_syntax_error\s*\(\s*\)\s*\{", text)
    if not gs:
        raise AnalysisError("bindings.cpp: get_syntax_error not found")
    o3, c3 = _block_after(text, gs.start())
    gsb = text[o3:c3]
    rep.instance("R23.1", "get_syntax_error/none-iff-no-error")
    if not re.search(rf"if\s*\(\s*!\s*{g}\.syntax_error\.has_value\s*\(\s*\)\s*\)\s*\{{?\s*return\s+py::none\s*\(\s*\)", gsb):
        rep.add(_f("R23.1", "get_syntax_error/none-iff-no-error", rel, _line_of(text, o3), "get_syntax_error",
                   "get_syntax_error does not return None exactly when no error was recorded"))
    for key_ in ("line", "column"):
        rep.instance("R23.1", f"get_syntax_error/{key_}")
        if not re.search(rf'd\s*\[\s*""\s*\]\s*=\s*e\.{key_}\b', gsb) and not re.search(rf'=\s*e\.{key_}\s*;', gsb):
            rep.add(_f("R23.1", f"get_syntax_error/{key_}", rel, _line_of(text, o3), "get_syntax_error", f"the recorded {key_} is not handed to Python"))


# ------------------------------------------------------------------------------------------------------------------
def _check_create_ast(P: Program, rep: Report) -> None:  # noqa: C901
    f = P.func("vtlengine.API.create_ast")

    def has_parse(fn: FuncInfo) -> bool:
        return any(isinstance(c, ast.Call) and isinstance(c.func, ast.Attribute) and c.func.attr == "parse" and "parser" in src(c.func.value)
                   for c in walk_no_nested(fn.node))
    if not has_parse(f):
        # the parse may have been moved into a helper that create_ast calls: analyse that function instead
        cand = []
        for c in walk_no_nested(f.node):
            if isinstance(c, ast.Call):
                for tq in P.resolve_call(f, c)[:3]:
                    h = P.functions.get(tq)
                    if h is not None and h.module.name.startswith("vtlengine.API") and has_parse(h):
                        cand.append(h)
        if len(cand) != 1:
            raise AnalysisError("create_ast: the call of the compiled parser's parse() was not found in it or in a helper it calls")
        rep.note(f"R23.2: parse() is called in {cand[0].qualname} (helper of create_ast); analysed there")
        f = cand[0]
    g = CFG(f.node)

    def calls(attr: str):
        return g.stmt_nodes(lambda st: any(isinstance(c, ast.Call) and isinstance(c.func, ast.Attribute) and c.func.attr == attr
                                           for c in ast.walk(st) if not isinstance(st, (ast.With, ast.If, ast.For, ast.Try))) if not isinstance(st, (ast.With, ast.If, ast.For, ast.Try, ast.FunctionDef)) else False)
    parse = calls("parse")
    gse = calls("get_syntax_error")
    vis = calls("visitStart")
    if not parse or not gse or not vis:
        raise AnalysisError(f"create_ast: parse/get_syntax_error/visitStart call statements not found ({len(parse)},{len(gse)},{len(vis)})")
    # the error variable
    ev = None
    for n in gse:
        if isinstance(n.stmt, ast.Assign) and isinstance(n.stmt.targets[0], ast.Name):
            ev = n.stmt.targets[0].id
    rep.instance("R23.2", "error-read-after-parse")
    if ev is None:
        rep.add(_f("R23.2", "error-read-after-parse", f.module.rel, gse[0].lineno, f.qualname, "the result of get_syntax_error() is not kept"))
        return
    # every path parse -> visitStart passes get_syntax_error
    p = g.path_avoiding(parse[0], lambda n: n in vis, lambda n: n in gse, follow_exc=False)
    if p is not None:
        rep.add(_f("R23.2", "error-read-after-parse", f.module.rel, parse[0].lineno, f.qualname,
                   "there is a path from parse() to visitStart() that does not read get_syntax_error(): a text with a syntax error is turned into an AST "
                   "(from ANTLR's recovered tree) instead of raising", describe_path(p)))
    # get_syntax_error must come after parse (reading it before parse() returns the previous text's error)
    p0 = g.path_avoiding(g.entry, lambda n: n in gse, lambda n: n in parse, follow_exc=False)
    rep.instance("R23.2", "error-belongs-to-this-parse")
    if p0 is not None:
        rep.add(_f("R23.2", "error-belongs-to-this-parse", f.module.rel, gse[0].lineno, f.qualname,
                   "get_syntax_error() can be read before parse() of this text: it then reports the PREVIOUS text's error", describe_path(p0)))
    # test + raise
    tests = [n for n in g.nodes if n.kind == "test" and isinstance(n.stmt, ast.If) and src(n.stmt.test) in (f"{ev} is not None", ev)]
    rep.instance("R23.2", "raise-before-tree-use")
    ok = False
    for t in tests:
        rs = [x for x in t.stmt.body if isinstance(x, ast.Raise)]
        if rs and "VTLSyntaxError" in src(rs[0].exc) and t.stmt.body[-1] is rs[0]:
            ok = True
            call = rs[0].exc
            kws = {k.arg: src(k.value) for k in call.keywords} if isinstance(call, ast.Call) else {}
            rep.instance("R23.2", "position-from-parser", sample=kws)
            if kws.get("line") != f"{ev}['line']" or not re.fullmatch(rf"{ev}\['column'\]( \+ 1)?", kws.get("column", "")):
                rep.add(_f("R23.2", "position-from-parser", f.module.rel, rs[0].lineno, f.qualname,
                           f"VTLSyntaxError is raised with line={kws.get('line')} column={kws.get('column')}: not the position recorded by the parser"))
            # every path from the error read to visitStart passes this test
            pp = g.path_avoiding(gse[0], lambda n: n in vis, lambda n, t=t: n is t, follow_exc=False)
            if pp is not None:
                ok = False
    if not ok:
        rep.add(_f("R23.2", "raise-before-tree-use", f.module.rel, gse[0].lineno, f.qualname,
                   "a recorded syntax error does not raise VTLSyntaxError on every path before the tree is visited"))
    # the text parsed is the caller's
    rep.instance("R23.2", "parsed-text-is-callers")
    arg = None
    for c in ast.walk(parse[0].stmt):
        if isinstance(c, ast.Call) and isinstance(c.func, ast.Attribute) and c.func.attr == "parse" and c.args:
            arg = c.args[0]
    param = f.params[0]
    okt = False
    if isinstance(arg, ast.Name):
        if arg.id == param:
            defs = [n.value for n in walk_no_nested(f.node) if isinstance(n, ast.Assign) and any(isinstance(t, ast.Name) and t.id == param for t in n.targets)]
            okt = all(any(isinstance(x, ast.Name) and x.id == param for x in ast.walk(d)) and not any(isinstance(x, ast.Call) for x in ast.walk(d)) for d in defs)
        else:
            defs = [n.value for n in walk_no_nested(f.node) if isinstance(n, ast.Assign) and any(isinstance(t, ast.Name) and t.id == arg.id for t in n.targets)]
            okt = bool(defs) and all(any(isinstance(x, ast.Name) and x.id == param for x in ast.walk(d)) and not any(isinstance(x, ast.Call) for x in ast.walk(d)) for d in defs)
    if not okt:
        rep.add(_f("R23.2", "parsed-text-is-callers", f.module.rel, parse[0].lineno, f.qualname, "the text handed to the parser is not (a concatenation with) the caller's text"))
    # create_ast_with_comments reaches create_ast on every normal path, not under a swallowing handler
    fc = P.func("vtlengine.AST.ASTComment.create_ast_with_comments")
    gc = CFG(fc.node)
    ca = gc.stmt_nodes(lambda st: isinstance(st, ast.Assign) and isinstance(st.value, ast.Call) and src(st.value.func) == "create_ast")
    rep.instance("R23.2", "comments-variant-reaches-create_ast")
    if not ca:
        rep.add(_f("R23.2", "comments-variant-reaches-create_ast", fc.module.rel, fc.node.lineno, fc.qualname, "create_ast_with_comments does not call create_ast"))
    else:
        pp = gc.path_avoiding(gc.entry, lambda n: n is gc.exit, lambda n: n in ca, follow_exc=False)
        if pp is not None:
            rep.add(_f("R23.2", "comments-variant-reaches-create_ast", fc.module.rel, fc.node.lineno, fc.qualname,
                       "a normal path through create_ast_with_comments skips create_ast(): syntax errors of that text are not raised", describe_path(pp)))
        par = getattr(ca[0].stmt, "_parent", None)
        while par is not None and not isinstance(par, (ast.FunctionDef, ast.AsyncFunctionDef)):
            if isinstance(par, ast.Try) and any(not any(isinstance(x, ast.Raise) for x in ast.walk(h)) for h in par.handlers) and ca[0].stmt in ast.walk(ast.Module(body=par.body, type_ignores=[])):
                rep.add(_f("R23.2", "comments-variant-reaches-create_ast", fc.module.rel, par.lineno, fc.qualname,
                           "create_ast() is called inside a try whose handler does not re-raise: a malformed script is swallowed into an empty AST"))
            par = getattr(par, "_parent", None)


# ------------------------------------------------------------------------------------------------------------------
def _parse_path(P: Program) -> Set[str]:
    cg = callgraph(P)
    reach = set(cg.reachable_from([r for r in PARSE_ROOTS if r in P.functions]))
    # the constructor's visit methods are dispatched dynamically in part: include all of them
    for f in P.iter_functions():
        if f.module.name in astctor.CTOR_MODULES or f.module.name == "vtlengine.AST.ASTComment":
            reach.add(f.qualname)
    # the DAG analysis that create_ast runs belongs to C12, exception construction to C26; keep parsing code
    drop = ("vtlengine.AST.DAG", "vtlengine.Exceptions", "vtlengine.DataTypes", "vtlengine.Model", "vtlengine.AST.ASTTemplate", "vtlengine.AST.ASTString",
            "vtlengine.Operators", "vtlengine.Utils", "vtlengine.AST.__init__")
    return {q for q in reach if q.startswith("vtlengine.") and not q.startswith(drop) and not q.startswith("vtlengine.AST.") or
            q.startswith(("vtlengine.AST.ASTConstructor", "vtlengine.AST.ASTComment", "vtlengine.AST.Grammar", "vtlengine.AST.ASTDataExchange"))} \
        | {"vtlengine.API.create_ast", "vtlengine.API.prettify", "vtlengine.API._InternalApi.load_vtl"}


def _check_state(P: Program, rep: Report) -> None:  # noqa: C901
    path = _parse_path(P)
    rep.analysed["parse_path_functions"] = len(path)
    n = 0
    for q in sorted(path):
        f = P.functions.get(q)
        if f is None:
            continue
        n += 1
        decos = set(f.decorators)
        bad = {d for d in decos if d in CACHE_DECOS or d.split(".")[-1] in CACHE_DECOS}
        rep.instance("R23.3", f"memo/{q}", nontrivial=bool(decos))
        if bad:
            rep.add(_f("R23.3", f"memo/{q}", f.module.rel, f.node.lineno, q,
                       f"{f.name} is on the parse path and is memoised ({', '.join(sorted(bad))}): a later parse of the same text gets the SAME AST object back, "
                       f"including whatever an earlier caller did to it (create_ast_with_comments extends and sorts ast.children in place)"))
    rep.floor("R23.3 parse-path functions", n, 150)
    # objects built once at import time and handed out by the constructor: every AST that embeds one shares it with every other
    # parse (expected count on a sound tree: 0; positive example: seeded change C23_3 in the thorough self-test)
    for qn, cq, rel_, line_, users in globalsx.module_level_objects(P, ("vtlengine.AST", "vtlengine.API")):
        on_path = [u for u in users if u in path]
        rep.instance("R23.3", f"shared-object/{qn}", sample={"class": cq, "users": users[:4]})
        if on_path:
            rep.add(_f("R23.3", f"shared-object/{qn}", rel_, line_, qn,
                       f"`{qn}` is ONE {cq.split('.')[-1]} object created at import time and used by {', '.join(x.split('.')[-1] for x in on_path[:3])} on the parse path: every AST that "
                       f"embeds it shares it with every earlier and later parse, so a field set while building one tree (or by a caller editing its AST) shows up in the others"))
    # module-level caches written by hand:  name[key] = ast  in a parse-path function of API
    # process-global containers written by the constructor must be re-initialised per parse
    G = globalsx.inventory(P)
    from sa.callgraph import callgraph as _callgraph
    cg_ = _callgraph(P)
    starts = [P.functions[q] for q in ("vtlengine.AST.ASTConstructor.ASTVisitor.visitStart", "vtlengine.API.create_ast") if q in P.functions]
    for q, gv in sorted(G.items()):
        writers = [w for w in list(gv.writers) + list(gv.mutators) if w in path]
        if not writers:
            continue
        last = q.rsplit(".", 1)[1]
        rep.instance("R23.3", f"global/{q}", sample={"writers": writers[:3], "readers": sorted(gv.readers)[:3]})
        reset = False
        for s in starts:
            for n_ in walk_no_nested(s.node):
                if isinstance(n_, ast.Call) and isinstance(n_.func, ast.Attribute) and n_.func.attr == "clear" and src(n_.func.value).split(".")[-1] == last:
                    reset = True
                if isinstance(n_, ast.Assign) and any(src(t).split(".")[-1] == last for t in n_.targets) and isinstance(n_.value, (ast.Dict, ast.List, ast.Set, ast.Call)):
                    reset = True
        if reset:
            # the re-initialisation must come FIRST: on no path of the start function may a call that reaches a writer or reader of the
            # container run before it (a reset at the end only happens when the parse succeeds: a rejected script leaves its entries behind)
            users = set(gv.writers) | set(gv.mutators) | set(gv.readers)
            for s_ in starts:
                resets_ = []
                for n_ in walk_no_nested(s_.node):
                    if isinstance(n_, ast.Call) and isinstance(n_.func, ast.Attribute) and n_.func.attr == "clear" and src(n_.func.value).split(".")[-1] == last:
                        resets_.append(n_)
                    if isinstance(n_, ast.Assign) and any(src(t).split(".")[-1] == last for t in n_.targets) and isinstance(n_.value, (ast.Dict, ast.List, ast.Set, ast.Call)):
                        resets_.append(n_)
                if not resets_:
                    continue
                g_ = CFG(s_.node)
                rnodes = [x for x in g_.nodes if x.stmt is not None and any(any(y is r_ for y in ast.walk(x.stmt)) for r_ in resets_)]
                for x in g_.nodes:
                    if x in rnodes or x.stmt is None:
                        continue
                    hits = []
                    for c_ in g_.calls_at(x):
                        for tq in P.resolve_call(s_, c_):
                            if tq in users or (cg_.reachable_from([tq]) & users):
                                hits.append(tq)
                    if not hits:
                        continue
                    p_ = g_.path_avoiding(g_.entry, lambda n, x=x: n is x, lambda n: n in rnodes, follow_exc=False)
                    if p_ is not None:
                        rep.add(_f("R23.3", f"global-reset-order/{q}", s_.module.rel, x.lineno, s_.qualname,
                                   f"`{q}` is re-initialised in {s_.name}, but only AFTER `{src(x.stmt)[:60]}` has used it ({hits[0].split('.')[-1]}): a parse that raises before the reset "
                                   f"leaves the entries of the rejected script in place and the next parse reads them"))
                        break
        if not reset:
            w = P.functions[writers[0]]
            line = (gv.mutators.get(writers[0]) or gv.writers.get(writers[0]) or [w.node.lineno])[0]
            rep.add(_f("R23.3", f"global/{q}", w.module.rel, line, writers[0],
                       f"process-global `{q}` is filled while parsing ({', '.join(x.split('.')[-1] for x in writers[:2])}), read while parsing "
                       f"({', '.join(sorted({x.split('.')[-1] for x in gv.readers})[:3])}) and never re-initialised at the start of a parse: the AST built for a text "
                       f"depends on the texts parsed before it in the same process"))


# ------------------------------------------------------------------------------------------------------------------
def _check_lock(P: Program, rep: Report) -> None:
    n = 0
    for f in P.iter_functions():
        if not f.module.name.startswith("vtlengine"):
            continue
        acq = [c for c in walk_no_nested(f.node) if isinstance(c, ast.Call) and isinstance(c.func, ast.Attribute) and c.func.attr == "acquire"
               and "lock" in src(c.func.value).lower()]
        withs = [w for w in walk_no_nested(f.node) if isinstance(w, (ast.With, ast.AsyncWith)) and any("lock" in src(i.context_expr).lower() for i in w.items)]
        for w in withs:
            n += 1
            rep.instance("R23.4", f"with/{f.qualname}", nontrivial=False)
        if not acq:
            continue
        g = CFG(f.node)
        for c in acq:
            n += 1
            lock = src(c.func.value)
            a_nodes = [x for x in g.nodes if x.stmt is not None and x.kind == "stmt" and any(y is c for y in ast.walk(x.stmt))]
            # acquire(timeout=...) used as a condition: only the branch on which the lock IS held carries the obligation
            not_held: Set[int] = set()
            for x in g.nodes:
                if x.stmt is not None and x.kind == "test" and isinstance(x.stmt, (ast.If, ast.While)) and any(y is c for y in ast.walk(x.stmt.test)):
                    t = x.stmt.test
                    neg = isinstance(t, ast.UnaryOp) and isinstance(t.op, ast.Not) and t.operand is c
                    if not (neg or t is c):
                        raise AnalysisError(f"{f.qualname}: {lock}.acquire() inside a compound condition: which branch holds the lock is not decided")
                    failed = x.stmt.body if neg else x.stmt.orelse
                    not_held |= {id(z) for st_ in failed for z in ast.walk(st_)}
                    a_nodes.append(x)
            rel = {x for x in g.nodes if x.stmt is not None and x.kind == "stmt" and any(isinstance(y, ast.Call) and isinstance(y.func, ast.Attribute)
                                                                                       and y.func.attr == "release" and src(y.func.value) == lock for y in ast.walk(x.stmt))}
            rep.instance("R23.4", f"acquire/{f.qualname}/{lock}")
            for a in a_nodes:
                for s in g.norm_succ.get(a, set()):
                    if s in rel or (s.stmt is not None and id(s.stmt) in not_held):
                        continue
                    for ex, kind in ((g.exit, "normal"), (g.raise_exit, "exception")):
                        p = g.path_avoiding(s, lambda x, ex=ex: x is ex, lambda x: x in rel) if s is not ex else [s]
                        if p is not None:
                            what = "the generator is closed / an exception is thrown into it at the yield" if any(isinstance(y, (ast.Yield, ast.YieldFrom)) for y in ast.walk(f.node)) else "an exception"
                            rep.add(_f("R23.4", f"acquire/{f.qualname}/{lock}/{kind}", f.module.rel, c.lineno, f.qualname,
                                       f"{lock}.acquire() is not followed by {lock}.release() on a path to the {kind} exit ({what} leaves the lock held): after one "
                                       f"failing parse every later parse from another thread blocks forever", describe_path([a] + p)))
                            break
    rep.floor("R23.4 lock sites", n, 1)


# ------------------------------------------------------------------------------------------------------------------
def _check_raises(P: Program, G: g4.Grammar, rep: Report) -> None:  # noqa: C901
    la = G.labelled_alts()
    label_rule: Dict[str, str] = {}
    for lab, lst in la.items():
        for r, _a in lst:
            label_rule[lab] = r.name
    path = _parse_path(P)
    n = 0
    undecided: List[str] = []
    for q in sorted(path):
        f = P.functions.get(q)
        if f is None:
            continue
        per_func: Dict[str, int] = {}
        for r in walk_no_nested(f.node):
            if not isinstance(r, ast.Raise):
                continue
            n += 1
            if r.exc is None:
                rep.instance("R23.5", f"{q}/re-raise", nontrivial=False)
                continue
            callee = r.exc.func if isinstance(r.exc, ast.Call) else r.exc
            cq = P.resolve_expr(f.module, callee) or src(callee)
            cname = cq.split(".")[-1]
            if cq in P.classes and (cq == VTL_BASE or P.is_subclass(cq, VTL_BASE)):
                rep.instance("R23.5", f"{q}/{cname}", nontrivial=False)
                continue
            idx = per_func.get(cname, 0)
            per_func[cname] = idx + 1
            # else-branch of an exhaustive ctx_id dispatch chain?
            head = None
            cur = r
            par = getattr(cur, "_parent", None)
            in_else = False
            while par is not None and not isinstance(par, (ast.FunctionDef, ast.AsyncFunctionDef)):
                if isinstance(par, ast.If) and cur in par.orelse and "ctx_id" in src(par.test):
                    head = par
                    in_else = True
                elif isinstance(par, ast.If) and head is not None and par.orelse == [head]:
                    head = par
                cur = par
                par = getattr(par, "_parent", None)
            key = f"{q}/{cname}#{idx}"
            if in_else and head is not None and cname == "NotImplementedError":
                labs: Set[str] = set()
                node: Optional[ast.If] = head
                while node is not None:
                    for c in ast.walk(node.test):
                        if isinstance(c, ast.Attribute) and src(c.value) == "RC":
                            labs.add(astctor._camel(c.attr))
                    node = node.orelse[0] if len(node.orelse) == 1 and isinstance(node.orelse[0], ast.If) else None
                low = {k.lower(): k for k in label_rule}
                labs = {low[x.lower()] for x in labs if x.lower() in low}
                rules = {label_rule[x] for x in labs}
                if len(rules) == 1:
                    rule = next(iter(rules))
                    need = {a.label for a in G.rules[rule].alts if a.label}
                    missing = need - labs
                    rep.instance("R23.5", f"{q}/dispatch-exhaustive/{rule}", sample={"rule": rule, "alternatives": len(need), "handled": len(need & labs)})
                    if missing:
                        rep.add(_f("R23.5", f"{q}/dispatch/{rule}", f.module.rel, r.lineno, q,
                                   f"the dispatch over the alternatives of grammar rule `{rule}` has no branch for {sorted(missing)}: a valid text using it falls into "
                                   f"`raise NotImplementedError`, which is not a VTL error"))
                    continue
            msg = ""
            if isinstance(r.exc, ast.Call) and r.exc.args:
                msg = src(r.exc.args[0])[:70]
            if cname == "NotImplementedError" and not msg:
                # defensive `else: raise NotImplementedError` after tests on children / optional parts: whether a valid text can
                # reach it is not decided here (no finding, counted)
                rep.instance("R23.5", key, nontrivial=False)
                undecided.append(f"{q}:{r.lineno}")
                continue
            if key in RAISE_UNREACHABLE:
                rep.instance("R23.5", key, nontrivial=False)
                rep.exemption("R23.5", key, RAISE_UNREACHABLE[key])
                continue
            rep.instance("R23.5", key)
            rep.add(_f("R23.5", key, f.module.rel, r.lineno, q,
                       f"`raise {cname}({msg})` on the parse path: an input reaching it makes parsing fail with a built-in {cname}, not with a VTL error "
                       f"(VTLEngineException subclass carrying a code and a position)"))
    rep.floor("R23.5 raise sites", n, 60)
    rep.analysed["bare_NotImplementedError_sites_not_decided"] = len(undecided)
    rep.note(f"R23.5: {len(undecided)} bare `raise NotImplementedError` sites behind tests on children/optional parts are counted but not decided (reachability by a valid text unknown)")


def run(rep: Report, tier: str) -> None:
    P = program()
    G = g4.load(P)
    rep.explanation = ("bindings.cpp analysed lexically (comments/strings stripped, brace matching): members of the global ParserState vs resets before "
                       "parser->start(), listener installation; create_ast analysed on a statement CFG (must-pass-through / must-precede); parse-path "
                       "function set from the call graph + all AST-constructor methods, checked for memoisation decorators, process-global containers "
                       "without per-parse reset, lock acquire/release pairing on both exits, and non-VTL raise sites with grammar-exhaustiveness of "
                       "the dispatch chains they close.")
    rep.rule("R23.1", "C++ parse state fully reset per parse; collecting listener installed on lexer and parser; None iff no error")
    rep.rule("R23.2", "create_ast: this parse's error is read after parse() and raised before the tree is used; position from the parser")
    rep.rule("R23.3", "no memoisation and no un-reset process-global container on the parse path")
    rep.rule("R23.4", "parser lock released on every exit (with-statement or paired acquire/release incl. exceptional exit)")
    rep.rule("R23.5", "parse path raises VTL errors only (or the raise closes a grammar-exhaustive dispatch)")
    _check_cpp(P, rep)
    _check_create_ast(P, rep)
    _check_state(P, rep)
    _check_lock(P, rep)
    _check_raises(P, G, rep)
    rep.rule("R23.6", "syntax-error messages: script text is never the receiver of str.format (braces in the quoted source line)")
    _check_format_receivers(P, rep)
    # ---- R23.7: an error the AST constructor raises can be built (shared with C26 R26.1/R26.2) ----
    rep.rule("R23.7", "every coded VTL exception constructed in the AST-constructor / parser modules names a catalogued code and supplies every placeholder of its message: "
                      "otherwise create_ast aborts with a KeyError instead of returning an AST or raising a VTL error")
    from sa.checks import c26 as _c26
    _cat, _ = _c26.load_catalogue(P)
    _n7, _ = _c26.coded_sites(P, rep, _cat, _c26.coded_classes(P), _c26.placeholder_table(_cat), ("R23.7", "R23.7", "R23.7"), prefixes=("vtlengine.AST",))
    rep.floor("R23.7 coded exception sites in the AST modules", _n7, 10)
    # ---- R23.8: the AST built for a text does not depend on the texts parsed before (shared with C17 R17.2) ----
    rep.rule("R23.8", "no function of the AST modules (constructor, DAG analysis, string rendering) writes a process-global other than the reviewed ones: a marker that outlives "
                      "the parse (e.g. `this ruleset name is already sorted`) makes a later parse of the same text return a different AST")
    from sa import globalsx as _gx8
    _gx8.report_written_globals(P, rep, "R23.8", ("vtlengine.AST",), "the AST returned for a text then depends on which texts were parsed earlier in the process")
    # ---- R23.9: deciding whether a string is a file name or script text cannot fail ----
    rep.rule("R23.9", "load_vtl: while its argument may still be script text (the isinstance(..., str) branch), the file-system probe is a total predicate (os.path.exists / isfile) or is "
                      "wrapped in try/except OSError: pathlib's exists() / is_file() / stat() re-raise ENAMETOOLONG, so a long one-line script would end in a raw OSError before the parser runs")
    flv = P.func("vtlengine.API._InternalApi.load_vtl")
    par9 = [x for x in flv.params][0]
    str_branches = [st for st in walk_no_nested(flv.node) if isinstance(st, ast.If) and isinstance(st.test, ast.Call) and getattr(st.test.func, "id", "") == "isinstance"
                    and isinstance(st.test.args[0], ast.Name) and st.test.args[0].id == par9 and "str" in src(st.test.args[1])]
    if not str_branches:
        raise AnalysisError("load_vtl: the isinstance(<argument>, str) branch not found (anchor changed)")
    n9 = 0
    for br in str_branches:
        pathy = {par9}
        for x in ast.walk(br):
            if isinstance(x, ast.Assign) and isinstance(x.value, ast.Call) and (dotted(x.value.func) or "").split(".")[-1] in ("Path", "PurePath") \
                    and any(isinstance(a, ast.Name) and a.id in pathy for a in x.value.args):
                pathy |= {t.id for t in x.targets if isinstance(t, ast.Name)}
        for x in ast.walk(br):
            if not (isinstance(x, ast.Call) and isinstance(x.func, ast.Attribute)):
                continue
            recv = x.func.value
            on_text = (isinstance(recv, ast.Name) and recv.id in pathy and recv.id != par9) or \
                (isinstance(recv, ast.Call) and (dotted(recv.func) or "").split(".")[-1] in ("Path", "PurePath") and any(isinstance(a, ast.Name) and a.id in pathy for a in recv.args))
            total = (dotted(x.func) or "").startswith("os.path.")
            if x.func.attr in ("exists", "is_file", "is_dir", "stat", "lstat", "resolve", "samefile", "open", "read_text") and (on_text or total):
                n9 += 1
                guarded = False
                p_ = getattr(x, "_parent", None)
                while p_ is not None and p_ is not flv.node:
                    if isinstance(p_, ast.Try) and any(h.type is None or any(k in src(h.type) for k in ("OSError", "Exception", "ValueError")) for h in p_.handlers) and any(x in list(ast.walk(b_)) for b_ in p_.body):
                        guarded = True
                    p_ = getattr(p_, "_parent", None)
                rep.instance("R23.9", f"probe/{src(x)[:40]}", nontrivial=True, sample={"probe": src(x)[:60], "total_predicate": total, "guarded": guarded})
                if on_text and not total and not guarded:
                    rep.add(Finding("R23.9", f"R23.9/probe/{x.func.attr}", flv.module.rel, x.lineno, flv.qualname,
                                    f"`{src(x)[:60]}` probes the file system with a string that may be the script text itself: pathlib re-raises ENAMETOOLONG (a path component over 255 "
                                    f"characters, e.g. a long one-line script) and ValueError (embedded NUL), so create_ast's callers get a raw OSError instead of an AST or a VTL error"))
    rep.floor("R23.9 file-system probes on the text branch", n9, 1)
    rep.assumptions = ["bindings.cpp is analysed as text (no C++ front end with the project's headers is available)",
                       "ANTLR error listeners receive every lexer and parser error", "RC.<NAME> constants are the grammar's alternative labels in SNAKE_CASE"]



def _check_format_receivers(P: Program, rep: Report) -> None:
    """R23.6  The syntax-error exception quotes the offending source line.  Text that comes from the script must never be the RECEIVER of
    str.format / `%`: `{`, `}` and `%` are ordinary characters of a VTL script (set literals), and formatting a template that
    contains them raises KeyError / ValueError / IndexError - the caller then gets a raw Python error without line and column.
    Rule: in vtlengine.Exceptions, the receiver of every `.format(...)` is a constant, a catalogue entry (centralised_messages[...]),
    or a class constant - never a value that has had parameter data concatenated into it."""
    n = 0
    for f in P.iter_functions():
        if f.module.name != "vtlengine.Exceptions":
            continue
        params = set(f.params) - {"self", "cls"}
        a_ = f.node.args  # type: ignore[attr-defined]
        params |= {x.arg for x in a_.kwonlyargs}
        tainted: Set[str] = set(params)
        for _ in range(4):
            for st in walk_no_nested(f.node):
                if isinstance(st, (ast.Assign, ast.AugAssign, ast.AnnAssign)) and st.value is not None:
                    if any(isinstance(x, ast.Name) and x.id in tainted for x in ast.walk(st.value)):
                        tg = st.targets if isinstance(st, ast.Assign) else [st.target]
                        tainted |= {t.id for t in tg if isinstance(t, ast.Name)}
        for c in walk_no_nested(f.node):
            recv = None
            if isinstance(c, ast.Call) and isinstance(c.func, ast.Attribute) and c.func.attr in ("format", "format_map"):
                recv = c.func.value
            elif isinstance(c, ast.BinOp) and isinstance(c.op, ast.Mod) and not isinstance(c.left, ast.Constant):
                recv = c.left
            if recv is None:
                continue
            n += 1
            rep.instance("R23.6", f"format-receiver/{f.qualname}/{norm_locals(src(recv), f.node)[:40]}", nontrivial=True)
            in_index = {id(y) for x in ast.walk(recv) if isinstance(x, ast.Subscript) for y in ast.walk(x.slice)}  # a key INTO a table is not text of the template
            if any(isinstance(x, ast.Name) and x.id in tainted and id(x) not in in_index for x in ast.walk(recv)):
                rep.add(_f("R23.6", f"format-receiver/{f.qualname}", f.module.rel, c.lineno, f.qualname,
                           f"`{src(c)[:80]}` formats a template that already contains caller-supplied text ({sorted(x.id for x in ast.walk(recv) if isinstance(x, ast.Name) and x.id in tainted and id(x) not in in_index)}): "
                           f"for a syntax error the quoted source line is script text, and a `{{` or `}}` in it (a set literal) makes str.format raise KeyError / ValueError instead of the VTL error"))
    rep.floor("R23.6 format receivers in vtlengine.Exceptions", n, 3)
