"""C20 - validate_dataset agrees with run() on which inputs are valid (DESIGN §3 C20).

Two sibling implementations: pandas (_validate_pandas + DataTypes/_time_checking) and SQL (the DuckDB loaders).
R20.1 check-list parity: the set of rejecting checks (DataLoadError / InputValidationException codes) reachable from the
      pandas validator equals the set reachable from the DuckDB loaders; the duplicate-identifier check of the pandas side runs
      AFTER the values have been cast to their types (like the SQL side, which checks after normalisation)
R20.2 accept-language agreement per temporal type (regular-language symmetric difference with witnesses):
      Date: _STRICT_DATETIME_RE ∪ date-only shapes  vs  VALID_DATE_REGEX   (compared modulo digit ranges, which Python
            validates after the regex) ; Time: time_pattern ∪ year ∪ month  vs  TIME_INTERVAL_PATTERN ;
      Time_Period: _vtl_period_re ∪ _sdmx_period_re on canonical shapes  vs  TIME_PERIOD_PATTERN on canonical shapes
Not decided: numeric types (float(str(x)) vs DuckDB casts) beyond the Integer guard parity decided under C18.
"""
from __future__ import annotations

import ast
import re
from typing import Dict, List, Optional, Set, Tuple

from sa import regexlang, sqlx
from sa.callgraph import callgraph
from sa.cfg import CFG, describe_path
from sa.checks.c19 import integer_csv_guard, loaded_table_checks_on_every_path, pattern
from sa.checks.c26 import CODED, coded_classes
from sa.core import AnalysisError, Finding, Program, Report, dotted, program, src, walk_no_nested

TC = "vtlengine.DataTypes._time_checking"
VAL = "vtlengine.duckdb_transpiler.io._validation"
PARSER = "vtlengine.files.parser"
IO = "vtlengine.duckdb_transpiler.io._io"
DIGITS = frozenset("0123456789")


def abstract_digits(n: regexlang.NFA) -> regexlang.NFA:
    """Replace every transition set made only of digits by the full digit class (shape comparison modulo ranges)."""
    trans = {s: [((DIGITS if cs and cs <= DIGITS else cs), t) for cs, t in lst] for s, lst in n.trans.items()}
    return regexlang.NFA(n.start, n.accept, n.eps, trans, n.n)


def codes_reachable(P: Program, roots: List[str]) -> Dict[str, Tuple[str, int]]:
    cg = callgraph(P)
    classes = coded_classes(P)
    out: Dict[str, Tuple[str, int]] = {}
    for q in cg.reachable_from([r for r in roots if r in P.functions]):
        f = P.functions[q]
        for n in walk_no_nested(f.node):
            if isinstance(n, ast.Call):
                qq = P.resolve_expr(f.module, n.func)
                if qq in classes:
                    kw = {k.arg: k.value for k in n.keywords if k.arg}
                    cn = kw.get("code") or (n.args[0] if n.args and classes[qq] != "InputValidationException" else None)
                    vals = P.const_values(f, f.module, cn) if cn is not None else None
                    for v in vals or ():
                        if isinstance(v, str):
                            out.setdefault(v, (q, n.lineno))
    return out


def module_regex(P: Program, modname: str, name: str) -> str:
    m = P.module(modname)
    node = m.assigns.get(name)
    if node is None:
        raise AnalysisError(f"anchor vanished: {modname}.{name}")
    if isinstance(node, ast.Call) and src(node.func) == "re.compile":
        node = node.args[0]
    v = P.const_values(None, m, node)
    if not v or len(v) != 1:
        raise AnalysisError(f"{modname}.{name}: pattern is not a constant")
    return next(iter(v))


def run(rep: Report, tier: str) -> None:
    P = program()
    rep.explanation = ("Coded rejections reachable (call graph) from the pandas validator and from the DuckDB loaders are compared as sets; "
                       "the regular languages of the two sides' temporal patterns are compared by product automata, giving a witness string "
                       "for every difference; CFG ordering of the pandas duplicate check.")
    rep.rule("R20.1", "the two validators perform the same rejecting checks; duplicates are checked on cast values")
    loaded_table_checks_on_every_path(P, rep, "R20.1")
    integer_csv_guard(P, rep, "R20.3")
    rep.rule("R20.6", "run-side validation queries examine every row (validate_dataset checks every value): no LIMIT inside a derived table that the outer query filters")
    from sa.checks.c19 import limit_before_filter
    limit_before_filter(P, rep, "R20.6")
    # ---- R20.5 the pandas-side validator re-reads what it is given: nothing on its path is memoised on a path / name while reading content ----
    rep.rule("R20.5", "validate_dataset side: no memoised function on the file-parsing path whose answer depends on file content, the environment or process state")
    from sa import globalsx as _gx
    n5 = 0
    for f_, why_, line_ in _gx.memo_findings(P, ("vtlengine.files", "vtlengine.API")):
        n5 += 1
        rep.add(Finding("R20.5", f"R20.5/memo/{f_.qualname}", f_.module.rel, line_, f_.qualname,
                        f"memoised function on the validation path {why_}: validate_dataset() then judges a file by what an earlier call saw, while run() (DuckDB reads the file itself) sees the current content"))
    rep.instance("R20.5", "memoised-functions-on-the-parsing-path", nontrivial=False, sample={"findings": n5})
    # ---- R20.4 what the run-side normaliser does with spellings and with values that are not periods ----
    rep.rule("R20.4", "Time_Period normalisation on the run side: every accepted spelling -> canonical text; a non-null value that is no period is never turned into NULL (validate_dataset rejects it)")
    from sa.checks.c19 import period_limits
    from sa.checks.c21 import spelling_grid
    spelling_grid(rep, "R20.4", {k.lower(): v for k, v in sqlx.load_macros(P).items()}, period_limits(P), null_clause=True)
    rep.rule("R20.2", "the two validators accept the same strings for Date / Time / Time_Period (witness for every difference)")

    # ---- R20.1 ------------------------------------------------------------------------------------------
    py = codes_reachable(P, [f"{PARSER}._validate_pandas"])
    sq = codes_reachable(P, [f"{IO}.load_datapoints_duckdb", f"{IO}._load_parquet", f"{IO}.register_dataframes"])
    py_codes = {c for c in py if c.startswith(("0-3-1", "0-1-1-", "0-1-2-"))}
    sq_codes = {c for c in sq if c.startswith(("0-3-1", "0-1-1-", "0-1-2-"))}
    FILE_LEVEL = {"0-3-1-1": "file existence (run-side path handling)", "0-3-1-16": "corrupt parquet (run-side only input form)",
                  "0-1-1-8": "missing identifier columns in a file header (file-level)", "0-1-2-3": "duplicate column names in a file header (file-level)",
                  "0-1-1-16": "output format option"}
    for c in sorted(py_codes | sq_codes):
        rep.instance("R20.1", f"check/{c}", nontrivial=True, sample={"code": c, "pandas_validator": c in py_codes, "duckdb_loaders": c in sq_codes})
        if c in FILE_LEVEL:
            rep.exemption("R20.1", c, FILE_LEVEL[c])
            continue
        if (c in py_codes) != (c in sq_codes):
            side, where = ("pandas validator", py[c]) if c in py_codes else ("DuckDB loaders", sq[c])
            other = "DuckDB loaders" if c in py_codes else "pandas validator"
            f = P.functions[where[0]]
            rep.add(Finding("R20.1", f"R20.1/check/{c}", f.module.rel, where[1], where[0],
                            f"rejection {c} exists only on the {side} side ({where[0]}); the {other} have no such check, so the two entry "
                            f"points disagree on inputs that trigger it"))
    rep.floor("rejecting checks compared", len(py_codes | sq_codes), 6)
    # duplicate check after casting (pandas side)
    vp = P.func(f"{PARSER}._validate_pandas")
    g = CFG(vp.node, for_nonempty=True)  # a dataset has at least one component: the per-component cast loop runs
    dup = [n for n in g.nodes if any((c.func.id if isinstance(c.func, ast.Name) else getattr(c.func, "attr", "")) == "check_identifiers_duplicity" for c in g.calls_at(n))]
    casts = [n for n in g.nodes if n.kind == "stmt" and any(isinstance(c.func, ast.Attribute) and c.func.attr == "astype" for c in g.calls_at(n))]
    rep.instance("R20.1", "duplicates-after-cast", nontrivial=True, sample={"duplicate_check_lines": [d.lineno for d in dup], "cast_lines": [c.lineno for c in casts]})
    if not dup or not casts:
        raise AnalysisError("_validate_pandas: duplicate check / astype cast not found")
    for d in dup:
        p = g.path_avoiding(g.entry, lambda n, d=d: n is d, lambda n: n in casts, follow_exc=False)
        if p is not None:
            rep.add(Finding("R20.1", "R20.1/duplicates-after-cast", vp.module.rel, d.lineno, vp.qualname,
                            "the duplicate-identifier check can run before values are cast to their types: identifiers equal only after "
                            "casting (1 / 01, 2020M1 / 2020-M01) are not seen as duplicates, while run() rejects them", describe_path(p)))

    # ---- R20.2 ------------------------------------------------------------------------------------------
    def compare(label: str, a: regexlang.NFA, b: regexlang.NFA, a_name: str, b_name: str, file: str, line: int, within=()) -> None:
        w1 = regexlang.witness([a, *within], [b])
        w2 = regexlang.witness([b, *within], [a])
        rep.instance("R20.2", label, nontrivial=True, sample={"comparison": label, f"only_{a_name}": w1, f"only_{b_name}": w2})
        if w1 is not None:
            rep.add(Finding("R20.2", f"R20.2/{label}/only-{a_name}", file, line, label,
                            f"`{w1}` is accepted by {a_name} but not by {b_name}: validate_dataset and run() disagree on such values"))
        if w2 is not None:
            rep.add(Finding("R20.2", f"R20.2/{label}/only-{b_name}", file, line, label,
                            f"`{w2}` is accepted by {b_name} but not by {a_name}: validate_dataset and run() disagree on such values"))
    vmod = P.module(VAL)
    # Date with a time component: shape modulo digit ranges (Python validates ranges with datetime afterwards)
    strict = abstract_digits(regexlang.compile_nfa(module_regex(P, TC, "_STRICT_DATETIME_RE"), "match"))
    sql_date = abstract_digits(regexlang.compile_nfa(pattern(P, VAL, "VALID_DATE_REGEX"), "search"))
    has_time = regexlang.compile_nfa(r".{10}[T ].*")
    compare("Date/with-time", strict, sql_date, "pandas(_STRICT_DATETIME_RE)", "duckdb(VALID_DATE_REGEX)", vmod.rel, vmod.assigns["VALID_DATE_REGEX"].lineno, within=[has_time])
    # Date without time: Python = date.fromisoformat on YYYY-MM-DD (+ the YYYY-MM-D fix-up in check_date); SQL = VALID_DATE_REGEX
    cd = P.func(f"{TC}.check_date")
    fixup = any(isinstance(n, ast.Compare) and "len(value) == 9" in src(n) for n in ast.walk(cd.node))
    py_date = regexlang.compile_nfa(r"\d{4}-\d{2}-\d{2}" + (r"|\d{4}-\d{2}-\d" if fixup else ""))
    no_time = regexlang.compile_nfa(r"[^T ]{0,10}|.{0,9}")
    compare("Date/date-only", abstract_digits(py_date), sql_date, "pandas(date.fromisoformat shapes)", "duckdb(VALID_DATE_REGEX)", vmod.rel,
            vmod.assigns["VALID_DATE_REGEX"].lineno, within=[regexlang.compile_nfa(r"[0-9-]*")])
    # Time
    tm = P.module(TC)
    def const_of(name: str) -> str:
        it = P.const_values(None, tm, tm.assigns[name]) if name in tm.assigns else None
        if not it or len(it) != 1:
            raise AnalysisError(f"_time_checking.{name} is not a constant pattern")
        return next(iter(it))
    py_time = regexlang.compile_nfa("|".join([const_of("time_pattern").strip("^$"), const_of("year_pattern"), const_of("month_pattern")]))
    sql_time = regexlang.compile_nfa(pattern(P, VAL, "TIME_INTERVAL_PATTERN"), "search")
    compare("Time", abstract_digits(py_time), abstract_digits(sql_time), "pandas(check_time)", "duckdb(TIME_INTERVAL_PATTERN)", vmod.rel,
            vmod.assigns["TIME_INTERVAL_PATTERN"].lineno)
    # Time_Period on canonical shapes (what the SQL regex sees after normalisation; Python's sdmx regex sees the same spellings)
    canon = regexlang.compile_nfa(r"\d{4}A|\d{4}-[SQ]\d|\d{4}-[MW]\d{2}|\d{4}-D\d{3}")
    py_tp = regexlang.compile_nfa(module_regex(P, TC, "_vtl_period_re") + "|" + module_regex(P, TC, "_sdmx_period_re"), "search")
    sql_tp = regexlang.compile_nfa(pattern(P, VAL, "TIME_PERIOD_PATTERN"), "search")
    compare("Time_Period/canonical", py_tp, sql_tp, "pandas(_vtl_period_re|_sdmx_period_re)", "duckdb(TIME_PERIOD_PATTERN)", vmod.rel,
            vmod.assigns["TIME_PERIOD_PATTERN"].lineno, within=[canon])
    rep.analysed = {"pandas_codes": sorted(py_codes), "duckdb_codes": sorted(sq_codes)}
    # ---- R20.8: run() rejects a null identifier / non-nullable value for every storage type (shared with C19 R19.1) ----
    rep.rule("R20.8", "build_create_table_sql declares NOT NULL for identifiers and non-nullable components also when the loader overrides the column's storage type (Date as "
                      "TIMESTAMP): the NOT NULL constraint is the only place run() rejects the nulls that validate_dataset rejects with 'An Identifier cannot have null values'")
    from sa.checks.c19 import not_null_decision_table
    not_null_decision_table(P, rep, "R20.8")
    # ---- R20.7: what counts as a missing value is the same for both validators ----
    rep.rule("R20.7", "every pandas read_csv on the validate_dataset side is called with keep_default_na=False and an explicit na_values (only the empty field is missing, as for "
                      "DuckDB's read_csv on the run() side): pandas' default markers would turn the texts NA, null, None, NaN, N/A into missing values and reject an identifier 'NA'")
    n7 = 0
    for f7 in P.iter_functions():
        if not f7.module.name.startswith(("vtlengine.files", "vtlengine.API")):
            continue
        for c7 in walk_no_nested(f7.node):
            if not (isinstance(c7, ast.Call) and (dotted(c7.func) or "").split(".")[-1] in ("read_csv", "read_table", "read_fwf")):
                continue
            kw7 = {k.arg: k.value for k in c7.keywords if k.arg}
            n7 += 1
            kdn = kw7.get("keep_default_na")
            ok7 = isinstance(kdn, ast.Constant) and kdn.value is False and "na_values" in kw7
            rep.instance("R20.7", f"read_csv/{f7.qualname}", nontrivial=True, sample={"function": f7.qualname, "keep_default_na": src(kdn) if kdn is not None else None, "na_values": "na_values" in kw7})
            if not ok7:
                rep.add(Finding("R20.7", f"R20.7/read_csv/{f7.qualname}", f7.module.rel, c7.lineno, f7.qualname,
                                f"`{src(c7.func)}(...)` is called with keep_default_na={src(kdn) if kdn is not None else '<default True>'}"
                                f"{'' if 'na_values' in kw7 else ' and no na_values'}: pandas then reads the texts NA, null, None, NaN, N/A as missing, so validate_dataset rejects a String "
                                f"identifier 'NA' (null identifier) that run() - DuckDB read_csv, only the empty field is NULL - loads as text"))
    rep.floor("R20.7 pandas CSV readers on the validation side", n7, 1)
    rep.assumptions = ["Python validates numeric ranges of dates/times after the regex (datetime.fromisoformat); shapes are therefore compared "
                       "modulo digit ranges for Date and Time", "date.fromisoformat accepts exactly YYYY-MM-DD for date-only text"]
