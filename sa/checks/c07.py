"""C07 - validation and hierarchy operators report exactly the failing datapoints (DESIGN §3 C07).  Structural clauses:

R07.1 the SQL transpiler reads every field of Validation, DPValidation, HROperation, DPRule, HRule (validation, error code /
      level, imbalance, invalid; ruleset, components, output; modes; rule name / expression / erCode / erLevel)
R07.2 mode dispatch is exhaustive: every ValidationMode value is compared against in the hierarchy mode filter; the modes that
      substitute zero are exactly the *_zero modes; rule_priority / dataset inputs and the output modes are each handled
R07.3 definition registries (datapoint / hierarchical rulesets, operators) are written only by the definition handlers and no
      expression handler mutates an object taken from them (a statement must not change what later statements see)
R07.4 the presence column of the hierarchy pivot (_has_<item>) is consumed where presence matters: zero substitution is
      conditioned on ABSENCE of the code item (not on a NULL value), and the partial/always filters test presence
R07.5 "errorcode and errorlevel are set exactly where the rule is false": for each of check, check_datapoint and
      check_hierarchy the row filter of invalid mode and the CASE that gates errorcode/errorlevel in all mode are evaluated in
      SQL three-valued logic over the rule outcome {TRUE, FALSE, NULL} (and over when/then outcomes for datapoint rules) and
      must select exactly the FALSE outcome
R07.6 an errorcode / errorlevel that the rule declares is emitted as that value - 0 and "" are values; only a rule without
      one yields NULL: the helper every erCode / erLevel / error_code / error_level is translated through is evaluated (E6) over
      {None, 0, "", 1, 2.5, "E1"}
R07.7 check(): Check.validate, StructureVisitor._build_validation_structure and the SELECT list of visit_Validation are evaluated (E6)
      on a Boolean dataset with a viral attribute and must name the same components (known finding: the viral attribute)
Not decided: the values of the rule expressions themselves; hierarchy's rule ordering (HRDAGAnalyzer).
"""
from __future__ import annotations

import ast
import re
from typing import Dict, List, Optional, Set, Tuple

from sa import e7, sqlexpr, sqlx, transp
from sa.core import AnalysisError, Finding, FuncInfo, Program, Report, program, src, walk_no_nested

TR = transp.TR
EXEMPT = {
    ("DPValidation", "components"): "validated by the interpreter to be the ruleset's own parameter list (SemanticError 1-1-10-3 otherwise), so the signature map "
                                    "the transpiler builds from the ruleset definition is the same information (variable rulesets; value-domain rulesets are not supported by the engine)",
}
L, R_ = sqlx.HOLE_L, sqlx.HOLE_R


def _skeletons(P: Program, f: FuncInfo) -> List[Tuple[str, int]]:
    return [(sk.text, sk.line) for sk in sqlx.iter_skeletons(P) if sk.func is f]


def _subst(text: str, mapping: Dict[str, str], default: Optional[str] = None) -> str:
    def rep_(m: "re.Match[str]") -> str:
        h = m.group(1)
        for k, v in mapping.items():
            if re.fullmatch(k, h):
                return v
        if default is None:
            raise AnalysisError(f"unmapped hole {h!r} in SQL skeleton `{text[:60]}`")
        return default
    return re.sub(re.escape(L) + r"(.*?)" + re.escape(R_), rep_, text)


def _ev(text: str, env: Dict[str, Optional[bool]]) -> Optional[bool]:
    try:
        return sqlexpr.eval3(sqlexpr.parse(text), env, {})
    except sqlexpr.ParseError as e:
        raise AnalysisError(f"SQL predicate not evaluable: `{text[:80]}`: {e}")


TV = [True, False, None]


def run(rep: Report, tier: str) -> None:  # noqa: C901
    P = program()
    NC = e7.node_classes(P)
    rep.explanation = ("Typed field-read inventory for the validation node classes; enum-member vs comparison-constant coverage of the mode dispatch; "
                       "alias analysis from the ruleset/operator registries to mutation sites; reader/writer agreement on the pivot's presence columns; "
                       "the SQL texts that filter invalid rows and gate errorcode/errorlevel parsed and evaluated exactly in three-valued logic.")
    rep.rule("R07.1", "transpiler reads every field of the validation node classes")
    rep.rule("R07.2", "mode dispatch exhaustive; zero-substituting modes are exactly the *_zero modes")
    rep.rule("R07.3", "registries written only by definition handlers; nothing reachable from them mutated by expression handlers")
    rep.rule("R07.4", "presence columns of the hierarchy pivot consumed by zero substitution and by the partial/always filters")
    rep.rule("R07.5", "invalid-mode filter and errorcode/errorlevel gating select exactly the FALSE outcome (3VL truth tables)")
    transp.field_coverage(P, rep, "R07.1", ["Validation", "DPValidation", "HROperation", "DPRule", "HRule"], EXEMPT, "validation")

    # ---- R07.2 ----
    modes = {v.strip("'\"") for v in e7.enum_members(P, "ValidationMode").values()}
    if len(modes) != 6:
        raise AnalysisError(f"ValidationMode members: {modes}")
    mf = P.func(f"{TR}._build_hr_mode_filter")
    compared: Set[str] = set()
    for c in ast.walk(mf.node):
        if isinstance(c, ast.Compare) and src(c.left) == "mode":
            for x in ast.walk(c.comparators[0]):
                if isinstance(x, ast.Constant) and isinstance(x.value, str):
                    compared.add(x.value)
    for m in sorted(modes):
        rep.instance("R07.2", f"mode-filter/{m}")
        if m not in compared:
            rep.add(transp.fnd("R07.2", f"mode-filter/{m}", mf, mf.node.lineno,
                               f"validation mode {m} is never compared against in _build_hr_mode_filter: rules are filtered as in another mode (or not at all)"))
    for m in sorted(compared - modes):
        rep.add(transp.fnd("R07.2", f"mode-filter/unknown/{m}", mf, mf.node.lineno, f"_build_hr_mode_filter compares the mode with {m!r}, which is not a ValidationMode value"))
    ve = P.func(f"{TR}._build_hr_value_expr")
    zero: Set[str] = set()
    for c in ast.walk(ve.node):
        if isinstance(c, ast.Compare) and src(c.left) == "mode":
            zero |= {x.value for x in ast.walk(c.comparators[0]) if isinstance(x, ast.Constant) and isinstance(x.value, str)}
    rep.instance("R07.2", "zero-modes", sample=sorted(zero))
    want_zero = {m for m in modes if m.endswith("_zero")}
    if zero != want_zero:
        rep.add(transp.fnd("R07.2", "zero-modes", ve, ve.node.lineno, f"modes that treat a missing code item as 0 are {sorted(zero)}; the *_zero modes are {sorted(want_zero)}"))
    for enum_name, consumers in (("HRInputMode", ["_build_hierarchy_sql", "_build_hierarchy_rule_cte", "_build_hierarchy_pivot_update", "visit_HROperation"]),
                                 ("ValidationOutput", ["_build_check_hr_rule_select", "_build_dp_rule_sql", "_build_check_hierarchy_sql", "visit_DPValidation"]),
                                 ("HierarchyOutput", ["_build_hierarchy_sql", "visit_HROperation"])):
        vals = {v.strip("'\"") for v in e7.enum_members(P, enum_name).values()}
        consts: Set[str] = set()
        T = transp.typed(P)
        for cn in consumers:
            if cn in T.owners:
                consts |= {x.value for x in ast.walk(T.owners[cn].node) if isinstance(x, ast.Constant) and isinstance(x.value, str)}
        # every member but at most one (the default branch) must be named
        unnamed = sorted(vals - consts)
        rep.instance("R07.2", f"enum/{enum_name}", sample={"members": sorted(vals), "unnamed": unnamed})
        if len(unnamed) > 1:
            rep.add(transp.fnd("R07.2", f"enum/{enum_name}", T.owners[consumers[0]], T.owners[consumers[0]].node.lineno,
                               f"members {unnamed} of {enum_name} are never named in the SQL generation for it: at most one member can be served by a default branch"))

    # ---- R07.3 ----
    transp.state_discipline(P, rep, "R07.3", parts="cd")

    # ---- R07.4 ----
    T = transp.typed(P)
    hp = T.owners.get("_build_hr_pivot")
    if hp is None:
        raise AnalysisError("anchor vanished: _build_hr_pivot")
    rep.instance("R07.4", "pivot-writes-presence")
    if "_has_col(" not in src(hp.node):
        rep.add(transp.fnd("R07.4", "pivot-writes-presence", hp, hp.node.lineno, "the hierarchy pivot no longer produces the presence columns (_has_<item>)"))
    # the presence flag is a function of ROW EXISTENCE only: the expression written AS _has_<item> does not read the measure
    # (COUNT(measure) / MAX(measure IS NOT NULL) would turn "present with a NULL value" into "absent")
    defs: Dict[str, ast.AST] = {}
    for n in walk_no_nested(hp.node):
        if isinstance(n, ast.Assign) and len(n.targets) == 1 and isinstance(n.targets[0], ast.Name):
            defs.setdefault(n.targets[0].id, n.value)
    tainted: Set[str] = {nm for nm, v in defs.items() if any(isinstance(x, ast.Attribute) and x.attr in ("get_measures_names", "get_measures") for x in ast.walk(v))}
    tainted |= {p_ for p_ in hp.params if "measure" in p_.lower()}
    if not tainted:
        raise AnalysisError("_build_hr_pivot no longer derives a measure name (get_measures_names / a measure parameter): the presence rule has lost its anchor")
    changed = True
    while changed:
        changed = False
        for nm, v in defs.items():
            if nm not in tainted and any(isinstance(x, ast.Name) and x.id in tainted for x in ast.walk(v)):
                tainted.add(nm)
                changed = True
    npres = 0
    for n in ast.walk(hp.node):
        if isinstance(n, ast.JoinedStr) and "_has_col(" in src(n):
            npres += 1
            used = {x.id for x in ast.walk(n) if isinstance(x, ast.Name)}
            rep.instance("R07.4", f"presence-expression/{npres}", sample={"expr": src(n)[:100], "reads": sorted(used & tainted)})
            if used & tainted:
                rep.add(transp.fnd("R07.4", "presence-reads-measure", hp, n.lineno,
                                   f"the presence flag of the hierarchy pivot `{src(n)[:90]}` reads the measure ({sorted(used & tainted)}): a code item that is PRESENT with a NULL measure is "
                                   f"flagged absent, so the *_zero modes replace its NULL by 0 and the partial_* / always_* filters treat it as missing"))
    rep.floor("R07.4 presence expressions", npres, 1)
    zb = next((n for n in ast.walk(ve.node) if isinstance(n, ast.If) and "mode" in src(n.test)), None)
    rep.instance("R07.4", "zero-substitution-on-absence")
    if zb is None or "_has_col(" not in " ".join(src(x) for x in zb.body):
        rep.add(transp.fnd("R07.4", "zero-substitution-on-absence", ve, (zb or ve.node).lineno,
                           "in the *_zero modes the value of a code item is replaced by 0 without consulting its presence column: an item that IS present with a NULL "
                           "measure is counted as 0 too, so a rule whose outcome should be NULL (not evaluable) is reported as failing / a hierarchy total is computed from it"))
    rep.instance("R07.4", "filters-test-presence")
    if src(mf.node).count("_has_col(") < 2:
        rep.add(transp.fnd("R07.4", "filters-test-presence", mf, mf.node.lineno, "the partial_* / always_* filters no longer test the presence columns"))

    # ---- R07.5 ----
    # Holes of the SQL skeletons are identified by their POSITION in the CASE / WHERE (and by what their definition is), never by
    # the name of the Python local they print.
    HRE = re.compile(re.escape(L) + r"(.*?)" + re.escape(R_))

    def value_exprs(f_: FuncInfo, h: str, depth: int = 0) -> List[ast.AST]:
        """expressions a local may hold: its assignments, and its column of a literal tuple-of-tuples it is a loop target of"""
        out: List[ast.AST] = []
        for n in walk_no_nested(f_.node):
            if isinstance(n, (ast.Assign, ast.AnnAssign)) and n.value is not None \
                    and any(isinstance(t, ast.Name) and t.id == h for t in (n.targets if isinstance(n, ast.Assign) else [n.target])):
                out.append(n.value)
            if isinstance(n, ast.For) and isinstance(n.target, ast.Tuple) and isinstance(n.iter, (ast.Tuple, ast.List)):
                for i_, t in enumerate(n.target.elts):
                    if isinstance(t, ast.Name) and t.id == h:
                        for row in n.iter.elts:
                            if isinstance(row, (ast.Tuple, ast.List)) and i_ < len(row.elts):
                                out.append(row.elts[i_])
        res: List[ast.AST] = []
        for e in out:
            if isinstance(e, ast.IfExp):
                cand = [e.body, e.orelse]
            else:
                cand = [e]
            for c_ in cand:
                if isinstance(c_, ast.Name) and depth < 3:
                    res.extend(value_exprs(f_, c_.id, depth + 1) or [c_])
                else:
                    res.append(c_)
        return res

    def is_null_hole(f_: FuncInfo, h: str) -> bool:
        txts = []
        for e in value_exprs(f_, h):
            txts.append(((sqlx.skeleton_of(e) or (None, []))[0] or (str(e.value) if isinstance(e, ast.Constant) else "?")).strip().upper())
        return bool(txts) and all(t.startswith("CAST(NULL") or t == "NULL" for t in txts)

    def gate_formula(f_: FuncInfo, t: str) -> Tuple[str, Optional[str]]:
        """(`CASE WHEN <cond> THEN <v> ELSE <v> END` with the condition's hole -> X, value holes -> NULL / TRUE, the condition hole)"""
        m = re.match(r"\s*CASE WHEN (?P<c>.*?) THEN (?P<t>.*?) ELSE (?P<e>.*?) END", t, re.S)
        if not m:
            raise AnalysisError(f"{f_.name}: gating CASE not of the form CASE WHEN c THEN v ELSE v END: `{t[:70]}`")
        ch = sorted(set(HRE.findall(m.group("c"))))
        if len(ch) > 1:
            raise AnalysisError(f"{f_.name}: gating CASE tests more than one Python value: `{t[:70]}`")
        cond = HRE.sub("X", m.group("c"))
        vals = [HRE.sub(lambda mm: "NULL" if is_null_hole(f_, mm.group(1)) else "TRUE", m.group(k)) for k in ("t", "e")]
        return f"CASE WHEN {cond} THEN {vals[0]} ELSE {vals[1]} END", (ch[0] if ch else None)

    def gates(f_: FuncInfo) -> List[str]:
        return [t for t, _l in _skeletons(P, f_) if re.match(r"\s*CASE WHEN .*\bEND\s+AS\s+\"?" + re.escape(L), t, re.S)]
    # (a) check(): visit_Validation
    vv = P.func(f"{TR}.visit_Validation")
    gate = gates(vv)
    filt = [t for t, _l in _skeletons(P, vv) if re.match(r"\s*WHERE\b", t)]
    if len(gate) != 1 or len(filt) != 1:
        raise AnalysisError(f"visit_Validation: gating CASE / WHERE skeletons not found ({len(gate)}, {len(filt)})")
    g_txt, gh = gate_formula(vv, gate[0])
    fh = sorted(set(HRE.findall(filt[0])))
    rep.instance("R07.5", "check/same-condition", sample={"gate": gh, "filter": fh})
    if fh != [gh]:
        rep.add(transp.fnd("R07.5", "check/same-condition", vv, vv.node.lineno,
                           "check() filters invalid rows and gates errorcode/errorlevel on different values: the two output modes disagree on which datapoints fail"))
    else:
        _truth(rep, vv, "check", g_txt, HRE.sub("X", filt[0].split("WHERE", 1)[1]))
    # (b) check_hierarchy (the condition is the SQL column _bv of the inner query)
    ch = P.func(f"{TR}._build_check_hr_rule_select")
    gate = [t for t in gates(ch) if "_bv" in t]
    filt = [t for t, _l in _skeletons(P, ch) if re.search(r"\bWHERE\b\s+_bv", t)]
    if len(gate) != 1 or len(filt) != 1:
        raise AnalysisError(f"_build_check_hr_rule_select: gating CASE / WHERE skeletons not found ({len(gate)}, {len(filt)})")
    g_txt, _gh = gate_formula(ch, gate[0])
    _truth(rep, ch, "check_hierarchy", g_txt.replace("_bv", "X"), filt[0].split("WHERE", 1)[1].replace("_bv", "X"))
    # (c) check_datapoint: the same Python value gates both; its definition is the rule being false
    dp = P.func(f"{TR}._build_dp_rule_sql")
    gate = gates(dp)
    filt = [t for t, _l in _skeletons(P, dp) if re.search(r"\bWHERE\b\s*" + re.escape(L) + r"[^" + re.escape(R_) + r"]*" + re.escape(R_) + r"\s*$", t)]
    if len(gate) != 1 or len(filt) != 1:
        raise AnalysisError(f"_build_dp_rule_sql: gating CASE / WHERE skeletons not found ({len(gate)}, {len(filt)})")
    _g, gvar = gate_formula(dp, gate[0])
    fvar = HRE.findall(filt[0].rsplit("WHERE", 1)[1])[0]
    rep.instance("R07.5", "check_datapoint/same-condition", sample={"gate": gvar, "filter": fvar})
    if not gvar or gvar != fvar:
        rep.add(transp.fnd("R07.5", "check_datapoint/same-condition", dp, dp.node.lineno,
                           "check_datapoint filters invalid rows and gates errorcode/errorlevel with different conditions: the two output modes disagree on which datapoints fail"))
    else:
        cond = gvar
        # the value selected AS bool_var
        bvar = None
        for js in [n for n in walk_no_nested(dp.node) if isinstance(n, ast.JoinedStr)]:
            vs_ = js.values
            for i_, v_ in enumerate(vs_[:-1]):
                nxt = vs_[i_ + 1:]
                if isinstance(v_, ast.FormattedValue) and isinstance(v_.value, ast.Name) and len(nxt) >= 2 and isinstance(nxt[0], ast.Constant) \
                        and str(nxt[0].value).strip().upper() == "AS" and isinstance(nxt[1], ast.FormattedValue) and "bool_var" in src(nxt[1].value):
                    bvar = v_.value.id
        if bvar is None:
            raise AnalysisError("_build_dp_rule_sql: the expression selected AS bool_var was not found")
        defs = [n for n in walk_no_nested(dp.node) if isinstance(n, ast.Assign) and any(isinstance(t, ast.Name) and t.id == cond for t in n.targets)]
        bdefs = [n for n in walk_no_nested(dp.node) if isinstance(n, ast.Assign) and any(isinstance(t, ast.Name) and t.id == bvar for t in n.targets)]
        if len(defs) != 2 or len(bdefs) != 2:
            raise AnalysisError("_build_dp_rule_sql: expected two definitions (with / without when) of the failure condition and of the bool_var expression")
        for d, b in zip(sorted(defs, key=lambda n: n.lineno), sorted(bdefs, key=lambda n: n.lineno)):
            dsk, bsk = (sqlx.skeleton_of(d.value) or ("", []))[0], (sqlx.skeleton_of(b.value) or ("", []))[0]
            holes = sorted(set(HRE.findall(dsk)) | set(HRE.findall(bsk)), key=lambda h: (dsk + bsk).index(L + h + R_))
            if not 1 <= len(holes) <= 2:
                raise AnalysisError(f"_build_dp_rule_sql: failure condition / bool_var built from {len(holes)} values; expected the when and the then condition")
            has_when = len(holes) == 2
            # with `when`, the first value printed is the when-condition (WHEN (w) ... ), the other the then-condition
            names = dict(zip(holes, ["W", "T"] if has_when else ["T"]))
            dt = HRE.sub(lambda mm: names[mm.group(1)], dsk)
            bt = HRE.sub(lambda mm: names[mm.group(1)], bsk)
            for w in (TV if has_when else [True]):
                for t in TV:
                    env = {"W": w, "T": t}
                    fail = _ev(dt, env) is True
                    outcome = _ev(bt, env)
                    rep.instance("R07.5", f"check_datapoint/{'when' if has_when else 'plain'}/W={w}/T={t}", sample={"fails": fail, "bool_var": outcome})
                    if fail != (outcome is False):
                        rep.add(transp.fnd("R07.5", f"check_datapoint/{'when' if has_when else 'plain'}/W={w}/T={t}", dp, d.lineno,
                                           f"datapoint rule with when={w}, then={t}: bool_var is {outcome} but the datapoint is {'reported as failing (errorcode set / kept in invalid mode)' if fail else 'not reported'}"))
    # ---- R07.6 an errorcode / errorlevel that is GIVEN is emitted as that value (0 and "" are values, only absence is NULL) ----
    rep.rule("R07.6", "errorcode / errorlevel literal: NULL exactly when the rule declares none (finite decision table of the literal helper, E6)")
    from sa import structmodel as sm
    from sa.e6 import Interp, Raised, Unmodelled
    helpers: Set[str] = set()
    n_sites = 0
    for fn_ in P.classes[TR].methods.values():
        for n in walk_no_nested(fn_.node):
            if isinstance(n, ast.Call) and isinstance(n.func, ast.Attribute) and isinstance(n.func.value, ast.Name) and n.func.value.id == "self" and n.args \
                    and isinstance(n.args[0], ast.Attribute) and n.args[0].attr in ("erCode", "erLevel", "error_code", "error_level"):
                helpers.add(n.func.attr)
                n_sites += 1
                rep.instance("R07.6", f"site/{fn_.name}/{n.args[0].attr}", sample=src(n))
    rep.floor("R07.6 errorcode/errorlevel translation sites", n_sites, 6)
    if not helpers:
        raise AnalysisError("no helper translating erCode / erLevel / error_code / error_level found in the SQL transpiler")
    for h in sorted(helpers):
        hf = P.classes[TR].methods[h]
        for value in (None, 0, "", 1, 2.5, "E1"):
            it = Interp(P, externals={"self._to_sql_literal": lambda value=None, **kw: f"⟦literal {value!r}⟧"})
            try:
                got = it.call(hf, {"self": sm.MTranspiler(), "value": value})
            except Unmodelled as e:
                raise AnalysisError(f"R07.6: {h} is outside the evaluator's language: {e}")
            except Raised as e:
                got = f"<raises {getattr(e.exc, 'kind', e.exc)}>"
            rep.instance("R07.6", f"{h}/{value!r}", sample={"sql": got})
            if isinstance(got, bool):
                continue  # a predicate over the value (e.g. `is it numeric`), not its translation
            is_null = "NULL" in str(got).upper() and "⟦" not in str(got)
            if (value is None) != is_null:
                rep.add(transp.fnd("R07.6", f"{h}/{value!r}", hf, hf.node.lineno,
                                   f"{h}({value!r}) gives `{got}`: " + ("a rule without errorcode/errorlevel must leave the column NULL" if value is None else
                                                                     f"the declared value {value!r} (a legal errorcode / errorlevel) is replaced by NULL, so failing datapoints are reported without it")))
    # ---- R07.7 check(): components declared by Check.validate == structure builder == SELECT list ----
    rep.rule("R07.7", "check: components semantic analysis declares == the transpiler's intermediate structure == the columns the generated SELECT delivers")
    from sa.e6 import ClassVal
    M7 = sm.Model(P)

    def DB() -> "sm.MDS":
        d = M7.ds("DS_b", ["A", "B"], [], ["V"], [])
        d.components["bool_var"] = sm.MComp("bool_var", M7.roles["MEASURE"], ClassVal("vtlengine.DataTypes.Boolean"))
        return d
    try:
        ca, cb = sm.check_interpreter(M7, DB()), sm.check_visitor(M7, DB())
    except Unmodelled as e:
        raise AnalysisError(f"R07.7: construct outside the evaluator's language: {e}")
    if ca[0] != "ok":
        raise AnalysisError(f"R07.7: Check.validate rejects a Boolean dataset in the model: {ca}")
    want = sorted(n for n, _r in sm.comp_summary(ca[1]))
    gotb = sorted(n for n, _r in sm.comp_summary(cb[1])) if cb[0] == "ok" and cb[1] is not None else None
    # SELECT list of visit_Validation: evaluated with the inner query opaque
    vv = P.func(f"{TR}.visit_Validation")
    node = sm.MNode("Validation", op="check", validation=sm.MNode("VarID", value="INNER"), error_code=None, error_level=None, imbalance=None, invalid=False)
    it = Interp(P, externals={"self.visit": lambda x: "⟦inner⟧", "self._stash_assignment": lambda: None, "self._error_code_sql": lambda v: "⟦code⟧",
                              "self._get_dataset_structure": lambda x: DB(), "quote_name": lambda n: f'"{n}"', "isinstance": sm._isinstance})
    try:
        txt = str(it.call(vv, {"self": sm.MTranspiler(), "node": node}))
    except (Unmodelled, Raised) as e:
        raise AnalysisError(f"R07.7: visit_Validation outside the evaluator's language: {e}")
    msel = re.match(r"SELECT (.*?) FROM \(⟦inner⟧\)", txt, re.S)
    gots = None
    if msel:
        gots = []
        for item in sm._split_top(msel.group(1)):
            mm = re.search(r'AS "([^"]+)"\s*$', item.strip())
            gots.append(mm.group(1) if mm else item.strip().split(".")[-1].strip('"'))
        gots = sorted(gots)
    rep.instance("R07.7", "check/components", sample={"declared": want, "structure_visitor": gotb, "sql": gots})
    fbv = P.func(f"{sm.SV}._build_validation_structure")
    if gots != want:
        rep.add(transp.fnd("R07.7", "check/sql-columns", vv, vv.node.lineno,
                           f"check(DS_b) on DS_b(ids A,B; bool_var; viral V): semantic analysis declares the components {want} but the generated SELECT delivers {gots}: the returned Dataset "
                           f"declares components its data does not have"))
    if gotb != want:
        rep.add(transp.fnd("R07.7", "check/structure", fbv, fbv.node.lineno,
                           f"check(DS_b): semantic analysis declares {want} but the transpiler's structure of the intermediate result is {gotb}"))
    # ---- R07.8 dependency-sorting a hierarchical ruleset only re-orders its rules ----
    rep.rule("R07.8", "HRDAGAnalyzer: the list written back to HRuleset.rules is sort_elements(<all rules>): numbering, rules_ast and the sorted list range over the unfiltered ruleset")
    HRD = "vtlengine.AST.DAG.HRDAGAnalyzer"
    shr, vhr = P.func(f"{HRD}.sort_hr_rules"), P.func(f"{HRD}.visit_HRuleset")

    def _filtered(e: ast.AST) -> Optional[str]:
        for x in ast.walk(e):
            if isinstance(x, (ast.ListComp, ast.GeneratorExp, ast.SetComp)) and any(g.ifs for g in x.generators):
                return src(x)[:80]
            if isinstance(x, ast.Call) and getattr(x.func, "id", "") == "filter":
                return src(x)[:80]
        return None
    stores = [n for n in walk_no_nested(shr.node) if isinstance(n, ast.Assign) and any(isinstance(t, ast.Attribute) and t.attr == "rules" for t in n.targets)]
    if not stores:
        raise AnalysisError("sort_hr_rules no longer writes HRuleset.rules: R07.8 has lost its anchor")
    # attribute definitions inside the analyzer class: self.<attr> = <expr>
    attr_defs: Dict[str, List[ast.AST]] = {}
    for fn_ in (shr, vhr):
        for n in walk_no_nested(fn_.node):
            if isinstance(n, ast.Assign):
                for t in n.targets:
                    if isinstance(t, ast.Attribute) and isinstance(t.value, ast.Name) and t.value.id in ("self", "dag"):
                        attr_defs.setdefault(t.attr, []).append(n.value)
    for st in stores:
        v = st.value
        rep.instance("R07.8", "rules-written-back", sample=src(st)[:100])
        ok = isinstance(v, ast.Call) and isinstance(v.func, ast.Attribute) and v.func.attr == "sort_elements" and len(v.args) == 1
        arg = v.args[0] if ok else None
        why = None
        if not ok:
            why = f"`{src(v)[:60]}` is not sort_elements(<rules>)"
        else:
            exprs = [arg]
            if isinstance(arg, ast.Attribute) and arg.attr in attr_defs and arg.attr != "rules":
                exprs = attr_defs[arg.attr]
            for e_ in exprs:
                flt = _filtered(e_)
                if flt:
                    why = f"the sorted list is `{src(arg)}` = `{flt}`: a filtered copy of the rules"
                elif not any(isinstance(x, ast.Attribute) and x.attr == "rules" for x in ast.walk(e_)):
                    why = f"the sorted list `{src(e_)[:60]}` does not derive from node.rules"
        if why:
            rep.add(transp.fnd("R07.8", "rules-written-back", shr, st.lineno,
                               f"sort_hr_rules writes back to HRuleset.rules a list that is not a re-ordering of all its rules ({why}): check_hierarchy evaluates that list, so the rules left out "
                               f"(comparison rules such as `D >= E`) silently stop being validated"))
    for n in walk_no_nested(vhr.node):
        if isinstance(n, ast.For) and any(isinstance(x, ast.Attribute) and x.attr in ("rules", "rules_ast") for x in ast.walk(n.iter)):
            exprs = attr_defs.get(n.iter.attr, [n.iter]) if isinstance(n.iter, ast.Attribute) and n.iter.attr == "rules_ast" else [n.iter]
            rep.instance("R07.8", "numbering-loop", sample=src(n.iter))
            for e_ in exprs:
                flt = _filtered(e_)
                if flt:
                    rep.add(transp.fnd("R07.8", "numbering-loop", vhr, n.lineno,
                                       f"visit_HRuleset numbers only a filtered subset of the rules (`{flt}`): sort_elements indexes the rule list by these numbers, so the other rules are dropped or mis-ordered"))
    # ---- R07.10 hierarchy(... all): the operand rows and the computed rows are united over the RESULT's components, not over every operand component ----
    rep.rule("R07.10", "hierarchy output `all`: the column list shared by the operand and the computed nodes leaves out plain attributes (the computed part and the result do not have them)")
    hs = P.func(f"{TR}._build_hierarchy_sql")
    n10 = 0
    for sk_text, sk_line in _skeletons(P, hs):
        if "_computed" not in sk_text or "UNION" not in sk_text.upper():
            continue
        for h in set(re.findall(re.escape(L) + r"(\w+)" + re.escape(R_), sk_text)):
            defs = [n.value for n in walk_no_nested(hs.node) if isinstance(n, (ast.Assign, ast.AnnAssign)) and n.value is not None
                    and any(isinstance(t, ast.Name) and t.id == h for t in (n.targets if isinstance(n, ast.Assign) else [n.target]))]
            # follow one join(): all_cols_csv = ", ".join(all_cols)
            srcs = []
            for d in defs:
                for x in ast.walk(d):
                    if isinstance(x, ast.Name) and x.id != h:
                        srcs += [n.value for n in walk_no_nested(hs.node) if isinstance(n, (ast.Assign, ast.AnnAssign)) and n.value is not None
                                 and any(isinstance(t, ast.Name) and t.id == x.id for t in (n.targets if isinstance(n, ast.Assign) else [n.target]))]
            for d in defs + srcs:
                if any(isinstance(c, ast.Call) and isinstance(c.func, ast.Attribute) and c.func.attr == "get_components_names" for c in ast.walk(d)):
                    n10 += 1
                    rep.add(transp.fnd("R07.10", "all-output-columns", hs, sk_line,
                                       f"the `all` output unites the operand with the computed nodes over `{src(d)[:70]}` - every component of the operand, plain attributes included; the computed "
                                       f"part has no such column, so hierarchy(DS_1, hr ... all) over a dataset with an attribute ends in a raw BinderException"))
        rep.instance("R07.10", f"all-output-union@{sk_line}", sample={"sql": " ".join(sk_text.split())[:120]})
    # ---- R07.9 a validation operator leaves its operands (the validated dataset, the imbalance dataset) as it found them ----
    rep.rule("R07.9", "check / check_datapoint / check_hierarchy validators do not mutate the structure of their operands")
    from sa.checks.c12 import operand_mutations
    operand_mutations(P, rep, "R07.9", ("vtlengine.Operators.Validation", "vtlengine.Operators.HROperators"), floor=3)
    # ---- R07.11 hierarchy: which rules aggregate, and "one rule per code item", decided on the rule proper of a WHEN-guarded rule ----
    rep.rule("R07.11", "visit_HROperation (hierarchy branch) evaluated on rulesets with WHEN-guarded rules: the rules kept are exactly the `=` rules (bare or behind a WHEN), and two "
                       "rules are rejected (1-1-10-10) exactly when they define the same code item - whatever their conditions are")
    from sa.e6 import ExternalObj as _EO11, Interp as _I11, Raised as _R11, Unmodelled as _U11
    from sa import structmodel as _sm11
    fh = P.func("vtlengine.Interpreter.InterpreterAnalyzer.visit_HROperation")
    hier_if = [st for st in walk_no_nested(fh.node) if isinstance(st, ast.If) and any(isinstance(x, ast.Name) and x.id == "HIERARCHY" for x in ast.walk(st.test))
               and any(isinstance(x, ast.Constant) and x.value == "1-1-10-10" for x in ast.walk(st))]
    if len(hier_if) != 1:
        raise AnalysisError("visit_HROperation: the hierarchy rule selection (1-1-10-5 / 1-1-10-10) not found (anchor changed)")
    node_param = [x for x in fh.params if x != "self"][0]
    # the local that holds the ruleset record ({"rules": ..., "node": ...}) and the one that holds its name
    info_vars = {x.value.id for x in ast.walk(hier_if[0]) if isinstance(x, ast.Subscript) and isinstance(x.value, ast.Name) and isinstance(x.slice, ast.Constant) and x.slice.value == "rules"}
    if len(info_vars) != 1:
        raise AnalysisError("visit_HROperation: the ruleset record read by the hierarchy branch not identified")
    info_var = next(iter(info_vars))
    free = {x.id for x in ast.walk(hier_if[0]) if isinstance(x, ast.Name) and isinstance(x.ctx, ast.Load)} - {x.id for x in ast.walk(hier_if[0]) if isinstance(x, ast.Name) and isinstance(x.ctx, ast.Store)}
    H_TOK = _I11(P).eval(ast.parse("HIERARCHY", mode="eval").body, {}, fh)
    EQ_TOK = _I11(P).eval(ast.parse("EQ", mode="eval").body, {}, fh)
    WHEN_TOK = _I11(P).eval(ast.parse("WHEN", mode="eval").body, {}, fh)

    class _N(_sm11.MNode):
        _e6_complete = True  # every field the hierarchy branch may read is given below: a missing one is the program's AttributeError

        def __eq__(self, o: object) -> bool:  # AST nodes compare structurally
            return isinstance(o, _sm11.MNode) and {k: v for k, v in self.__dict__.items()} == {k: v for k, v in o.__dict__.items()}
        __hash__ = None  # type: ignore[assignment]

    def _ci(v: str) -> Any:
        return _N("DefIdentifier", value=v, kind="CodeItemID")

    def _rule(name: str, item: str, op: str = EQ_TOK, cond: Optional[str] = None) -> Any:
        body = _N("HRBinOp", left=_ci(item), op=op, right=_N("HRBinOp", left=_ci("B"), op="+", right=_ci("C")))
        if cond is not None:
            body = _N("HRBinOp", left=_N("BinOp", left=_N("VarID", value="Id_3"), op="=", right=_N("Constant", value=cond)), op=WHEN_TOK, right=body)
        return _N("HRule", name=name, rule=body, erCode=None, erLevel=None)
    n11 = 0
    for label, rules, want in (
            ("same-condition-different-items", [_rule("R1", "A", cond="X"), _rule("R2", "D", cond="X")], ("ok", ["R1", "R2"])),
            ("different-conditions-same-item", [_rule("R1", "A", cond="X"), _rule("R2", "A", cond="Y")], ("raise", "1-1-10-10")),
            ("bare-and-guarded-same-item", [_rule("R1", "A"), _rule("R2", "A", cond="Y")], ("raise", "1-1-10-10")),
            ("bare-same-item", [_rule("R1", "A"), _rule("R2", "A")], ("raise", "1-1-10-10")),
            ("guarded-comparison-dropped", [_rule("R1", "A", cond="X"), _rule("R2", "D", op=">", cond="X"), _rule("R3", "E", op=">=")], ("ok", ["R1"])),
            ("no-equality-rule", [_rule("R1", "A", op=">"), _rule("R2", "D", op="<", cond="X")], ("raise", "1-1-10-5"))):
        info = {"rules": list(rules), "node": _N("HRuleset", signature_type="variable", element=_N("DefIdentifier", value="Id_2", kind="DatasetID"), name="hr")}
        env = {v: "hr" for v in free if v not in (node_param, info_var)}
        env = {k: v for k, v in env.items() if k not in ("HIERARCHY", "EQ", "WHEN", "SemanticError", "AST", "HRDAGAnalyzer", "len")}
        env[node_param] = _N("HROperation", op=H_TOK, line_start=1, line_stop=1, column_start=1, column_stop=1)
        env[info_var] = info
        ext = {"AST.HRuleset": lambda **kw: _N("HRuleset", **kw), "HRuleset": lambda **kw: _N("HRuleset", **kw), "HRDAGAnalyzer": lambda: _EO11({"visit": lambda x: None})}
        try:
            _I11(P, externals=ext, max_steps=4000).exec(hier_if[0], env, fh)
            got: Tuple[str, Any] = ("ok", [r.name for r in info["rules"]])
        except _R11 as r:
            got = ("raise", getattr(r.exc, "code", None) or getattr(r.exc, "kind", type(r.exc).__name__))
        except _U11 as e:
            raise AnalysisError(f"R07.11: the hierarchy rule selection is outside the evaluator's language: {e}")
        n11 += 1
        rep.instance("R07.11", f"hierarchy-rules/{label}", nontrivial=True, sample={"rules": [f"{r.name}: {'when … then ' if r.rule.op == WHEN_TOK else ''}{(r.rule.right if r.rule.op == WHEN_TOK else r.rule).left.value} {(r.rule.right if r.rule.op == WHEN_TOK else r.rule).op} …" for r in rules], "outcome": list(got)})
        if got != want:
            rep.add(Finding("R07.11", f"R07.11/hierarchy-rules/{label}", fh.module.rel, hier_if[0].lineno, fh.qualname,
                            f"hierarchy over the ruleset {[('when … then ' if r.rule.op == WHEN_TOK else '') + (r.rule.right if r.rule.op == WHEN_TOK else r.rule).left.value + ' ' + (r.rule.right if r.rule.op == WHEN_TOK else r.rule).op + ' …' for r in rules]}: "
                            f"the rule selection gives {got}, the operator's definition gives {want} (the aggregating rules are the `=` rules, one per code item; the condition of a WHEN-guarded "
                            f"rule is not its code item)"))
    rep.floor("R07.11 rulesets evaluated", n11, 6)
    rep.assumptions = ["SQL three-valued logic (Kleene) for AND/OR/NOT, IS [NOT] FALSE, CASE", "the pivot column naming helpers _has_col / _val_col are the only producers of those names"]


def _truth(rep: Report, f: FuncInfo, what: str, gate_sql: str, filter_sql: str) -> None:
    for x in TV:
        env = {"X": x, "x": x}
        set_ = _ev(gate_sql, env) is True
        kept = _ev(filter_sql, env) is True
        rep.instance("R07.5", f"{what}/outcome={x}", sample={"errorcode_set": set_, "kept_in_invalid_mode": kept})
        want = x is False
        if set_ != want or kept != want:
            rep.add(transp.fnd("R07.5", f"{what}/outcome={x}", f, f.node.lineno,
                               f"{what}: for a rule outcome of {x} errorcode/errorlevel are {'set' if set_ else 'not set'} (all mode) and the datapoint is "
                               f"{'kept' if kept else 'dropped'} (invalid mode); VTL sets them and reports the datapoint exactly when the outcome is FALSE "
                               f"[gate: {gate_sql[:70]} | filter: {filter_sql.strip()[:40]}]"))
