"""C04 - joins combine datasets as specified (DESIGN §3 C04).  Structural clauses decided:

R04.1 the SQL transpiler reads every field of JoinOp and NvlJoinPair (op, clauses, using, nvl; component, default)
R04.2 the four join operators of the grammar select four different SQL joins: the keyword SQLBuilder.join derives from the
      operator token is evaluated for every token (inner_join -> INNER, left_join -> LEFT, full_join -> FULL) and cross_join has
      its own branch
R04.3 a FULL JOIN key is NULL on the side a datapoint did not come from: wherever a key of the already-joined side is
      referenced (SELECT list and ON clause of every further operand) it is COALESCEd across the joined operands
R04.4 join scratch state (alias map, consumed aliases) is re-initialised between statements on every path (shared rule RT.3a)
      and handlers rebind transpiler attributes only inside restoring context managers (RT.3b)
R04.5 nvl defaults of the join are applied in every branch that emits a non-key component
R04.6 explicit `using` replaces the pairwise common identifiers for every further operand
R04.7 join model: Operators.Join.*.validate and SQLTranspiler.visit_JoinOp are evaluated by abstract interpretation (sa/e6.py) on
      small operand structures (2-3 datasets; identifier sets equal / nested in both orders; a shared measure; using on an
      identifier and on a measure-that-is-an-identifier-elsewhere) for the four operators.  Whenever semantic analysis accepts
      the join: the SELECT list delivers exactly the components of the semantic result; each further operand is joined with the
      operator's own join type, ON exactly the identifiers it shares with ANY operand joined before it (or using ∩ its
      components); the left side of each equality names an operand that is already joined and has the key - for left_join the
      earliest such operand (later ones are NULL where unmatched), for full_join the COALESCE of all of them
Not decided: that DuckDB's join on the emitted ON clause yields the VTL result; alias disambiguation of every component.
"""
from __future__ import annotations

import ast
from typing import Dict, List, Optional, Set, Tuple

from sa import astctor, e7, g4, transp
from sa.core import AnalysisError, Finding, FuncInfo, Program, Report, program, src, walk_no_nested

TR = transp.TR
EXEMPT = {("JoinOp", "isLast"): "layout marker derived by the constructor (whether the join is followed by a clause body); carries no semantics"}


def run(rep: Report, tier: str) -> None:  # noqa: C901
    P = program()
    G = g4.load(P)
    NC = e7.node_classes(P)
    rep.explanation = ("Typed field-read inventory for JoinOp/NvlJoinPair; constant folding of the join keyword expression over the grammar's join tokens; "
                       "sibling-site agreement inside visit_JoinOp (FULL JOIN key coalescing in SELECT and ON; nvl defaults in both component branches); "
                       "CFG rule on the per-statement reset of the join scratch state.")
    rep.rule("R04.1", "transpiler reads every field of JoinOp / NvlJoinPair")
    rep.rule("R04.2", "join tokens map to distinct SQL join keywords")
    rep.rule("R04.3", "FULL JOIN keys of the joined side are coalesced in SELECT and in ON")
    rep.rule("R04.4", "join scratch state reset between statements; attribute rebinding only in restoring scopes")
    rep.rule("R04.5", "nvl defaults applied in every branch that emits a non-key component")
    rep.rule("R04.6", "explicit using replaces the pairwise keys (join model: ON keys of every further operand == using ∩ its components)")
    rep.rule("R04.7", "join model: SELECT list == components of the semantic result; ON keys == identifiers shared with the operands joined before; ON references an operand already joined that has the key")
    transp.field_coverage(P, rep, "R04.1", ["JoinOp", "NvlJoinPair"], EXEMPT, "join")

    # ---- R04.2 ----
    join_tokens = {G.tokens[t] for t in ("INNER_JOIN", "LEFT_JOIN", "FULL_JOIN", "CROSS_JOIN") if t in G.tokens}
    ctor_ops: Set[str] = set()
    jr = G.rules.get("joinOperators")
    if jr is None or len(join_tokens) != 4:
        raise AnalysisError("grammar: joinOperators / join tokens not found")
    for a in jr.alts:
        for e in g4.iter_elems(a.elems):
            ts = G.elem_tokens(e) if e.label in ("joinKeyword", "op") or e.kind in ("tok", "group") else None
            for t in ts or []:
                if G.tokens.get(t) in join_tokens:
                    ctor_ops.add(G.tokens[t])
    if ctor_ops != join_tokens:
        raise AnalysisError(f"grammar join operators {sorted(ctor_ops)} != join tokens {sorted(join_tokens)}")
    jb = P.func("vtlengine.duckdb_transpiler.Transpiler.sql_builder.SQLBuilder.join")
    kw_def = next((n for n in walk_no_nested(jb.node) if isinstance(n, ast.Assign) and "join_type" in src(n.value) and isinstance(n.targets[0], ast.Name)), None)
    if kw_def is None:
        raise AnalysisError("SQLBuilder.join: keyword derivation from join_type not found")
    # constant-fold the keyword expression for each token (pure str methods only)
    for x in ast.walk(kw_def.value):
        if isinstance(x, ast.Call) and not (isinstance(x.func, ast.Attribute) and x.func.attr in ("replace", "upper", "lower", "strip", "removesuffix")):
            raise AnalysisError(f"SQLBuilder.join: keyword expression uses a call outside the modelled str methods: {src(x)}")
    code = compile(ast.Expression(body=kw_def.value), "<join-keyword>", "eval")
    vj = P.func(f"{TR}.visit_JoinOp")
    images: Dict[str, str] = {}
    cross_branch = any(isinstance(n, ast.Assign) and "CROSS_JOIN" in src(n.value) for n in walk_no_nested(vj.node)) and \
        any(isinstance(c, ast.Call) and isinstance(c.func, ast.Attribute) and c.func.attr == "cross_join" for c in walk_no_nested(vj.node))
    for tok in sorted(join_tokens):
        if tok == G.tokens["CROSS_JOIN"]:
            rep.instance("R04.2", f"keyword/{tok}", sample="own branch (builder.cross_join)")
            if not cross_branch:
                rep.add(transp.fnd("R04.2", f"keyword/{tok}", vj, vj.node.lineno, "cross_join has no branch of its own in visit_JoinOp (no ON clause may be emitted for it)"))
            continue
        images[tok] = eval(code, {"__builtins__": {}}, {"join_type": tok})  # constant folding of a pure string expression
        rep.instance("R04.2", f"keyword/{tok}", sample=images[tok])
    want = {G.tokens["INNER_JOIN"]: "INNER", G.tokens["LEFT_JOIN"]: "LEFT", G.tokens["FULL_JOIN"]: "FULL"}
    for tok, kw in images.items():
        if kw != want.get(tok):
            rep.add(transp.fnd("R04.2", f"keyword/{tok}", jb, kw_def.lineno, f"{tok} is written as `{kw} JOIN`; VTL {tok} is SQL `{want.get(tok)} JOIN`"))
    # visit_JoinOp passes node.op as join_type
    passes = [c for c in walk_no_nested(vj.node) if isinstance(c, ast.Call) and isinstance(c.func, ast.Attribute) and c.func.attr == "join"
              and any(k.arg == "join_type" and src(k.value) == "node.op" for k in c.keywords)]
    rep.instance("R04.2", "join_type=node.op")
    if not passes:
        rep.add(transp.fnd("R04.2", "join_type=node.op", vj, vj.node.lineno, "visit_JoinOp does not pass the node's own operator as join_type to the builder"))

    # ---- R04.3 (decided on the evaluated handler, see _join_model: SELECT key columns and ON references of full_join) ----
    # ---- R04.4 ----
    transp.state_discipline(P, rep, "R04.4", only_attrs={"_join_alias_map", "_consumed_join_aliases", "_in_clause", "_current_dataset", "_column_prefix", "current_assignment"}, parts="ab")

    # ---- R04.5 nvl defaults reach every non-key component they name (evaluated handler) ----
    from sa import structmodel as _sm5
    from sa.e6 import Unmodelled as _Unm5
    M5 = _sm5.Model(P)
    n_br = 0
    for op5 in ("inner_join", "left_join", "full_join"):
        ops5 = [M5.ds("d1", ["A"], ["M1", "X"]), M5.ds("d2", ["A"], ["M2", "X"])]
        try:
            r5 = _sm5.join_sql(M5, op5, [(d.name, d, None) for d in ops5], None, nvl={"X": "⟦dX⟧", "M2": "⟦dM2⟧"})
        except _Unm5 as e:
            raise AnalysisError(f"R04.5: visit_JoinOp outside the evaluator's language: {e}")
        if r5[0] != "ok" or isinstance(r5[1], str):
            raise AnalysisError(f"R04.5: visit_JoinOp with nvl defaults not evaluable: {r5}")
        for cname, dflt in (("d1#X", "⟦dX⟧"), ("d2#X", "⟦dX⟧"), ("M2", "⟦dM2⟧")):
            item = next((c_ for c_ in r5[1].cols if c_.rstrip().endswith(f'AS "{cname}"') or c_.strip().endswith(f'."{cname}"')), None)
            n_br += 1
            rep.instance("R04.5", f"nvl/{op5}/{cname}", sample={"item": item})
            if item is None or "COALESCE(" not in item.upper() or dflt not in item:
                rep.add(transp.fnd("R04.5", f"nvl/{op5}/{cname}", vj, vj.node.lineno,
                                   f"{op5}(d1, d2 nvl(X, …), nvl(M2, …)): the result component {cname} is emitted as `{item}` - the declared default is not applied (COALESCE(<column>, <default>))"))
    rep.floor("R04.5 projection items with a default", n_br, 9)

    # ---- R04.6 / R04.7: Join.validate and visit_JoinOp evaluated (E6) on abstract operand structures ----
    _join_model(P, rep, vj)
    transp.builder_contract(P, rep, "R04.2", parts="j")
    # ---- R04.9 removing the alias prefixes after a join never merges two components ----
    strip_prefixes_model(P, rep, "R04.9")
    # ---- R04.8 every operand of a join is an input of its statement, whatever its alias is called (dependency analysis, shared with C12) ----
    rep.rule("R04.8", "dependency analysis: a join alias is recorded only after the aliased operand has been visited; join clauses are traversed on every path")
    from sa.checks.c12 import alias_after_operand, traversal_on_every_path
    alias_after_operand(P, rep, "R04.8")
    traversal_on_every_path(P, rep, "R04.8", {"JoinOp", "BinOp"})
    # ---- R04.10 join keys of type Time_Period are matched as text: one stored text per period ----
    rep.rule("R04.10", "every accepted spelling of a Time_Period is stored as the one canonical text (join keys of type Time_Period are matched as text)")
    from sa import sqlx as _sqlx_g
    from sa.checks.c19 import period_limits as _pl_g
    from sa.checks.c21 import spelling_grid as _sg_g
    _sg_g(rep, "R04.10", {k.lower(): v for k, v in _sqlx_g.load_macros(P).items()}, _pl_g(P))
    # ---- R04.11 an alias names the operand it is attached to in THIS join (whatever an earlier statement registered under the same alias) ----
    rep.rule("R04.11", "Alias.validate evaluated with the alias given as text and as a dataset registered by an earlier join under the same alias: the aliased dataset always has "
                       "the components of the operand the alias is attached to")
    from sa import structmodel as _sm11
    from sa.e6 import ClassVal as _CV11, Interp as _I11, Raised as _R11, Unmodelled as _U11
    M11 = _sm11.Model(P)
    fa = P.func("vtlengine.Operators.General.Alias.validate")
    n11 = 0
    for lab, right in (("text", "d1"), ("registered-by-an-earlier-join", M11.ds("d1", ["Id_1"], ["Me_1", "Me_2"]))):
        left = M11.ds("DS_3", ["Id_1", "Id_2"], ["Me_9"])
        try:
            got = _I11(P, externals={"isinstance": _sm11._isinstance, "Dataset": M11.mk_dataset}).call(fa, {"left_operand": left, "right_operand": right}, bound_cls=_CV11("vtlengine.Operators.General.Alias"))
            out = (getattr(got, "name", None), sorted(getattr(got, "components", {})))
        except _R11 as r:
            out = ("<raises>", [getattr(r.exc, "code", None)])
        except _U11 as e:
            raise AnalysisError(f"R04.11: Alias.validate outside the evaluator's language: {e}")
        n11 += 1
        rep.instance("R04.11", f"alias/{lab}", nontrivial=True, sample={"alias": lab, "result": list(out)})
        if out != ("d1", sorted(left.components)):
            rep.add(Finding("R04.11", f"R04.11/alias/{lab}", fa.module.rel, fa.node.lineno, fa.qualname,
                            f"`DS_3 as d1` with the alias given as {lab.replace('-', ' ')}: the aliased dataset is {out}, expected ('d1', {sorted(left.components)}): a later join that re-uses "
                            f"an alias for another dataset is analysed on the structure of the dataset aliased first, and the components of its real operands are dropped from the result"))
    rep.floor("R04.11 alias forms", n11, 2)
    # ---- R04.12 every Time_Period value of a result is rendered in the requested representation, also next to a NULL of the other side of an outer join ----
    representation_row_filter(P, rep, "R04.12")
    # ---- R04.13 full_join takes operands with the SAME identifiers only ----
    rep.rule("R04.13", "FullJoin.identifiers_validation evaluated on operand pairs: equal identifier sets pass, an operand whose identifiers are a proper subset / superset / overlap of "
                       "the reference's is rejected (1-1-13-13 / 1-1-13-12) - otherwise datapoints present only in the smaller operand come back with NULL in a non-nullable identifier")
    from sa import structmodel as _sm13
    from sa.e6 import ClassVal as _CV13, Interp as _I13, Raised as _R13, Unmodelled as _U13
    M13 = _sm13.Model(P)
    ffj = P.func("vtlengine.Operators.Join.FullJoin.identifiers_validation")
    n13 = 0
    for lab13, ids_ref, ids_other, must_pass in (("equal", ["Id_1", "Id_2"], ["Id_1", "Id_2"], True), ("proper-subset", ["Id_1", "Id_2"], ["Id_1"], False), ("overlap", ["Id_1", "Id_2"], ["Id_1", "Id_3"], False),
                                                 ("single-equal", ["Id_1"], ["Id_1"], True), ("disjoint-same-count", ["Id_1"], ["Id_9"], False)):
        ref = M13.ds("DS_1", ids_ref, ["Me_1"])
        oth = M13.ds("DS_2", ids_other, ["Me_2"])
        for order in ((ref, oth), (oth, ref)):
            it13 = _I13(P, externals={"isinstance": _sm13._isinstance}, max_steps=8000)
            it13.class_attrs[("vtlengine.Operators.Join.Join", "reference_dataset")] = ref
            it13.class_attrs[("vtlengine.Operators.Join.FullJoin", "reference_dataset")] = ref
            try:
                it13.call(ffj, {"operands": list(order), "using": None}, bound_cls=_CV13("vtlengine.Operators.Join.FullJoin"))
                got13 = "accepted"
            except _R13 as r:
                got13 = f"rejected {getattr(r.exc, 'code', None)}"
            except _U13 as e:
                raise AnalysisError(f"R04.13: FullJoin.identifiers_validation outside the evaluator's language: {e}")
            n13 += 1
            rep.instance("R04.13", f"full-join-ids/{lab13}/{'ref-first' if order[0] is ref else 'ref-second'}", nontrivial=True, sample={"reference": ids_ref, "other": ids_other, "outcome": got13})
            if (got13 == "accepted") != must_pass:
                rep.add(Finding("R04.13", f"R04.13/full-join-ids/{lab13}", ffj.module.rel, ffj.node.lineno, ffj.qualname,
                                f"full_join of a dataset with identifiers {ids_ref} (the reference) and one with {ids_other} is {got13}: "
                                + ("operands with the same identifiers must be accepted" if must_pass else "full_join needs the same identifiers in every operand - for datapoints that exist only "
                                   "in the operand lacking an identifier, the result has NULL in that non-nullable identifier")))
                break
    rep.floor("R04.13 identifier-set cases", n13, 5)
    rep.assumptions = ["DuckDB join semantics for the emitted ON clause", "SQLBuilder.join writes `<keyword> JOIN` from its join_type argument (read from the source)"]


JOIN_SHAPES: List[Tuple[str, List[List[str]], Optional[List[str]], Dict[int, List[str]]]] = [
    # label, identifier sets per operand, using, extra measures per operand index (a using key that is a measure there)
    ("eq3", [["A", "B"], ["A", "B"], ["A", "B"]], None, {}),
    ("small-first", [["A"], ["A", "B"], ["A", "B"]], None, {}),
    ("big-first", [["A", "B"], ["A"], ["B"]], None, {}),
    ("big-first-2", [["A", "B"], ["A", "B"], ["A"]], None, {}),
    ("small-small-big", [["A"], ["A"], ["A", "B"]], None, {}),
    ("2/big-small", [["A", "B"], ["A"]], None, {}),
    ("2/small-big", [["A"], ["A", "B"]], None, {}),
    ("2/eq", [["A"], ["A"]], None, {}),
    ("using-id/2", [["A", "B"], ["A"]], ["A"], {}),
    ("using-id/3", [["A", "B"], ["A"], ["A"]], ["A"], {}),
    ("using-measure-key/2", [["A"], ["K"]], ["K"], {0: ["K"]}),
    ("using-two/3", [["A", "B", "C"], ["A", "B"], ["A", "B"]], ["A", "B"], {}),
]
JOIN_OPS = [("InnerJoin", "inner_join"), ("LeftJoin", "left_join"), ("FullJoin", "full_join"), ("CrossJoin", "cross_join")]


def _join_model(P: Program, rep: Report, vj: FuncInfo) -> None:  # noqa: C901
    import re as _re
    from sa import structmodel as sm
    from sa.e6 import ClassVal, Interp, Raised, Unmodelled
    M = sm.Model(P)
    fv = P.func("vtlengine.Operators.Join.Join.validate")

    def mk(ids_list: List[List[str]], extra: Dict[int, List[str]]) -> List[sm.MDS]:
        return [M.ds(f"d{i + 1}", ids, [f"M{i + 1}", "X"] + extra.get(i, [])) for i, ids in enumerate(ids_list)]

    def validate(cls: str, ops: List[sm.MDS], using: Optional[List[str]]) -> Tuple[str, object]:
        ext = {"VirtualCounter._new_ds_name": lambda: "__VDS__", "Dataset": M.mk_dataset, "isinstance": sm._isinstance,
               "copy": lambda x: sm.MComp(x.name, x.role, x.data_type, x.nullable) if isinstance(x, sm.MComp) else x,
               "binary_implicit_promotion": lambda a, b: a}
        it = Interp(P, externals=ext, max_steps=400000)
        try:
            r = it.call(fv, {"operands": ops, "using": list(using) if using else None}, bound_cls=ClassVal(f"vtlengine.Operators.Join.{cls}"))
        except Raised as e:
            return "raise", getattr(e.exc, "code", None)
        return "ok", r
    n_ok = 0
    for label, ids_list, using, extra in JOIN_SHAPES:
        for cls, op in JOIN_OPS:
            key = f"join/{op}/{label}"
            try:
                v = validate(cls, mk(ids_list, extra), using)
                if v[0] != "ok":
                    rep.instance("R04.7", key, nontrivial=False, sample={"validator": v})
                    continue
                ops = mk(ids_list, extra)
                r = sm.join_sql(M, op, [(d.name, d, None) for d in ops], list(using) if using else None)
            except Unmodelled as e:
                raise AnalysisError(f"R04.7 {key}: construct outside the evaluator's language: {e}")
            n_ok += 1
            if r[0] != "ok" or isinstance(r[1], str):
                rep.add(transp.fnd("R04.7", key, vj, vj.node.lineno, f"{op} over {label}: semantic analysis accepts the join but visit_JoinOp raises {r[1]}"))
                continue
            b = r[1]
            cols = []
            for c in b.cols:
                m = _re.search(r'AS "([^"]+)"\s*$', c)
                cols.append(m.group(1) if m else c.split(".")[-1].strip('"'))
            want = sorted(v[1].components)  # type: ignore[union-attr]
            if using:
                rep.instance("R04.6", key, sample={"using": using, "on": [j["on"] for j in b.joins]})
            rep.instance("R04.7", key, sample={"components": want, "select": cols, "joins": [(j["alias"], j["type"], j["on"]) for j in b.joins]})
            try:
                vb = sm.join_visitor(M, op, [(d.name, d, None) for d in mk(ids_list, extra)], list(using) if using else None)
            except Unmodelled as e:
                raise AnalysisError(f"R04.7 {key}: _build_join_structure outside the evaluator's language: {e}")
            gotb = sorted(vb[1].components) if vb[0] == "ok" and vb[1] is not None else None
            if gotb != want:
                fbj = P.func(f"{sm.SV}._build_join_structure")
                rep.add(transp.fnd("R04.7", key + "/structure", fbj, fbj.node.lineno,
                                   f"{op} over operands with identifiers {ids_list}" + (f" using {using}" if using else "") + f": semantic analysis gives the components {want} but the "
                                   f"transpiler's structure of the join (used by the clauses that follow it and by enclosing operators) is {gotb}"))
            if sorted(cols) != want:
                rep.add(transp.fnd("R04.7", key + "/select", vj, vj.node.lineno,
                                   f"{op} over operands with identifiers {ids_list}" + (f" using {using}" if using else "") + f": semantic analysis gives the components {want} "
                                   f"but the generated SELECT delivers {sorted(cols)}"))
            if op == "full_join":
                for kname in sorted(set().union(*(set(o_.get_identifiers_names()) for o_ in ops))):
                    have_all = [o_.name for o_ in ops if kname in o_.components]
                    item = next((c_ for c_ in b.cols if _re.search(r'AS "' + _re.escape(kname) + r'"\s*$', c_) or c_.strip().endswith(f'."{kname}"')), None)
                    refs_sel = _re.findall(r'(\w+)\."' + _re.escape(kname) + '"', item or "")
                    rep.instance("R04.3", f"{key}/select/{kname}", sample={"item": item})
                    if len(have_all) > 1 and (item is None or not item.strip().upper().startswith("COALESCE(") or sorted(refs_sel) != sorted(have_all)):
                        rep.add(transp.fnd("R04.3", key + f"/select-coalesce/{kname}", vj, vj.node.lineno,
                                           f"full_join over {label}: the key column {kname} of the result is `{item}`; it must be the COALESCE across {have_all} "
                                           f"(keys of datapoints that exist only in a later operand come out NULL otherwise)"))
            if b.alias != ops[0].name or len(b.joins) != len(ops) - 1:
                rep.add(transp.fnd("R04.7", key + "/from", vj, vj.node.lineno, f"{op} over {label}: FROM is `{b.table} {b.alias}` with {len(b.joins)} joined operands; expected the first operand and {len(ops) - 1} joins, in order"))
                continue
            for k, j in enumerate(b.joins, start=1):
                d = ops[k]
                if j["alias"] != d.name:
                    rep.add(transp.fnd("R04.7", key + f"/order/{k}", vj, vj.node.lineno, f"{op} over {label}: operand {k + 1} is joined as `{j['alias']}`, expected `{d.name}`"))
                    continue
                if op == "cross_join":
                    if j["type"] != "CROSS":
                        rep.add(transp.fnd("R04.7", key + f"/type/{k}", vj, vj.node.lineno, f"cross_join: operand {d.name} is joined with `{j['type']}` ON `{j['on']}`"))
                    continue
                if j["type"] != op:
                    rep.add(transp.fnd("R04.7", key + f"/type/{k}", vj, vj.node.lineno, f"{op}: operand {d.name} is joined with join type `{j['type']}`"))
                earlier = ops[:k]
                if using:
                    want_keys = sorted(x for x in using if x in d.components)
                else:
                    before = set().union(*(set(e_.get_identifiers_names()) for e_ in earlier))
                    want_keys = sorted(set(d.get_identifiers_names()) & before)
                parts = [p_.strip() for p_ in _re.split(r"\s+AND\s+", j["on"] or "")] if j["on"] and j["on"] != "1=1" else []
                got_keys = []
                for p_ in parts:
                    m = _re.fullmatch(r'(.+?)\s*=\s*' + _re.escape(d.name) + r'\."([^"]+)"', p_)
                    if not m:
                        rep.add(transp.fnd("R04.7", key + f"/on-shape/{k}", vj, vj.node.lineno, f"{op} over {label}: ON part `{p_}` of operand {d.name} is not `<joined side> = {d.name}.<key>`"))
                        continue
                    kname = m.group(2)
                    got_keys.append(kname)
                    have = [e_.name for e_ in earlier if kname in e_.components]
                    refs = _re.findall(r'(\w+)\."' + _re.escape(kname) + '"', m.group(1))
                    coalesced = m.group(1).strip().upper().startswith("COALESCE(")
                    rule = "R04.6" if using else "R04.7"
                    if not refs or any(x not in have for x in refs):
                        rep.add(transp.fnd(rule, key + f"/on-ref/{k}/{kname}", vj, vj.node.lineno,
                                           f"{op} over {label}: `{p_}` references {refs or m.group(1)} for key {kname}; only {have} are joined before {d.name} and have that component"))
                    elif op == "full_join" and len(have) > 1 and (not coalesced or sorted(refs) != sorted(have)):
                        rep.add(transp.fnd("R04.3", key + f"/on-coalesce/{k}/{kname}", vj, vj.node.lineno,
                                           f"full_join over {label}: `{p_}`: key {kname} of the joined side must be the COALESCE across {have} (each is NULL for datapoints that came only from the others)"))
                    elif op == "left_join" and refs != [have[0]]:
                        rep.add(transp.fnd("R04.7", key + f"/on-left-ref/{k}/{kname}", vj, vj.node.lineno,
                                           f"left_join over {label}: `{p_}` takes key {kname} from {refs}; it must come from {have[0]} (the reference operand): operands joined later are NULL where unmatched, "
                                           f"so datapoints of {d.name} would be lost"))
                if sorted(got_keys) != want_keys:
                    rule = "R04.6" if using else "R04.7"
                    rep.add(transp.fnd(rule, key + f"/on-keys/{k}", vj, vj.node.lineno,
                                       f"{op} over operands with identifiers {ids_list}" + (f" using {using}" if using else "") + f": operand {d.name} is joined ON {sorted(got_keys)}; "
                                       f"the relational join needs exactly {want_keys} (" + ("the using keys it has" if using else "the identifiers it shares with the operands joined before it") + ")"))
    rep.floor("R04.7 accepted join instances", n_ok, 25)
    # aliases: `DS_1 as x1` followed by un-aliased operands - each operand is qualified by ITS OWN alias or name
    for op in ("inner_join", "left_join"):
        for label, aliases in (("first-aliased", ["x1", None, None]), ("middle-aliased", [None, "x2", None]), ("all-aliased", ["x1", "x2", "x3"])):
            names = ["DS_1", "DS_2", "DS_3"]

            def mk3():
                return [M.ds(n_, ["A"], [f"M{i_ + 1}", "X"]) for i_, n_ in enumerate(names)]
            vops = mk3()
            for d_, a_ in zip(vops, aliases):
                d_.name = a_ or d_.name  # the interpreter hands the validator each operand under its alias
            key = f"join-alias/{op}/{label}"
            try:
                v = validate("InnerJoin" if op == "inner_join" else "LeftJoin", vops, None)
                r = sm.join_sql(M, op, [(n_, d_, a_) for n_, d_, a_ in zip(names, mk3(), aliases)], None)
                vb = sm.join_visitor(M, op, [(n_, d_, a_) for n_, d_, a_ in zip(names, mk3(), aliases)], None)
            except Unmodelled as e:
                raise AnalysisError(f"R04.7 {key}: construct outside the evaluator's language: {e}")
            if v[0] != "ok" or r[0] != "ok" or isinstance(r[1], str):
                raise AnalysisError(f"R04.7 {key}: join with aliases not evaluable in the model ({v[0]}, {r[0]})")
            want = sorted(v[1].components)  # type: ignore[union-attr]
            cols = []
            for c in r[1].cols:
                m_ = _re.search(r'AS "([^"]+)"\s*$', c)
                cols.append(m_.group(1) if m_ else c.split(".")[-1].strip('"'))
            gotb = sorted(vb[1].components) if vb[0] == "ok" and vb[1] is not None else None
            rep.instance("R04.7", key, sample={"components": want, "select": sorted(cols), "structure": gotb})
            if sorted(cols) != want:
                rep.add(transp.fnd("R04.7", key + "/select", vj, vj.node.lineno,
                                   f"{op}(DS_1, DS_2, DS_3) with aliases {aliases}: semantic analysis names the components {want}, the generated SELECT delivers {sorted(cols)}"))
            if gotb != want:
                fbj = P.func(f"{sm.SV}._build_join_structure")
                rep.add(transp.fnd("R04.7", key + "/structure", fbj, fbj.node.lineno,
                                   f"{op}(DS_1, DS_2, DS_3) with aliases {aliases}: semantic analysis names the components {want}, the transpiler's structure of the join (used by the clause body "
                                   f"that follows) has {gotb}: a component qualified by the wrong alias is not found by rename / keep / drop and silently disappears"))


def strip_prefixes_model(P: Program, rep: Report, rule: str) -> None:
    """InterpreterAnalyzer._strip_join_prefixes evaluated on abstract join results.  Shared with C02: the clauses applied after the join body
    address the components by the names this step leaves - in the dict key AND in the component's own name."""
    import copy as _copy
    rep.rule(rule, "the interpreter's prefix stripping after a join is a one-to-one renaming: two components that strip to the same name are an ambiguity error (1-1-13-9), never merged")
    from sa import structmodel as _sm9
    from sa.e6 import Interp as _I9, Raised as _R9, Unmodelled as _U9
    fsp = P.func("vtlengine.Interpreter.InterpreterAnalyzer._strip_join_prefixes")
    M9 = _sm9.Model(P)

    def _case(names_roles: List[Tuple[str, str]]) -> Tuple[str, Any]:
        ds = M9.ds("J", [], [])
        for nm, role in names_roles:
            ds.components[nm] = _sm9.MComp(nm, M9.roles[role], M9.number, role != "IDENTIFIER")
        try:
            _I9(P, externals={"isinstance": _sm9._isinstance, "copy": _copy.copy, "copy.copy": _copy.copy, "deepcopy": _copy.deepcopy, "copy.deepcopy": _copy.deepcopy}).call(fsp, {"self": object(), "result": ds})
        except _R9 as r:
            return "raise", getattr(r.exc, "code", None)
        except _U9 as e:
            raise AnalysisError(f"{rule}: _strip_join_prefixes outside the evaluator's language: {e}")
        return "ok", ds
    for label, comps, want in (
            ("two-identifiers-same-name", [("d1#Id_1", "IDENTIFIER"), ("d4#Id_1", "IDENTIFIER"), ("d1#Me_1", "MEASURE"), ("d4#Me_2", "MEASURE")], "1-1-13-9"),
            ("two-measures-same-name", [("Id_1", "IDENTIFIER"), ("d1#Me_1", "MEASURE"), ("d2#Me_1", "MEASURE")], "1-1-13-9"),
            ("measure-and-attribute-same-name", [("Id_1", "IDENTIFIER"), ("d1#X", "MEASURE"), ("d2#X", "ATTRIBUTE")], "1-1-13-9"),
            ("distinct-names", [("Id_1", "IDENTIFIER"), ("d1#Me_1", "MEASURE"), ("d2#Me_2", "MEASURE")], None)):
        got = _case(comps)
        rep.instance(rule, f"strip/{label}", nontrivial=True, sample={"components": [c_[0] for c_ in comps], "outcome": got[1] if got[0] == "raise" else sorted(got[1].components)})
        bad = None
        if want is not None and not (got[0] == "raise" and got[1] == want):
            bad = f"is accepted with components {sorted(got[1].components) if got[0] == 'ok' else got}; two components of the join result that differ only in their alias prefix are ambiguous (SemanticError {want})"
        if want is None and not (got[0] == "ok" and sorted(got[1].components) == sorted(n_.split('#')[-1] for n_, _r in comps) and all(k == c_.name for k, c_ in got[1].components.items())):
            bad = f"gives {({k: c_.name for k, c_ in got[1].components.items()} if got[0] == 'ok' else got)} (key: component name); every component must survive under its own unprefixed name"
        if bad:
            rep.add(Finding(rule, f"{rule}/strip/{label}", fsp.module.rel, fsp.node.lineno, fsp.qualname,
                            f"a join result with the components {[c_[0] for c_ in comps]} {bad}: for a cross_join (identifiers are not keys) the second component and its values silently disappear"))


def representation_row_filter(P: Program, rep: Report, rule: str) -> None:
    """apply_time_period_representation evaluated on a result with two Time_Period columns: the UPDATE's row filter selects every row in which
    ANY of them is not null.  Shared with C14 (the file written to the output folder is produced after this UPDATE: a skipped row keeps the
    internal form in the file) and C21."""
    from sa.e6 import ClassVal as _CV11, Interp as _I11, Raised as _R11, Unmodelled as _U11
    rep.rule(rule, "apply_time_period_representation evaluated on a result with two Time_Period columns: the UPDATE's row filter selects every row in which ANY of them is not "
                       "null (left/full joins leave the columns of the missing side NULL)")
    from sa import sqlconc as _sc12, sqlexpr as _se12
    from sa.e6 import ExternalObj as _EO12
    ft = P.func("vtlengine.duckdb_transpiler.io._time_handling.apply_time_period_representation")

    class _Rel12:
        description = [("Id_1", "BIGINT"), ("Tp_1", "VARCHAR"), ("Tp_2", "VARCHAR")]

    class _Conn12:
        def __init__(self) -> None:
            self.q: List[str] = []

        def execute(self, q: str, *a: Any) -> Any:
            self.q.append(q)
            return _Rel12()
    tp = _CV11("vtlengine.DataTypes.TimePeriod")
    dsm = _EO12({"components": {"Id_1": _EO12({"name": "Id_1", "data_type": _CV11("vtlengine.DataTypes.Integer")}), "Tp_1": _EO12({"name": "Tp_1", "data_type": tp}),
                                "Tp_2": _EO12({"name": "Tp_2", "data_type": tp})}})
    n12 = 0
    rep_vals = _I11(P).eval(ast.parse("list(_REPR_MACRO)", mode="eval").body, {}, ft)
    for rv in rep_vals:
        conn = _Conn12()
        try:
            _I11(P, max_steps=4000).call(ft, {"conn": conn, "table_name": "DS_r", "output_datasets": {"DS_r": dsm}, "output_scalars": {}, "representation": rv})
        except (_R11, _U11) as e:
            raise AnalysisError(f"{rule}: apply_time_period_representation outside the evaluator's language: {e}")
        ups = [q for q in conn.q if q.strip().upper().startswith("UPDATE")]
        if len(ups) != 1 or " WHERE " not in ups[0].upper():
            n12 += 1
            rep.instance(rule, f"representation/{rv}", nontrivial=True, sample={"updates": ups[:2]})
            continue  # no row filter: every row is converted
        where = ups[0][ups[0].upper().index(" WHERE ") + 7:]
        try:
            pred = _se12.parse(where)
        except _se12.ParseError as e:
            raise AnalysisError(f"{rule}: the UPDATE's row filter is outside the SQL evaluator's language: {e} [{where[:80]}]")
        n12 += 1
        rep.instance(rule, f"representation/{rv}", nontrivial=True, sample={"update": " ".join(ups[0].split())[:200]})
        for a_, b_ in (("2020-Q1", None), (None, "2022-S1"), ("2020-Q1", "2022-S1")):
            env = {"Tp_1": a_, '"Tp_1"': a_, "Tp_2": b_, '"Tp_2"': b_}
            if _sc12.ev(pred, env, {}) is not True:
                rep.add(Finding(rule, f"{rule}/row-filter/{rv}", ft.module.rel, ft.node.lineno, ft.qualname,
                                f"a result row with Tp_1 = {a_!r}, Tp_2 = {b_!r} (what a left / full join leaves for a key missing on one side) is not selected by `WHERE {' '.join(where.split())[:90]}`: "
                                f"its Time_Period value stays in the internal form (2020-Q1) instead of the requested representation"))
                break
    rep.floor(f"{rule} representations", n12, 2)
