"""C33 - results depend only on the set of input datapoints (DESIGN §3 C33).

R33.1 = R15.1: no SQL construct whose value depends on row order (same lint, same findings)
R33.2 loaders bind source columns to table columns by NAME:
      - CSV: read_csv(columns={…}) is positional in DuckDB, so the mapping must be emitted in the order of the file's own
        header (def-use chain from the header read to the `columns=` hole); the SELECT list and the CREATE TABLE both iterate
        the structure's components in the same order
      - DataFrame / Parquet: INSERT INTO t (<component names>) SELECT "<name>" …  (explicit column list, names quoted)
R33.4 no decision from the POSITION of a column in an input's header: `<x>.columns[<constant>]` (or a local copy of the header
      indexed / sliced by a constant) does not occur in the loaders; the SDMX-CSV marker tests are a reviewed table
R33.3 no positional sampling of data values in the loaders (iloc/head/first_valid_index/sample/next(iter(…))): a schema
      decision taken from "the first row" depends on row order
Not decided: DuckDB's set semantics for the rest.
"""
from __future__ import annotations

import ast
import re
from typing import Dict, List, Optional, Set, Tuple

from sa import orderlint, sqlx
from sa.checks.c15 import report_issues
from sa.core import AnalysisError, Finding, FuncInfo, Program, Report, program, src, walk_no_nested

IO = "vtlengine.duckdb_transpiler.io._io"
POSITIONAL_ATTRS = {"iloc", "head", "tail", "first_valid_index", "last_valid_index", "sample", "nth", "iat"}


def single_def(f: FuncInfo, name: str) -> Optional[ast.AST]:
    defs = [n.value for n in walk_no_nested(f.node) if isinstance(n, ast.Assign) and any(isinstance(t, ast.Name) and t.id == name for t in n.targets)]
    return defs[0] if len(defs) == 1 else None


HEADER_POSITION_OK: Dict[Tuple[str, str], str] = {
    ("vtlengine.files.parser._sanitize_pandas_columns", "data.columns[0]"):
        "SDMX-CSV marker test (DATAFLOW / STRUCTURE is by definition the FIRST column of an SDMX-CSV file); it only decides whether a column that is not a component is dropped early - "
        "columns that are not components are never loaded",
    ("vtlengine.files.sdmx_handler._sanitize_sdmx_columns", "data.columns[0]"): "same SDMX-CSV marker test as in files.parser",
}


def run(rep: Report, tier: str) -> None:
    P = program()
    rep.explanation = ("The order-dependence lint of C15 over every SQL skeleton/macro, plus def-use rules on the three loaders: how the "
                       "positional read_csv column map is ordered, explicit INSERT column lists, and absence of positional sampling of values.")
    rep.rule("R33.1", "no order-sensitive SQL construct without ORDER BY (shared with C15)")
    rep.rule("R33.2", "loaders bind columns by name (CSV map in header order; explicit INSERT column lists)")
    rep.rule("R33.3", "no positional sampling of input values in the loaders")
    orderlint.premise(P)
    issues, stats = orderlint.lint_program(P)
    rep.floor("SQL skeletons scanned", stats["skeletons"], 150)
    for sk in sqlx.iter_skeletons(P):
        if re.search(r"\bOVER\b|\blist\(|LIMIT|DISTINCT ON", sk.text, re.I):
            rep.instance("R33.1", f"sql/{sk.where}:{sk.line}", nontrivial=True)
    report_issues(rep, "R33.1", issues)

    # ---- R33.2 CSV -----------------------------------------------------------------------------------------
    f = P.func(f"{IO}.load_datapoints_duckdb")
    sk = [s for s in sqlx.iter_skeletons(P) if s.func is f and "read_csv" in s.text and "columns=" in s.text]
    if len(sk) != 1:
        raise AnalysisError("load_datapoints_duckdb: INSERT … FROM read_csv(columns=…) skeleton not found")
    m = re.search(r"columns=\{" + sqlx.HOLE_L + r"(\w+)" + sqlx.HOLE_R + r"\}", sk[0].text)
    if not m:
        raise AnalysisError("load_datapoints_duckdb: `columns={<hole>}` not found in the read_csv skeleton")
    type_str = m.group(1)
    # header variable: assigned from next(<csv reader>, …)
    header_vars = [t.id for n in walk_no_nested(f.node) if isinstance(n, ast.Assign) and isinstance(n.value, ast.Call)
                   and isinstance(n.value.func, ast.Name) and n.value.func.id == "next" for t in n.targets if isinstance(t, ast.Name)]
    if len(header_vars) != 1:
        raise AnalysisError(f"load_datapoints_duckdb: CSV header read `x = next(reader, …)` not found ({header_vars})")
    H = header_vars[0]
    d = single_def(f, type_str)
    # ", ".join(<genexp> for k, v in D.items())
    chain: List[str] = [type_str]
    order_source: Optional[str] = None
    cur = d
    for _ in range(6):
        if cur is None:
            break
        if isinstance(cur, ast.Call) and isinstance(cur.func, ast.Attribute) and cur.func.attr == "join" and cur.args:
            cur = cur.args[0]
            continue
        if isinstance(cur, (ast.GeneratorExp, ast.ListComp, ast.DictComp)):
            it = cur.generators[0].iter
            if isinstance(it, ast.Call) and isinstance(it.func, ast.Attribute) and it.func.attr in ("items", "keys", "values"):
                it = it.func.value
            if isinstance(it, ast.Name):
                if it.id == H:
                    order_source = H
                    break
                chain.append(it.id)
                cur = single_def(f, it.id)
                continue
            break
        if isinstance(cur, ast.Call) and isinstance(cur.func, ast.Name) and cur.func.id in ("dict", "list", "sorted") and cur.args:
            if cur.func.id == "sorted":
                order_source = "sorted(...)"
                break
            a0 = cur.args[0]
            if isinstance(a0, ast.Name):
                chain.append(a0.id)
                if a0.id == H:
                    order_source = H
                    break
                cur = single_def(f, a0.id)
                continue
            break
        if isinstance(cur, ast.Name):
            chain.append(cur.id)
            if cur.id == H:
                order_source = H
                break
            cur = single_def(f, cur.id)
            continue
        break
    # every dict on the derivation chain that is ordered by the header must not be re-ordered afterwards by in-place insertion
    mutated: List[str] = []
    for name in chain[1:]:
        for n in walk_no_nested(f.node):
            if isinstance(n, ast.Call) and isinstance(n.func, ast.Attribute) and isinstance(n.func.value, ast.Name) and n.func.value.id == name \
                    and n.func.attr in ("update", "setdefault", "pop", "popitem", "move_to_end", "clear"):
                mutated.append(f"{name}.{n.func.attr}(…)")
            if isinstance(n, (ast.Assign, ast.AugAssign)):
                for t in (n.targets if isinstance(n, ast.Assign) else [n.target]):
                    if isinstance(t, ast.Subscript) and isinstance(t.value, ast.Name) and t.value.id == name:
                        mutated.append(f"{name}[…] = …")
    if order_source == H and mutated:
        # only the LAST link of the chain (the one whose comprehension iterates the header) fixes the order; it is `chain[-1]`
        last_link = chain[-1]
        if any(mu.startswith(last_link + ".") or mu.startswith(last_link + "[") for mu in mutated):
            order_source = f"{H}, then re-ordered by {', '.join(sorted(set(mutated)))}"
    rep.instance("R33.2", "csv/columns-map-order", nontrivial=True, sample={"hole": type_str, "derivation": chain, "ordered_by": order_source, "header_var": H})
    if order_source != H:
        last = chain[-1]
        rep.add(Finding("R33.2", "R33.2/csv/columns-map-order", f.module.rel, sk[0].line, f.qualname,
                        f"read_csv(columns={{…}}) binds names to file positions, but the map `{type_str}` is ordered by `{last}` "
                        f"({' ← '.join(chain)}), not by the file's own header `{H}`: a CSV whose columns are in another order (or has an extra "
                        f"column in the middle) gets names and types attached to the wrong columns"))
    # the map must cover ALL header columns: every header column gets an entry
    rep.instance("R33.2", "csv/select-by-name", nontrivial=True)
    bs = P.func(f"{IO.replace('_io', '_validation')}.build_select_columns")
    if not any(isinstance(n, ast.For) and "components" in src(n.iter) for n in walk_no_nested(bs.node)):
        rep.add(Finding("R33.2", "R33.2/csv/select-by-name", bs.module.rel, bs.node.lineno, bs.qualname,
                        "build_select_columns no longer iterates the structure's components (SELECT list order must equal the table's)"))
    # CREATE TABLE and SELECT list iterate components in the same (dict) order: no sorted()/reversed() in either
    for qn in (f"{IO.replace('_io', '_validation')}.build_create_table_sql", bs.qualname, f"{IO}._build_dataframe_select_columns"):
        g = P.func(qn)
        rep.instance("R33.2", f"component-order/{g.name}", nontrivial=True)
        bad = [n for n in walk_no_nested(g.node) if isinstance(n, ast.Call) and isinstance(n.func, ast.Name) and n.func.id in ("sorted", "reversed", "set")
               and any(isinstance(x, ast.Name) and x.id == "components" for x in ast.walk(n))]
        if bad:
            rep.add(Finding("R33.2", f"R33.2/component-order/{g.name}", g.module.rel, bad[0].lineno, g.qualname,
                            f"`{src(bad[0])[:60]}` re-orders the components: table columns and SELECT list are matched positionally"))

    # ---- R33.2 DataFrame / Parquet -----------------------------------------------------------------------------
    for qn in (f"{IO}.register_dataframes", f"{IO}._load_parquet"):
        g = P.func(qn)
        ins = [s for s in sqlx.iter_skeletons(P) if s.func is g and s.text.lstrip().upper().startswith("INSERT INTO")]
        if not ins:
            raise AnalysisError(f"{qn}: INSERT INTO skeleton not found")
        for one in ins:
            t = one.text
            mm = re.match(r'\s*INSERT INTO "' + sqlx.HOLE_L + r'[^' + sqlx.HOLE_R + r']+' + sqlx.HOLE_R + r'" \(' + sqlx.HOLE_L + r'(\w+)' + sqlx.HOLE_R + r'\)\s*SELECT', t)
            rep.instance("R33.2", f"insert-column-list/{g.name}" + (f"@{ins.index(one)}" if len(ins) > 1 else ""), nontrivial=True, sample={"sql": t[:120]})
            if not mm:
                rep.add(Finding("R33.2", f"R33.2/insert-column-list/{g.name}", g.module.rel, one.line, g.qualname,
                                f"INSERT without an explicit column list: `{t[:80]}` binds the SELECT list to table columns by position: a DataFrame / file whose columns are in "
                                f"another order than the data structure gets its values stored under the wrong components"))
                continue
            cl = single_def(g, mm.group(1))
            ok = False
            gens = [x for x in ast.walk(cl)] if cl is not None else []
            for ge in [x for x in gens if isinstance(x, (ast.GeneratorExp, ast.ListComp))]:
                g0 = ge.generators[0]
                # the structure the table was created from: what this loader passes to build_create_table_sql
                comp_names = {"components"} & set(g.params)
                for cc in walk_no_nested(g.node):
                    if isinstance(cc, ast.Call) and (src(cc.func).split(".")[-1] == "build_create_table_sql"):
                        a_ = cc.args[1] if len(cc.args) > 1 else next((k.value for k in cc.keywords if k.arg == "components"), None)
                        if isinstance(a_, ast.Name):
                            comp_names.add(a_.id)
                it_ok = (isinstance(g0.iter, ast.Name) and g0.iter.id in comp_names) or \
                    (isinstance(g0.iter, ast.Call) and isinstance(g0.iter.func, ast.Attribute) and g0.iter.func.attr == "keys" and src(g0.iter.func.value) in comp_names)
                el = ge.elt
                quoted = isinstance(el, ast.JoinedStr) and len(el.values) == 3 and all(isinstance(el.values[i_], ast.Constant) and el.values[i_].value == '"' for i_ in (0, 2)) \
                    and isinstance(el.values[1], ast.FormattedValue) and isinstance(g0.target, ast.Name) and src(el.values[1].value) == g0.target.id
                if it_ok and quoted and not g0.ifs and len(ge.generators) == 1:
                    ok = True
            if not ok:
                rep.add(Finding("R33.2", f"R33.2/insert-column-names/{g.name}", g.module.rel, one.line, g.qualname,
                                f"INSERT column list `{mm.group(1)}` is not the quoted component names of the structure: {src(cl) if cl is not None else '?'}"))
    # _build_dataframe_select_columns selects every source column by its quoted name
    bd = P.func(f"{IO}._build_dataframe_select_columns")
    sks = [s for s in sqlx.iter_skeletons(P) if s.func is bd and "CAST(" in s.text]
    rep.instance("R33.2", "dataframe/select-by-name", nontrivial=True, sample={"exprs": [s.text[:70] for s in sks][:4]})
    # the loop variable that names the component (key of components.items()), and locals defined as an expression over that quoted name
    kvars = {lp.target.elts[0].id for lp in walk_no_nested(bd.node) if isinstance(lp, ast.For) and isinstance(lp.target, ast.Tuple) and lp.target.elts
             and isinstance(lp.target.elts[0], ast.Name) and "components" in src(lp.iter)}
    if not kvars:
        raise AnalysisError("_build_dataframe_select_columns: `for <name>, <comp> in components.items()` not found")
    by_name = {f'"{sqlx.HOLE_L}{k}{sqlx.HOLE_R}"' for k in kvars}
    derived = {t.id for n_ in walk_no_nested(bd.node) if isinstance(n_, (ast.Assign, ast.AnnAssign)) and n_.value is not None
               and any(q in (sqlx.skeleton_of(n_.value) or ("", []))[0] for q in by_name)
               for t in (n_.targets if isinstance(n_, ast.Assign) else [n_.target]) if isinstance(t, ast.Name)}
    for s in sks:
        if "CAST(NULL" in s.text or s.text.startswith("'Date"):
            continue
        if not any(q in s.text for q in by_name) and not any(f"{sqlx.HOLE_L}{d}{sqlx.HOLE_R}" in s.text for d in derived):
            rep.add(Finding("R33.2", "R33.2/dataframe/select-by-name", bd.module.rel, s.line, bd.qualname,
                            f"source column not referenced by its quoted name in `{s.text[:80]}`"))

    # ---- R33.5 viral propagation over a group: only the (listed) enumerated fold gathers values in input order ----
    rep.rule("R33.5", "viral propagation: aggregate-function rules over a group use the order-independent aggregate, not a fold over list(col)")
    from sa.checks.c28 import group_forms_by_rule_kind
    group_forms_by_rule_kind(P, rep, "R33.5")
    rep.rule("R33.6", "viral propagation: a two-value clause matches the two values in either order (the pair form generated and evaluated for every ordered pair)")
    from sa.checks.c28 import enumerated_pairs
    enumerated_pairs(P, rep, "R33.6")

    # ---- R33.3 -----------------------------------------------------------------------------------------------
    nfun = 0
    for g in P.iter_functions():
        if g.module.name not in (IO, IO.replace("_io", "_validation")):
            continue
        nfun += 1
        rep.instance("R33.3", g.qualname, nontrivial=False)
        for n in walk_no_nested(g.node):
            bad = None
            if isinstance(n, ast.Attribute) and n.attr in POSITIONAL_ATTRS:
                bad = src(n)
            elif isinstance(n, ast.Call) and isinstance(n.func, ast.Name) and n.func.id == "next" and n.args and isinstance(n.args[0], ast.Call) \
                    and isinstance(n.args[0].func, ast.Name) and n.args[0].func.id == "iter":
                bad = src(n)
            elif isinstance(n, ast.Subscript) and isinstance(n.slice, ast.Constant) and isinstance(n.slice.value, int) \
                    and isinstance(n.value, ast.Attribute) and n.value.attr in ("values", "array"):
                bad = src(n)
            if bad:
                rep.add(Finding("R33.3", f"R33.3/{g.qualname}/{bad[:40]}", g.module.rel, n.lineno, g.qualname,
                                f"`{bad[:70]}` samples input values by position: a decision taken from it (e.g. DATE vs TIMESTAMP) changes when "
                                f"the rows of the same table are permuted"))
    rep.floor("loader functions scanned", nfun, 20)

    # ---- R33.4 no decision from the POSITION of a column in the input's header -----------------------------------------
    rep.rule("R33.4", "no constant-position access to an input's column header in the loaders (reviewed SDMX-CSV marker tests excepted)")
    nhdr = 0
    for g in P.iter_functions():
        if not g.module.name.startswith(("vtlengine.duckdb_transpiler.io", "vtlengine.files")):
            continue
        hdr_vars: Set[str] = set()
        for n in walk_no_nested(g.node):
            if isinstance(n, ast.Assign) and any(isinstance(x, ast.Attribute) and x.attr == "columns" for x in ast.walk(n.value)):
                hdr_vars |= {t.id for t in n.targets if isinstance(t, ast.Name)}
        for n in walk_no_nested(g.node):
            if isinstance(n, ast.Attribute) and n.attr == "columns":
                nhdr += 1
            if not isinstance(n, ast.Subscript):
                continue
            sl = n.slice
            const = (isinstance(sl, ast.Constant) and isinstance(sl.value, int)) or (isinstance(sl, ast.UnaryOp) and isinstance(sl.operand, ast.Constant)) \
                or (isinstance(sl, ast.Slice) and any(isinstance(x, ast.Constant) and isinstance(x.value, int) for x in (sl.lower, sl.upper) if x is not None))
            is_hdr = (isinstance(n.value, ast.Attribute) and n.value.attr == "columns") or (isinstance(n.value, ast.Name) and n.value.id in hdr_vars)
            if not (const and is_hdr):
                continue
            key = f"{g.qualname}/{src(n)}"
            why = HEADER_POSITION_OK.get((g.qualname, src(n)))
            rep.instance("R33.4", key, nontrivial=why is None, sample={"expr": src(n), "reviewed": why})
            if why is not None:
                rep.exemption("R33.4", key, why)
                continue
            rep.add(Finding("R33.4", f"R33.4/{key}", g.module.rel, n.lineno, g.qualname,
                            f"`{src(n)}` takes a column by its POSITION in the input's header: what {g.name} does with it (rename, strip, type detection) applies to a different "
                            f"column when the same table is given with its columns in another order"))
    rep.floor("R33.4 header accesses scanned", nhdr, 8)
    rep.analysed = dict(stats, loader_functions=nfun)
    # ---- R33.7: additive aggregates do not depend on the order the rows are met in (shared with C15 R15.4) ----
    rep.rule("R33.7", "SUM / AVG templates accumulate in the exact type of the operand (no cast to DOUBLE/FLOAT inside the aggregate): float addition is order-dependent")
    from sa.checks.c15 import exact_accumulation as _exact
    _exact(P, rep, "R33.7")
    # ---- R33.8: running windows over a time series are ordered totally: partition + order keys = the identifiers of the OPERAND ----
    rep.rule("R33.8", "flow_to_stock / stock_to_flow evaluated on an operand with two non-time identifiers inside a statement whose result keeps only one of them: every OVER clause "
                      "partitions by all non-time identifiers of the operand and orders by the time identifier - with fewer keys several series share a partition, the order has ties "
                      "and the running sum follows the physical row order")
    import re as _re8
    from sa import structmodel as _sm8
    from sa.e6 import ClassVal as _CV8, Interp as _I8, Raised as _R8, Unmodelled as _U8
    _M8 = _sm8.Model(P)
    f8 = P.func(_sm8.TRQ + "._visit_flow_stock")
    ftok = _I8(P).eval(ast.parse("tokens.FLOW_TO_STOCK", mode="eval").body, {}, f8)
    stok = _I8(P).eval(ast.parse("tokens.STOCK_TO_FLOW", mode="eval").body, {}, f8)
    n8 = 0
    for op8 in (ftok, stok):
        for ttype in ("Date", "TimePeriod"):
            ds8 = _M8.ds("DS_1", ["Id_1", "Id_2", "T"], ["Me_1"])
            ds8.components["T"].data_type = _CV8("vtlengine.DataTypes." + ttype)
            out8 = _M8.ds("DS_r", ["Id_1", "T"], ["Me_1"])
            out8.components["T"].data_type = _CV8("vtlengine.DataTypes." + ttype)
            me8 = _sm8.MTranspiler()
            ext8 = {"self._get_dataset_structure": lambda n: ds8, "self._get_dataset_sql": lambda n: '"DS_1"', "self._get_output_dataset": lambda: out8,
                    "self._resolve_time_identifier": lambda d, o: ("T", d.components["T"].data_type), "SQLBuilder": _sm8.MBuilder, "quote_name": lambda n: f'"{n}"',
                    "isinstance": _sm8._isinstance}
            try:
                b8 = _I8(P, externals=ext8, max_steps=6000).call(f8, {"self": me8, "node": _sm8.MNode("UnaryOp", op=op8, operand=_sm8.MNode("VarID", value="DS_1")), "op": op8})
            except (_R8, _U8) as e:
                raise AnalysisError(f"R33.8: _visit_flow_stock outside the evaluator's language: {e}")
            text8 = " ".join(str(c_) for c_ in getattr(b8, "cols", [str(b8)]))
            overs = _re8.findall(r"OVER\s*\(((?:[^()]|\([^()]*\))*)\)", text8)
            n8 += 1
            rep.instance("R33.8", f"flow-stock/{op8}/{ttype}", nontrivial=True, sample={"operator": op8, "time_type": ttype, "over": overs[:1]})
            if not overs:
                raise AnalysisError(f"R33.8: no OVER clause found in the SQL generated for {op8}")
            for ov in overs:
                m8 = _re8.search(r"PARTITION BY(.*?)(ORDER BY(.*?))?(ROWS|RANGE|$)", ov, _re8.S)
                part = set(_re8.findall(r'"([^"]+)"', m8.group(1))) if m8 else set()
                order = set(_re8.findall(r'"([^"]+)"', (m8.group(3) or "") if m8 else (_re8.search(r"ORDER BY(.*)", ov, _re8.S) or [None, ""])[1]))
                missing = {"Id_1", "Id_2", "T"} - (part | order)
                if missing or "T" not in order:
                    rep.add(Finding("R33.8", f"R33.8/flow-stock/{op8}/{ttype}", f8.module.rel, f8.node.lineno, f8.qualname,
                                    f"{op8} over DS_1(Id_1, Id_2, T) as an operand of a statement whose result has the identifiers (Id_1, T): the window is `OVER ({' '.join(ov.split())[:120]})` - "
                                    f"{sorted(missing) or 'the time identifier'} is neither a partition nor an order key, so datapoints of different series tie in the ordering and the running "
                                    f"value depends on the physical order of the rows"))
                    break
    rep.floor("R33.8 flow/stock shapes", n8, 4)
    rep.assumptions = ["DuckDB's read_csv(columns=…, header=true) attaches the given names/types by position", "Python dicts preserve insertion order"]
