"""C29 - names that differ only in letter case stay distinct.  Structural clauses decided:

R29.1 the Python side never folds the case of a component / dataset / alias name: every .lower() / .upper() / .casefold() /
      .title() / .capitalize() call in the package is inventoried and its receiver classified (keyword, literal value, SQL text,
      file suffix, environment value, type name); a call on a name-carrying value is a violation unless it only attributes an
      error message (two reviewed sites)
R29.2 the function that turns a VTL name into an SQL identifier is injective under DuckDB's identifier comparison, which
      ignores case even for quoted identifiers (external fact): quote_name writes the name between double quotes unchanged, so
      Me_1 and me_1 (or DS_1 and ds_1) denote the same column / table in DuckDB - known finding, demonstrated
Not decided: anything inside DuckDB.
"""
from __future__ import annotations

import ast
import re
from typing import Dict, List, Tuple

from sa.core import AnalysisError, Finding, Program, Report, norm_locals, program, src, walk_no_nested

FOLD = {"lower", "upper", "casefold", "title", "capitalize", "swapcase"}
NAME_LIKE = re.compile(r"(^|[._\[])(comp(onent)?_?name|ds_name|dataset_name|col(umn)?_?name|alias|operand_name|result_name|table_name|var_name|name)$|\.name$|node\.value$|\.value$")
# name-carrying receivers whose folded form is used only to attribute an error message
REVIEWED: Dict[Tuple[str, str], str] = {
    ("vtlengine.duckdb_transpiler.io._validation.map_duckdb_error", "comp_name.lower()"): "searches DuckDB's (lower-cased) error text for the component a constraint failure mentions; decides only which name the VTL error quotes",
}
ERROR_ATTRIBUTION_FUNCS = ("map_duckdb_error", "_map_query_error", "_map_load_error")


def run(rep: Report, tier: str) -> None:
    P = program()
    rep.explanation = ("Inventory of every case-folding string method call in src/vtlengine with classification of the receiver; shape of the VTL-name -> SQL-identifier "
                       "function against DuckDB's case-insensitive identifier comparison (external fact encoded in the rule).")
    rep.rule("R29.1", "no case folding of component / dataset / alias names on the Python side")
    rep.rule("R29.2", "VTL name -> SQL identifier mapping is injective under case-insensitive comparison")
    n = 0
    def _walk_with_lambdas(fn_node: ast.AST):
        # like walk_no_nested, but a lambda (a sort key, a filter predicate) is part of the function that writes it
        stack = list(ast.iter_child_nodes(fn_node))
        while stack:
            x = stack.pop()
            yield x
            if isinstance(x, (ast.FunctionDef, ast.AsyncFunctionDef, ast.ClassDef)):
                continue
            stack.extend(ast.iter_child_nodes(x))
    for f in P.iter_functions():
        for c in _walk_with_lambdas(f.node):
            if not (isinstance(c, ast.Call) and isinstance(c.func, ast.Attribute) and c.func.attr in FOLD and not c.args):
                continue
            n += 1
            recv = src(c.func.value)
            name_like = bool(NAME_LIKE.search(recv)) and not recv.endswith((".suffix", "type_str", "_type", "text", "mode", "token", "op", "role.value", "value.value"))
            # literal values being parsed (DataTypes check/cast of boolean text) and enum values are not names
            if f.module.name.startswith("vtlengine.DataTypes") or recv in ("value", "v", "s", "mode", "text", "msg", "error_msg") or "os.getenv" in recv or "environ" in recv:
                name_like = False
            if recv.endswith(".value") and ("Role." in recv or "role" in recv or "output" in recv or "mode" in recv):
                name_like = False
            key = f"{f.qualname}/{src(c)[:40]}"
            rep.instance("R29.1", key, nontrivial=name_like, sample={"receiver": recv, "name_like": name_like})
            if not name_like:
                continue
            if f.name in ERROR_ATTRIBUTION_FUNCS or any(k[1] == src(c) and f.qualname.endswith(k[0].rsplit(".", 1)[1]) for k in REVIEWED):
                rep.exemption("R29.1", key, "folded form used only to attribute an error message (searched in DuckDB's lower-cased error text)")
                continue
            rep.add(Finding("R29.1", f"R29.1/{f.qualname}/{recv}", f.module.rel, c.lineno, f.qualname,
                            f"`{src(c)}` folds the case of a name: Me_1 and me_1 (legal distinct components) become the same key, so one of them overwrites or shadows the other"))
    rep.floor("R29.1 case-folding call sites", n, 40)
    qn = P.func("vtlengine.duckdb_transpiler.Transpiler.sql_builder.quote_name")
    rets = [r for r in walk_no_nested(qn.node) if isinstance(r, ast.Return) and r.value is not None]
    rep.instance("R29.2", "quote_name", nontrivial=True, sample=[src(r.value) for r in rets])
    param = qn.params[0]
    escapes_case = any(isinstance(c, ast.Call) and isinstance(c.func, ast.Attribute) and c.func.attr in ("encode", "translate", "replace", "join") and param in src(c)
                       and any(ch in src(c) for ch in ("isupper", "upper", "lower", "ord(")) for c in ast.walk(qn.node))
    if not escapes_case:
        rep.add(Finding("R29.2", "R29.2/quote_name", qn.module.rel, qn.node.lineno, qn.qualname,
                        f"quote_name writes the VTL name between double quotes unchanged ({[src(r.value) for r in rets]}); DuckDB compares identifiers case-insensitively even when "
                        f"quoted, so two components (or datasets) whose names differ only in case are the same column (table) to DuckDB"))
    # ---- R29.3 clause operators on case-variant names: validator == structure builder == SELECT list, compared case-sensitively ----
    rep.rule("R29.3", "clause operators over a dataset holding M and m: the components semantic analysis declares, the transpiler's structure (dict key == component name) "
                      "and the generated SELECT list agree exactly, letter case included")
    from sa import structmodel as sm
    from sa.e6 import Unmodelled
    M = sm.Model(P)

    def D() -> sm.MDS:
        return M.ds("DS_1", ["A"], ["M", "m", "N"], ["V"], ["T"])
    n3 = 0
    for op, names, ren in (("keep", ["m"], None), ("keep", ["M"], None), ("drop", ["M"], None), ("drop", ["m", "N"], None), ("rename", [], [("N", "n")]),
                           ("rename", [], [("M", "X")]), ("rename", [], [("V", "v")]), ("calc", ["m"], None), ("calc", ["n"], None)):
        label = f"{op}/{'+'.join(names) if names else '+'.join(f'{a}>{b}' for a, b in ren or [])}"
        try:
            a = sm.clause_interpreter(M, op, D(), names, ren)
            b = sm.clause_visitor(M, op, D(), names, ren, role_token="measure" if op == "calc" else None)
            d = D()
            c = sm.clause_sql(M, op, d, names, ren, role_token="measure" if op == "calc" else None)
        except Unmodelled as e:
            raise AnalysisError(f"R29.3 {label}: construct outside the evaluator's language: {e}")
        if a[0] != "ok":
            raise AnalysisError(f"R29.3 {label}: rejected by the clause validator in the model ({a}); the case-variant grid has lost its anchor")
        n3 += 1
        want = sorted(a[1].components)
        fb = P.func(f"{sm.SV}.{sm.CLAUSE_BUILDERS[op]}")
        fs = P.func(f"{sm.TRQ}.{sm.SQL_HANDLERS[op]}")
        rep.instance("R29.3", label, nontrivial=True, sample={"validator": want})
        if b[0] != "ok" or sorted(b[1].components) != want:
            rep.add(Finding("R29.3", f"R29.3/builder/{label}", fb.module.rel, fb.node.lineno, fb.qualname,
                            f"{op} {names or ren} on DS_1(id A; measures M, m, N; viral V): semantic analysis declares {want}, the transpiler's structure has the keys "
                            f"{sorted(b[1].components) if b[0] == 'ok' else b}"))
        elif any(k != c_.name for k, c_ in b[1].components.items()):
            bad = {k: c_.name for k, c_ in b[1].components.items() if k != c_.name}
            rep.add(Finding("R29.3", f"R29.3/builder-names/{label}", fb.module.rel, fb.node.lineno, fb.qualname,
                            f"{op} {names or ren}: the transpiler's structure stores under the key(s) {sorted(bad)} components that still call themselves {sorted(bad.values())}: code that reads "
                            f"comp.name writes the old name into the SQL; for a rename to a case variant DuckDB resolves it silently (identifiers are case-insensitive) and the component is lost"))
        cols = sorted(sm.sql_columns(c[1], list(d.components))) if c[0] == "ok" and not isinstance(c[1], str) else None
        if cols != want:
            rep.add(Finding("R29.3", f"R29.3/sql/{label}", fs.module.rel, fs.node.lineno, fs.qualname,
                            f"{op} {names or ren} on DS_1(id A; measures M, m, N; viral V): semantic analysis declares {want}, the SELECT list delivers {cols}"))
    # a name that differs from an existing component only in letter case does not exist: the clause validators reject it
    for op, names, ren in (("drop", ["n"], None), ("keep", ["n"], None), ("rename", [], [("n", "X")])):
        label = f"{op}/{'+'.join(names) if names else '+'.join(f'{a}>{b}' for a, b in ren or [])}/must-reject"
        try:
            a = sm.clause_interpreter(M, op, D(), names, ren)
        except Unmodelled as e:
            raise AnalysisError(f"R29.3 {label}: construct outside the evaluator's language: {e}")
        n3 += 1
        rep.instance("R29.3", label, nontrivial=True, sample={"validator": a[1] if a[0] != "ok" else sorted(a[1].components)})
        if a[0] == "ok":
            fv = P.func(f"{sm.CLAUSE_VALIDATORS[op]}.validate")
            rep.add(Finding("R29.3", f"R29.3/validator/{label}", fv.module.rel, fv.node.lineno, fv.qualname,
                            f"{op} {names or ren} on DS_1(id A; measures M, m, N; viral V): `n` is not a component (only N is) but semantic analysis accepts the clause and declares "
                            f"{sorted(a[1].components)}: the SQL names the column as written and DuckDB resolves it case-insensitively, so the clause silently acts on N"))
    rep.floor("R29.3 cases", n3, 8)
    # ---- R29.4 a dataset scheduled for deletion is dropped: its name (any letter case) is free again for a later table ----
    rep.rule("R29.4", "cleanup_scheduled_datasets: every dataset in the deletion schedule is dropped on every path (DuckDB's catalog is case-insensitive: a table that lingers "
                      "blocks a later dataset whose name differs only in case)")
    from sa.cfg import CFG, describe_path
    cl = P.func("vtlengine.duckdb_transpiler.io._execution.cleanup_scheduled_datasets")
    g = CFG(cl.node)
    loops = [x for x in walk_no_nested(cl.node) if isinstance(x, ast.For) and "deletion" in src(x.iter)]
    if not loops:
        raise AnalysisError("cleanup_scheduled_datasets: the loop over the deletion schedule was not found")
    drops = [x for x in g.nodes if x.stmt is not None and x.kind == "stmt" and any(isinstance(y, ast.Constant) and isinstance(y.value, str) and "DROP TABLE" in y.value.upper() for y in ast.walk(x.stmt))]
    if not drops:
        raise AnalysisError("cleanup_scheduled_datasets: no DROP TABLE statement found")
    for lp in loops:
        head = [x for x in g.nodes if x.stmt is lp and x.kind == "loop"]
        first = [x for x in g.nodes if x.stmt is lp.body[0]]
        rep.instance("R29.4", f"drop-on-every-path/{lp.lineno}", nontrivial=True, sample={"drop sites": [d_.lineno for d_ in drops]})
        for st_ in first:
            pth = [st_] if st_ in drops else g.path_avoiding(st_, lambda x: x in head or x is g.exit, lambda x: x in drops, follow_exc=False)
            if st_ not in drops and pth is not None:
                rep.add(Finding("R29.4", "R29.4/drop-on-every-path", cl.module.rel, lp.lineno, cl.qualname,
                                "a dataset of the deletion schedule can be left in the database (a path through the loop body reaches the next iteration without DROP TABLE): "
                                "the table lingers, and a later statement that creates a dataset whose name differs only in letter case fails with `Table ... already exists`",
                                describe_path(pth)))
    # ---- R29.5 a temporary catalog object named after a dataset lives only while that dataset is loaded ----
    rep.rule("R29.5", "every conn.register(<name>, ...) is undone by conn.unregister(<same name>) on every exit of the same function (two inputs DS_1 / ds_1 share one case-insensitive view name)")
    n5 = 0
    for f5 in P.iter_functions():
        if not f5.module.name.startswith("vtlengine.duckdb_transpiler"):
            continue
        regs = [c for c in walk_no_nested(f5.node) if isinstance(c, ast.Call) and isinstance(c.func, ast.Attribute) and c.func.attr == "register" and len(c.args) >= 2
                and "conn" in src(c.func.value).lower()]
        if not regs:
            continue
        g5 = CFG(f5.node)
        for c in regs:
            n5 += 1
            nm = src(c.args[0])
            rn = [x for x in g5.nodes if x.stmt is not None and x.kind == "stmt" and any(y is c for y in ast.walk(x.stmt))]
            un = [x for x in g5.nodes if x.stmt is not None and any(isinstance(y, ast.Call) and isinstance(y.func, ast.Attribute) and y.func.attr == "unregister" and y.args and src(y.args[0]) == nm
                                                                     for e in g5.own_exprs(x) for y in ast.walk(e))]
            rep.instance("R29.5", f"register/{f5.qualname}/{norm_locals(nm, f5.node)}", nontrivial=True, sample={"registered": nm, "unregister sites": sorted({u.lineno for u in un})})
            bad = None
            for r_ in rn:
                for s_ in g5.norm_succ.get(r_, set()):
                    if s_ in un:
                        continue
                    for ex in (g5.exit, g5.raise_exit):
                        p5 = [s_] if s_ is ex else g5.path_avoiding(s_, lambda x, ex=ex: x is ex, lambda x: x in un)
                        if p5 is not None:
                            bad = describe_path([r_] + p5)
            if bad:
                rep.add(Finding("R29.5", f"R29.5/register/{f5.qualname}", f5.module.rel, c.lineno, f5.qualname,
                                f"`{src(c)[:70]}` is not followed by conn.unregister({nm}) on every exit of {f5.name}: the view outlives the load of its dataset, and since DuckDB's catalog is "
                                f"case-insensitive the view of DS_1 and the view of ds_1 are one object - whichever DataFrame was registered last feeds both tables", bad))
    rep.floor("R29.5 conn.register sites", n5, 1)
    # ---- R29.6: a name that differs from a component only in case is an unknown component for the semantic validators ----
    rep.rule("R29.6", "validators evaluated with a case variant of an existing component (`id_2` for `Id_2`, `me_1` for `Me_1`): group by / group except, keep, drop and rename reject it "
                      "as an unknown component - DuckDB would silently bind the quoted name to the other-case column")
    from sa import structmodel as _sm6
    from sa.e6 import Unmodelled as _U6
    _M6 = _sm6.Model(P)
    n6 = 0
    for lab, fn in (("group by id_2", lambda d: _sm6.agg_interpreter(_M6, "Sum", d, "group by", ["id_2"])),
                    ("group except id_2", lambda d: _sm6.agg_interpreter(_M6, "Sum", d, "group except", ["id_2"])),
                    ("group by Id_2 (control)", lambda d: _sm6.agg_interpreter(_M6, "Sum", d, "group by", ["Id_2"])),
                    ("keep me_1", lambda d: _sm6.clause_interpreter(_M6, "keep", d, ["me_1"])),
                    ("drop me_1", lambda d: _sm6.clause_interpreter(_M6, "drop", d, ["me_1"])),
                    ("rename me_1 to X", lambda d: _sm6.clause_interpreter(_M6, "rename", d, [], renames=[("me_1", "X")])),
                    ("keep Me_1 (control)", lambda d: _sm6.clause_interpreter(_M6, "keep", d, ["Me_1"]))):
        d6 = _M6.ds("DS_3", ["Id_1", "Id_2"], ["Me_1", "Me_2"])
        try:
            kind, val = fn(d6)
        except _U6 as e:
            raise AnalysisError(f"R29.6: validator outside the evaluator's language for `{lab}`: {e}")
        n6 += 1
        rep.instance("R29.6", f"case-variant/{lab}", nontrivial=True, sample={"clause": lab, "outcome": [kind, val if kind == "raise" else sorted(getattr(val, "components", {}))]})
        control = "(control)" in lab
        if (kind == "ok") != control:
            rep.add(Finding("R29.6", f"R29.6/case-variant/{lab}", "src/vtlengine/Operators/Aggregation.py" if "group" in lab else "src/vtlengine/Operators/Clause.py", 1, lab,
                            f"DS_3(Id_1, Id_2, Me_1, Me_2)[{lab}]: semantic analysis {'rejects the exact name' if control else 'accepts a name that is no component of the dataset'} "
                            f"({kind}: {val if kind == 'raise' else sorted(getattr(val, 'components', {}))}); the generated SQL quotes the name as written and DuckDB binds it to the column of the other "
                            f"case, so the script runs on a component it did not name"))
    rep.floor("R29.6 validator cases", n6, 7)
    rep.assumptions = ["DuckDB identifiers are case-insensitive even when quoted (documented DuckDB behaviour; confirmed by triage/c29_case_demo.py)"]
