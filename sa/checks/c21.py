"""C21 - Time_Period values round-trip through every input and output representation (DESIGN §3 C21).

R21.1 the set of output formats and their macro names agree between TimePeriodRepresentation, _REPR_MACRO, the dict in
      execute_queries, the dict in _cast_expr, TimePeriodHandler.external_representation and the docs; every referenced
      macro exists; apply_time_period_representation applies the format's macro for EVERY format (no format-specific
      shortcut)
R21.2 the Python renderers (TimePeriodHandler.*_representation, lowered by the E6 evaluator) and the SQL macros
      (vtl_period_to_*, evaluated by the concrete SQL evaluator on the canonical string) produce the same text for every
      indicator × period number × {leap year, common year}; where Python raises 2-1-19-21 the SQL raises an error text
      that the query-error mapper turns into the same code
R21.3 every rendered value is an accepted input again: vtl_period_normalize(rendered) is canonical, passes the load
      regex, and denotes the same period (SQL side); documented input spellings normalise to canonical shapes
Not decided: numeric equality of parsed periods for all years (value level, only two representative years are evaluated).
"""
from __future__ import annotations

import ast
import datetime
import re
from typing import Any, Dict, List, Optional, Set, Tuple

from sa import regexlang, rst, sqlconc, sqlexpr, sqlx
from sa.checks.c32 import _macro_channels, decision_list, guards_hold, holds
from sa.core import AnalysisError, Finding, Program, Report, norm_locals, program, src, walk_no_nested
from sa.e6 import ExternalObj, Interp, Raised

TH = "vtlengine.DataTypes.TimeHandling"
FORMATS = ["vtl", "sdmx_reporting", "sdmx_gregorian", "natural"]


class _FakeDate:
    def __init__(self, d: datetime.date) -> None:
        self.d = d

    def isoformat(self) -> str:
        return self.d.isoformat()


def period_to_date_model(year: int, ind: str, n: int, start: bool = False) -> _FakeDate:
    if ind != "D":
        raise AnalysisError("period_to_date model: only day periods are rendered as dates")
    return _FakeDate(datetime.date(int(year), 1, 1) + datetime.timedelta(days=int(n) - 1))


def dict_values(P: Program, node: Optional[ast.AST]) -> Dict[str, str]:
    if not isinstance(node, ast.Dict):
        raise AnalysisError("representation→macro table is not a dict literal")
    out = {}
    for k, v in zip(node.keys, node.values):
        key = k.value if isinstance(k, ast.Constant) else (src(k).split(".")[-1].lower())
        out[str(key).lower()] = v.value if isinstance(v, ast.Constant) else src(v)
    return out


def run(rep: Report, tier: str) -> None:
    P = program()
    macros = {k.lower(): v for k, v in sqlx.load_macros(P).items()}
    rep.explanation = ("Tables naming the four output formats are extracted from five code sites and the docs; the Python renderers are lowered "
                       "by the decision-table evaluator and the SQL macros by a concrete evaluator of the parsed macro text, and compared on "
                       "every (indicator, period number) for a leap and a common year; rendered values are pushed back through the parsed "
                       "vtl_period_normalize macro and the load regex.")
    for rid, text in [("R21.1", "format tables agree; macros exist; the representation step has no per-format shortcut"),
                      ("R21.2", "Python and SQL renderers produce identical text (or the same VTL error) for every period"),
                      ("R21.3", "rendered values and documented spellings normalise to canonical, accepted periods")]:
        rep.rule(rid, text)

    # ---- R21.1 ------------------------------------------------------------------------------------------
    enum_cls = P.cls("vtlengine.files.output._time_period_representation.TimePeriodRepresentation")
    enum_vals = {st.targets[0].id: st.value.value for st in enum_cls.node.body if isinstance(st, ast.Assign) and isinstance(st.value, ast.Constant)}
    if set(enum_vals.values()) != set(FORMATS):
        rep.add(Finding("R21.1", "R21.1/enum", enum_cls.module.rel, enum_cls.node.lineno, enum_cls.qualname,
                        f"TimePeriodRepresentation members {sorted(enum_vals.values())} differ from the documented formats {sorted(FORMATS)}"))
    thm = P.module("vtlengine.duckdb_transpiler.io._time_handling")
    t1 = dict_values(P, thm.assigns.get("_REPR_MACRO"))
    t1 = {enum_vals.get(k.upper(), k): v for k, v in t1.items()}
    eq = P.func("vtlengine.duckdb_transpiler.io._execution.execute_queries")
    t2 = None
    for n in walk_no_nested(eq.node):
        if isinstance(n, ast.Dict) and any(isinstance(v, ast.Constant) and str(v.value).startswith("vtl_period_to_") for v in n.values):
            t2 = dict_values(P, n)
    ce = P.func("vtlengine.duckdb_transpiler.Transpiler.SQLTranspiler._cast_expr")
    t3 = None
    for n in walk_no_nested(ce.node):
        if isinstance(n, ast.Dict) and any(isinstance(v, ast.Constant) and str(v.value).startswith("vtl_period_to_") for v in n.values):
            t3 = dict_values(P, n)
    if t2 is None or t3 is None:
        raise AnalysisError("representation→macro dict not found in execute_queries / _cast_expr")
    for nm, tab, where in (("_REPR_MACRO", t1, thm.rel), ("execute_queries", t2, eq.module.rel), ("_cast_expr", t3, ce.module.rel)):
        for fmt in FORMATS:
            want = f"vtl_period_to_{fmt}"
            rep.instance("R21.1", f"{nm}/{fmt}", nontrivial=True, sample={"table": nm, "format": fmt, "macro": tab.get(fmt)})
            if tab.get(fmt) != want:
                rep.add(Finding("R21.1", f"R21.1/{nm}/{fmt}", where, 1, nm, f"{nm} maps format {fmt!r} to {tab.get(fmt)!r}, expected {want!r}"))
            elif want not in macros:
                rep.add(Finding("R21.1", f"R21.1/macro-missing/{fmt}", where, 1, nm, f"macro {want} is not defined in the .sql libraries"))
        extra = set(tab) - set(FORMATS)
        if extra:
            rep.add(Finding("R21.1", f"R21.1/{nm}/extra", where, 1, nm, f"{nm} has undocumented formats {sorted(extra)}"))
    # Python dispatch: external_representation and format_time_period_external_representation branch on every format
    ext = P.func(f"{TH}.TimePeriodHandler.external_representation")
    consts = {x.value for x in ast.walk(ext.node) if isinstance(x, ast.Constant) and isinstance(x.value, str) and x.value in FORMATS}
    rep.instance("R21.1", "python-dispatch", nontrivial=True, sample={"compared_against": sorted(consts)})
    if len(consts) < len(FORMATS) - 1:
        rep.add(Finding("R21.1", "R21.1/python-dispatch", ext.module.rel, ext.node.lineno, ext.qualname,
                        f"external_representation distinguishes only {sorted(consts)}"))
    # docs table
    tabs = rst.tables(P.repo / "docs" / "data_types.rst")
    fmt_tab = [t for t in tabs if t.rows and t.rows[0] and t.rows[0][0] == "Format"]
    rep.instance("R21.1", "docs-formats", nontrivial=True, sample={"rows": [r[0] for r in fmt_tab[0].rows[1:]] if fmt_tab else None})
    if not fmt_tab:
        raise AnalysisError("docs/data_types.rst: Time_Period output format table not found")
    doc_formats = {r[0].strip().lower().replace(" ", "_") for r in fmt_tab[0].rows[1:]}
    doc_formats = {d.split("(")[0].strip("_ ") for d in doc_formats}
    if not all(any(f in d or d in f for d in doc_formats) for f in FORMATS):
        rep.add(Finding("R21.1", "R21.1/docs-formats", "docs/data_types.rst", fmt_tab[0].line, "Time_Period formats table",
                        f"documented output formats {sorted(doc_formats)} do not cover {FORMATS}"))
    # apply_time_period_representation: no per-format shortcut before the UPDATE
    ap = P.func("vtlengine.duckdb_transpiler.io._time_handling.apply_time_period_representation")
    for n in walk_no_nested(ap.node):
        if isinstance(n, ast.If) and any(isinstance(x, ast.Return) for x in n.body):
            t = src(n.test)
            rep.instance("R21.1", f"early-return/{t[:40]}", nontrivial=True)
            mentions_member = any(isinstance(x, ast.Attribute) and x.attr in enum_vals for x in ast.walk(n.test)) or \
                any(isinstance(x, ast.Constant) and x.value in FORMATS for x in ast.walk(n.test))
            if mentions_member:
                rep.add(Finding("R21.1", "R21.1/format-shortcut", ap.module.rel, n.lineno, ap.qualname,
                                f"`if {t}: return` skips the representation macro for one format: values stay in the internal canonical form "
                                f"(e.g. annual periods stay 2020A) in results written to files"))

    # ---- R21.2 / R21.3 -------------------------------------------------------------------------------------
    handler = P.cls(f"{TH}.TimePeriodHandler")
    limits = {"A": 1, "S": 2, "Q": 4, "M": 12, "W": 53, "D": 366}
    load_re = None
    vm = P.module("vtlengine.duckdb_transpiler.io._validation")
    pv = P.const_values(None, vm, vm.assigns["TIME_PERIOD_PATTERN"]) if "TIME_PERIOD_PATTERN" in vm.assigns else None
    if not pv:
        raise AnalysisError("anchor vanished: TIME_PERIOD_PATTERN")
    load_re = regexlang.compile_nfa(next(iter(pv)), "search")
    mapper = decision_list(P, P.func("vtlengine.duckdb_transpiler.io._execution._map_query_error"))
    fetch_sql_arg = _macro_channels(P)[2]  # the statement text the fetch site hands to the mapper
    ncell = 0
    mism: Dict[str, Tuple] = {}
    for year in (2020, 2021):
        for ind, lim in limits.items():
            for pn in range(1, lim + 1):
                if ind == "D" and pn == 366 and year == 2021:
                    continue
                if ind == "W" and pn == 53 and year == 2021:
                    continue
                selfobj = ExternalObj({"year": year, "period_indicator": ind, "period_number": pn})
                it = Interp(P, externals={"period_to_date": period_to_date_model})
                canon = it.call(handler.methods["__str__"], {"self": selfobj})
                for fmt in FORMATS:
                    ncell += 1
                    meth = handler.methods.get(f"{fmt}_representation")
                    if meth is None:
                        raise AnalysisError(f"anchor vanished: TimePeriodHandler.{fmt}_representation")
                    it = Interp(P, externals={"period_to_date": period_to_date_model})
                    try:
                        py: Any = it.call(meth, {"self": selfobj})
                    except Raised as r:
                        py = ("raise", getattr(r.exc, "code", None))
                    try:
                        sq: Any = sqlconc.call_macro(macros, f"vtl_period_to_{fmt}", canon)
                    except sqlconc.SqlError as e:
                        txt = str(e).lower()
                        claimed = next((code for c, cls, code, _, gs in mapper if fetch_sql_arg is not None and holds(c, txt) and guards_hold(P, gs, fetch_sql_arg)), None)
                        sq = ("raise", claimed)
                    except sqlexpr.ParseError as e:
                        raise AnalysisError(f"vtl_period_to_{fmt} not evaluable on {canon!r}: {e}")
                    key = f"{fmt}/{ind}"
                    if py != sq and key not in mism:
                        mism[key] = (canon, py, sq)
                    # R21.3 round trip of the rendered text (SQL loader side)
                    if isinstance(sq, str):
                        try:
                            back = sqlconc.call_macro(macros, "vtl_period_normalize", sq)
                        except (sqlconc.SqlError, sqlexpr.ParseError) as e:
                            back = f"<error {e}>"
                        ok = back == canon and load_re.matches(str(back).upper())
                        if not ok and f"rt/{key}" not in mism:
                            mism[f"rt/{key}"] = (canon, sq, back)
        # one instance per (year, indicator, format) block is recorded below
    for fmt in FORMATS:
        for ind in limits:
            rep.instance("R21.2", f"{fmt}/{ind}", nontrivial=True,
                         sample={"format": fmt, "indicator": ind, "first_mismatch": mism.get(f"{fmt}/{ind}")} if ind in ("A", "Q") else None)
            if f"{fmt}/{ind}" in mism:
                canon, py, sq = mism[f"{fmt}/{ind}"]
                rep.add(Finding("R21.2", f"R21.2/{fmt}/{ind}", f"src/vtlengine/duckdb_transpiler/sql/init.sql", macros[f"vtl_period_to_{fmt}"].line,
                                f"macro:vtl_period_to_{fmt}",
                                f"period {canon} in format {fmt}: Python renders {py!r}, SQL macro renders {sq!r}"))
            rep.instance("R21.3", f"roundtrip/{fmt}/{ind}", nontrivial=True)
            if f"rt/{fmt}/{ind}" in mism:
                canon, rendered, back = mism[f"rt/{fmt}/{ind}"]
                rep.add(Finding("R21.3", f"R21.3/roundtrip/{fmt}/{ind}", "src/vtlengine/duckdb_transpiler/sql/init.sql", macros["vtl_period_normalize"].line,
                                "macro:vtl_period_normalize",
                                f"period {canon} rendered in format {fmt} as {rendered!r} is read back as {back!r} (not the same canonical, accepted period)"))
    rep.floor("render cells", ncell, 3000)
    # documented output examples are renderings of some period of that indicator (year 2020)
    cols = {"annual": "A", "semester": "S", "quarter": "Q", "month": "M", "week": "W", "day": "D"}
    hdr = [h.strip().lower() for h in fmt_tab[0].rows[0]]
    for row in fmt_tab[0].rows[1:]:
        fmt = next((f for f in FORMATS if f in row[0]), None)
        if fmt is None:
            continue
        for h, cell in zip(hdr[1:], row[1:]):
            ind = cols.get(h)
            if ind is None:
                continue
            rendered: Set[Any] = set()
            for pn in range(1, limits[ind] + 1):
                selfobj = ExternalObj({"year": 2020, "period_indicator": ind, "period_number": pn})
                it = Interp(P, externals={"period_to_date": period_to_date_model})
                try:
                    rendered.add(it.call(handler.methods[f"{fmt}_representation"], {"self": selfobj}))
                except Raised:
                    rendered.add("Not supported")
            rep.instance("R21.1", f"docs-output/{fmt}/{ind}", nontrivial=True, sample={"format": fmt, "indicator": ind, "docs": cell} if ind == "M" else None)
            if cell.strip() not in rendered:
                rep.add(Finding("R21.1", f"R21.1/docs-output/{fmt}/{ind}", "docs/data_types.rst", fmt_tab[0].line, "Time_Period output formats",
                                f"documented {fmt} rendering of a {h} period is {cell!r}; the renderer produces e.g. {sorted(map(str, rendered))[:3]}"))
    # documented input spellings normalise to canonical shapes
    canon_shape = regexlang.compile_nfa(r"\d{4}A|\d{4}-[SQ]\d|\d{4}-[MW]\d{2}|\d{4}-D\d{3}")
    in_tab = [t for t in tabs if t.rows and t.rows[0][:3] == ["Period", "Formats", "Examples"]]
    if not in_tab:
        raise AnalysisError("docs/data_types.rst: Time_Period input formats table (Period | Formats | Examples) not found")
    nex = 0
    for row in in_tab[0].rows[1:]:
        for ex in [x.strip() for x in row[2].split(",") if x.strip()]:
            nex += 1
            try:
                norm = sqlconc.call_macro(macros, "vtl_period_normalize", ex)
            except (sqlconc.SqlError, sqlexpr.ParseError) as e:
                norm = f"<error {e}>"
            ok = isinstance(norm, str) and canon_shape.matches(norm) and load_re.matches(norm.upper())
            rep.instance("R21.3", f"docs-example/{ex}", nontrivial=True, sample={"period": row[0], "example": ex, "normalised": norm} if nex <= 3 else None)
            if not ok:
                rep.add(Finding("R21.3", f"R21.3/docs-example/{ex}", "docs/data_types.rst", in_tab[0].line, "Time_Period input formats",
                                f"documented input {ex!r} ({row[0]}) is normalised by vtl_period_normalize to {norm!r}, which is not a canonical accepted period"))
    rep.floor("documented Time_Period examples", nex, 10)
    spelling_grid(rep, "R21.3", macros, limits)
    rep.analysed = {"render_cells": ncell, "docs_examples": nex, "formats": FORMATS}
    rep.rule("R21.5", "the output-representation macro of the chosen format is installed whenever a RESULT has a Time_Period component (shared with C32 R32.4)")
    from sa.callgraph import callgraph as _cgf
    from sa.checks.c32 import _macro_availability
    _macro_availability(P, rep, _cgf(P), "R21.5")
    rep.rule("R21.6", "Time_Period literals are normalised through TimePeriodHandler on every return of the Python-side normaliser")
    literal_normaliser(P, rep, "R21.6")
    # ---- R21.4: no memoised renderer / parser of periods whose result depends on the (process-global) output format ----
    rep.rule("R21.4", "memoised functions on the Time_Period path return immutable values that depend only on their arguments")
    from sa import globalsx as _gx
    _n = 0
    for _f in P.iter_functions():
        if any(d in _gx.CACHE_DECOS or d.split(".")[-1] in _gx.CACHE_DECOS for d in _f.decorators) and _f.module.name.startswith(("vtlengine.files", "vtlengine.DataTypes", "vtlengine.duckdb_transpiler.io")):
            _n += 1
            rep.instance("R21.4", f"memo/{_f.qualname}", nontrivial=True)
    for _f, _why, _line in _gx.memo_findings(P, ("vtlengine.files", "vtlengine.DataTypes", "vtlengine.duckdb_transpiler.io")):
        rep.add(Finding("R21.4", f"R21.4/memo/{_f.qualname}", _f.module.rel, _line, _f.qualname,
                        f"{_f.name} is memoised and {_why}: a period rendered under one time_period_output_format is returned again under another"))
    rep.instance("R21.4", "memo-inventory", nontrivial=False, sample=_n)
    # ---- R21.7: what a period renders to does not depend on the periods rendered before (shared with C17 R17.2) ----
    rep.rule("R21.7", "no function of the time handling / period rendering modules writes a process-global: a cache keyed by less than its result depends on (day number "
                      "without the year) makes the same period render differently after another one was rendered")
    from sa import globalsx as _gx7
    _gx7.report_written_globals(P, rep, "R21.7", ("vtlengine.DataTypes.TimeHandling", "vtlengine.DataTypes._time_checking", "vtlengine.duckdb_transpiler.io._time_handling"),
                                "the rendering of a period then depends on which periods were rendered earlier in the process")
    # ---- R21.8: Time_Period columns are canonicalised whatever the load-validation switch says (shared with C19) ----
    rep.rule("R21.8", "with VTL_SKIP_LOAD_VALIDATION set, _validate_loaded_table still normalises the Time_Period columns on every path (the switch skips checks, not canonicalisation)")
    from sa.checks.c19 import normalisation_with_skip_flag as _nws
    _nws(P, rep, "R21.8")
    # ---- R21.9: the loader's normalising UPDATE reaches every non-canonical spelling ----
    rep.rule("R21.9", "_normalize_time_period_columns: one UPDATE with vtl_period_normalize per Time_Period column whose row filter selects every accepted non-canonical spelling")
    from sa.checks.c19 import period_limits as _pl9
    normalise_update_covers_spellings(P, rep, "R21.9", _pl9(P))
    rep.assumptions = ["canonical internal form = TimePeriodHandler.__str__ (lowered from the source)", "SQL string functions SUBSTR/LENGTH/LPAD/"
                       "UPPER/CAST/TRY_CAST/|| have standard semantics; period_to_date(year,'D',n) = 1 January + (n-1) days"]


def literal_normaliser(P: Program, rep: Report, rule: str) -> None:
    """A Time_Period literal in the script (cast("2020-M1", time_period)) is normalised in Python by
    structure_visitor._try_normalize_time_period, a column holding the same text by the SQL macro.  The Python side is canonical by
    construction only as long as every value it returns comes out of TimePeriodHandler (whose __str__ is the canonical text the macro
    mirrors): a return of the input itself, or of anything not derived from the handler, lets a literal and a column with the same
    spelling render differently."""
    f = P.func("vtlengine.duckdb_transpiler.Transpiler.structure_visitor._try_normalize_time_period")
    param = [p_ for p_ in f.params][0]
    derived: Set[str] = set()
    for _ in range(3):
        for n in walk_no_nested(f.node):
            if isinstance(n, (ast.Assign, ast.AnnAssign)) and n.value is not None:
                if any(isinstance(c, ast.Call) and src(c.func).split(".")[-1] == "TimePeriodHandler" for c in ast.walk(n.value)) \
                        or any(isinstance(x, ast.Name) and x.id in derived for x in ast.walk(n.value)):
                    derived |= {t.id for t in (n.targets if isinstance(n, ast.Assign) else [n.target]) if isinstance(t, ast.Name)}
    nret = 0
    for r in [n for n in walk_no_nested(f.node) if isinstance(n, ast.Return)]:
        nret += 1
        v = r.value
        ok = v is None or (isinstance(v, ast.Constant) and v.value is None) \
            or any(isinstance(c, ast.Call) and src(c.func).split(".")[-1] == "TimePeriodHandler" for c in ast.walk(v)) \
            or any(isinstance(x, ast.Name) and x.id in derived for x in ast.walk(v))
        rep.instance(rule, f"literal-normaliser/return@{nret}", nontrivial=True, sample={"returns": src(v) if v is not None else None})
        if not ok:
            rep.add(Finding(rule, f"{rule}/literal-normaliser/{norm_locals(src(r), f.node)[:50]}", f.module.rel, r.lineno, f.qualname,
                            f"`{src(r)}` returns a value that does not come out of TimePeriodHandler: a literal such as \"2020-M1\" is then emitted as written while a column holding "
                            f"the same text is stored as 2020-M01 by the SQL macro, so the two render differently in every non-default output format"))
    if nret == 0:
        raise AnalysisError(f"{rule}: _try_normalize_time_period has no return statement")


def spelling_grid(rep: Report, rule: str, macros: Dict[str, Any], limits: Dict[str, int], null_clause: bool = False) -> None:
    """Every spelling of the documented input families (compact / hyphenated, any zero padding, either letter case) is pushed through
    the parsed vtl_period_normalize macro and must come out as THE canonical text of the same period: two spellings of one period
    must not survive as two different strings - they are compared as text afterwards (duplicate-key check, ordering of cumulative
    operators, rendering).  Shared with C19 (two spellings of one key are accepted as distinct datapoints) and C08 (flow_to_stock /
    fill_time_series order un-normalised values as text)."""
    # every spelling of the documented families (compact / hyphenated, any zero padding, either letter case) normalises to THE canonical
    # text of the same period: two spellings of one period must not survive as two different strings (they are compared as text later)
    nsp = 0
    shown_sp = 0
    for ind in ("A", "S", "Q", "M", "W", "D"):
        width = {"A": 0, "S": 1, "Q": 1, "M": 2, "W": 2, "D": 3}[ind]
        nums = [1] if ind == "A" else sorted({n for n in (1, 2, 4, 9, 10, 12, 45, 52, 99, 100, 365) if n <= limits[ind]})
        for n in nums:
            want = "2021A" if ind == "A" else f"2021-{ind}{str(n).zfill(width)}"
            spellings: Set[str] = set()
            if ind == "A":
                spellings |= {"2021", "2021A", "2021-A1", "2021a"}
            else:
                for w in range(len(str(n)), 4 if ind == "D" else 3):
                    for sep in ("", "-"):
                        for letter in (ind, ind.lower()):
                            spellings.add(f"2021{sep}{letter}{str(n).zfill(w)}")
                if ind == "M":
                    spellings |= {f"2021-{n}", f"2021-{n:02d}"}
            for sp in sorted(spellings):
                nsp += 1
                try:
                    got = sqlconc.call_macro(macros, "vtl_period_normalize", sp)
                except (sqlconc.SqlError, sqlexpr.ParseError) as e:
                    got = f"<error {str(e)[:40]}>"
                if got != want and shown_sp < 6:
                    shown_sp += 1
                    rep.add(Finding(rule, f"{rule}/spelling/{ind}/{sp}", "src/vtlengine/duckdb_transpiler/sql/init.sql", macros["vtl_period_normalize"].line,
                                    "macro:vtl_period_normalize",
                                    f"the input spelling {sp!r} of the period {want} is normalised to {got!r}: the stored text differs from the canonical one, so the same period "
                                    f"written in two ways compares unequal and is rendered with the wrong padding"))
    # a non-null input never becomes NULL: nulls are skipped by the post-load format validation, so a value that is not a period
    # (an impossible calendar day written as a date) must either fail here or survive as text for that validation to reject
    for bad in (("2021-02-29", "2020-04-31", "2021-13-01", "2021-00-10", "2020-D1a", "2021-Wx", "2020-M1x", "2020-Qx") if null_clause else ()):
        nsp += 1
        try:
            got = sqlconc.call_macro(macros, "vtl_period_normalize", bad)
        except (sqlconc.SqlError, sqlexpr.ParseError):
            continue
        if got is None:
            rep.add(Finding(rule, f"{rule}/null-from-value/{bad}", "src/vtlengine/duckdb_transpiler/sql/init.sql", macros["vtl_period_normalize"].line, "macro:vtl_period_normalize",
                            f"the non-null input {bad!r} (not a period) is normalised to NULL: the post-load format check skips NULLs, so run() stores a null where "
                            f"validate_dataset() reports an invalid Time_Period (and a non-nullable component is then rejected for the wrong reason)"))
    rep.instance(rule, "spelling-grid", nontrivial=True, sample={"spellings evaluated": nsp})
    rep.floor(f"{rule} spellings", nsp, 150)


def normalise_update_covers_spellings(P: Program, rep: Report, rule: str, limits: Dict[str, int]) -> None:
    """_normalize_time_period_columns evaluated against a model connection: every UPDATE it issues applies vtl_period_normalize, and its row
    filter (if any) selects EVERY accepted spelling that is not yet the canonical text (all spellings of the grid are tried: compact,
    hyphenated, any zero padding, either letter case).  A filter that takes `2021-M2` for canonical leaves it as written: it then sorts
    after `2021-M10` and does not join the calendar grid.  Shared between C08 and C21."""
    from sa import sqlconc as _sc, sqlexpr as _se
    from sa.e6 import ClassVal as _CV, ExternalObj as _EO, Interp as _I, Raised as _R, Unmodelled as _U
    f = P.func("vtlengine.duckdb_transpiler.io._io._normalize_time_period_columns")

    class _Conn:
        def __init__(self) -> None:
            self.q: List[str] = []

        def execute(self, q: str, *a: Any) -> Any:
            self.q.append(q)
            return _EO({"fetchone": lambda: (False,), "fetchall": lambda: [(False,)], "description": None})
    conn = _Conn()
    comps = {"Id_1": _EO({"name": "Id_1", "data_type": _CV("vtlengine.DataTypes.Integer")}), "T": _EO({"name": "T", "data_type": _CV("vtlengine.DataTypes.TimePeriod")})}
    try:
        _I(P, max_steps=20000).call(f, {"conn": conn, "table_name": "DS_1", "components": comps})
    except (_R, _U) as e:
        raise AnalysisError(f"{rule}: _normalize_time_period_columns outside the evaluator's language: {e}")
    ups = [q for q in conn.q if q.strip().upper().startswith("UPDATE") and '"T"' in q]
    rep.instance(rule, "normalise-update", nontrivial=True, sample={"statements": [" ".join(q.split())[:160] for q in conn.q][:3]})
    if len(ups) != 1 or "vtl_period_normalize" not in ups[0].lower():
        rep.add(Finding(rule, f"{rule}/normalise-update/unconditional", f.module.rel, f.node.lineno, f.qualname,
                        f"for a Time_Period column the loader issues {[' '.join(q.split())[:90] for q in conn.q]}: exactly one UPDATE applying vtl_period_normalize to the column is expected "
                        f"whatever a probe of some stored value answers - a column mixing spellings would otherwise keep the spelling of the rows that were not looked at"))
        return
    up = ups[0]
    where = up[up.upper().index(" WHERE ") + 7:] if " WHERE " in up.upper() else None
    if where is None:
        return
    try:
        pred = _se.parse(where)
    except _se.ParseError as e:
        raise AnalysisError(f"{rule}: the UPDATE's row filter is outside the SQL evaluator's language: {e} [{where[:100]}]")
    n = 0
    shown = 0
    for ind in ("A", "S", "Q", "M", "W", "D"):
        width = {"A": 0, "S": 1, "Q": 1, "M": 2, "W": 2, "D": 3}[ind]
        nums = [1] if ind == "A" else sorted({k for k in (1, 2, 4, 9, 10, 12, 45, 52, 99, 100, 365) if k <= limits[ind]})
        for k in nums:
            canon = "2021A" if ind == "A" else f"2021-{ind}{str(k).zfill(width)}"
            spellings: Set[str] = {"2021", "2021A", "2021-A1", "2021a"} if ind == "A" else set()
            if ind != "A":
                for w in range(len(str(k)), 4 if ind == "D" else 3):
                    for sep in ("", "-"):
                        for letter in (ind, ind.lower()):
                            spellings.add(f"2021{sep}{letter}{str(k).zfill(w)}")
            for sp in sorted(spellings):
                if sp == canon:
                    continue
                n += 1
                try:
                    sel = _sc.ev(pred, {"T": sp, '"T"': sp}, {})
                except (_sc.SqlError, _se.ParseError) as e:
                    raise AnalysisError(f"{rule}: row filter not evaluable on {sp!r}: {e}")
                if sel is not True and shown < 4:
                    shown += 1
                    rep.add(Finding(rule, f"{rule}/normalise-update/skips/{ind}/{sp}", f.module.rel, f.node.lineno, f.qualname,
                                    f"the accepted spelling {sp!r} of the period {canon} is not selected by the normalising UPDATE (`WHERE {' '.join(where.split())[:110]}`): it is stored as written, "
                                    f"so it compares unequal to {canon!r}, sorts as text before/after the wrong periods (flow_to_stock, fill_time_series) and is rendered with the wrong padding"))
    rep.floor(f"{rule} non-canonical spellings against the row filter", n, 100)
