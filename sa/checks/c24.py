"""C24 - prettify preserves meaning and is idempotent (DESIGN §3 C24).  Structural clauses decided:

R24.1 field coverage: in pretty mode (`self.pretty` fixed to True, dead branches pruned) every semantic field of every node
      class the AST constructor builds is read by ASTString, attributed by type (own handler, helper it calls, or the parent
      that renders it inline); a field nobody reads is information missing from the prettified script
R24.2 node coverage: every node class the constructor builds has its own ASTString handler or is rendered inline by its parent
      (ASTTemplate's default handlers return nothing)
R24.3 literal rendering: booleans/null are written with the grammar's own token texts; the Number branch uses only lossless
      digit sources (repr/str/Decimal of repr), no precision format; zero-stripping is guarded by the presence of the
      decimal point; a Number is written as a NUMBER_CONSTANT (not as an integer); every optional value passed to
      _handle_literal is guarded against None
R24.4 no quote-unaware rewriting of already rendered text (replace/re.sub/split/join-of-split/slicing/strip(chars)/case
      changes on values that come from self.visit/render), here and in the SDMX generator that reuses the renderer
R24.5 operator dispatch agrees with the grammar: every operator text the constructor can store in a ParamOp has a branch in
      visit_ParamOp (else it is rendered as ""); call-shaped / infix / prefix operators of BinOp and UnaryOp are rendered in
      the shape the grammar reads them back in
R24.6 elided defaults agree: a parameter the renderer omits because it "is the default" is the value the interpreter and the
      transpiler assume when it is absent (hierarchy / check_hierarchy / check_datapoint modes, analytic default window,
      order-by direction)
R24.7 comments: every comment token becomes a Comment node that is added to the tree on every path, and is written verbatim
R24.8 rendering flags set inside a handler are restored on every normal path out of it
R24.9 names: every keyword of the lexer grammar is in the reserved-word table (so that a name equal to it is re-quoted), and
      every name-carrying field is rendered through the name formatter
Not decided: that the prettified text parses and evaluates identically (needs the parser, which cannot run here).
"""
from __future__ import annotations

import ast
import re
from typing import Any, Dict, List, Optional, Set, Tuple

from sa import astctor, e7, g4, render
from sa.cfg import CFG
from sa.core import norm_locals, AnalysisError, Finding, FuncInfo, Program, Report, program, src, walk_no_nested

MOD = render.ASTSTR_MOD
CLS = render.ASTSTR

# fields the renderer does not need to read (derived by the constructor from syntactic position / value type)
DERIVED_FIELDS: Dict[Tuple[str, str], str] = {
    ("Constant", "type_"): "lexical class of the literal; follows from the Python type of `value` (but see R24.3 number-as-integer)",
    ("ParamConstant", "type_"): "always PARAM_* marker set by the constructor from the token kind; value is the token text",
    ("ID", "type_"): "marker set by the constructor (e.g. ruleset id); value carries the text",
    ("Collection", "type"): "constructor marker (Set / ValueDomain kind is carried by `kind`, which is read)",
    ("Identifier", "kind"): "ComponentID/DatasetID position marker derived from where the identifier stands",
    ("DefIdentifier", "kind"): "position marker derived from the ruleset signature",
    ("DPRIdentifier", "kind"): "position marker derived from the ruleset signature",
}

# str-typed fields: what they carry ('name' = identifier that may need quotes)
NAME_FIELDS: Set[Tuple[str, str]] = {
    ("VarID", "value"), ("Identifier", "value"), ("DefIdentifier", "value"), ("DPRIdentifier", "value"), ("DPRIdentifier", "alias"),
    ("RenameNode", "old_name"), ("RenameNode", "new_name"), ("Argument", "name"), ("Analytic", "partition_by"), ("JoinOp", "using"),
    ("OrderBy", "component"), ("NvlJoinPair", "component"), ("HRuleset", "name"), ("DPRuleset", "name"), ("Operator", "op"),
    ("UDOCall", "op"), ("DPValidation", "ruleset_name"), ("DPValidation", "components"), ("HROperation", "ruleset_name"),
    ("EvalOp", "name"), ("ViralPropagationDef", "name"), ("ViralPropagationDef", "target"), ("Collection", "name"),
    ("HRule", "name"), ("DPRule", "name"), ("EnumeratedVpClause", "name"),
}
# name-carrying fields rendered without the formatter on the reference tree: one finding each (known_findings.txt)

NAME_FORMATTERS = {"_format_reserved_word"}


def _fn(P: Program, q: str) -> FuncInfo:
    try:
        return P.func(q)
    except Exception:
        raise AnalysisError(f"anchor vanished: {q}")


def _rel(P: Program, f: FuncInfo) -> str:
    return f.module.relpath if hasattr(f.module, "relpath") else str(f.module.path)


def _finding(rule: str, key: str, f: FuncInfo, line: int, msg: str) -> Finding:
    return Finding(rule, f"{rule}/{key}", f.module.rel, line, f.qualname, msg)


def run(rep: Report, tier: str) -> None:  # noqa: C901
    P = program()
    G = g4.load(P)
    NC = e7.node_classes(P)
    S = P.cls(CLS)
    mod = P.module(MOD)
    rep.explanation = ("ASTString specialised to pretty mode (dead branches pruned) and analysed as a writer whose reader is the "
                       "grammar + AST constructor: typed field-read inventory vs the node classes the constructor builds, operator "
                       "dispatch vs grammar alternative shapes, elided defaults vs the defaults assumed downstream, literal and name "
                       "formatting rules vs lexer token definitions, taint rule for text rewriting of rendered fragments.")
    sites = astctor.sites(P, G, set(NC))
    built: Dict[str, List[astctor.CtorSite]] = {}
    for s in sites:
        built.setdefault(s.cls, []).append(s)
    # Comment nodes are built by ASTComment
    built.setdefault("Comment", [])
    rep.analysed["constructor_sites"] = len(sites)
    rep.analysed["node_classes_built"] = sorted(built)
    T = render.TypedReads(P, True)
    rep.analysed["renderer_methods"] = sorted(S.methods)

    # ---------------- R24.1 / R24.2 ----------------
    rep.rule("R24.1", "pretty mode: every semantic field of every constructed node class is read by the renderer (typed attribution)")
    rep.rule("R24.2", "every constructed node class has an own ASTString handler or is rendered inline by its parent")
    n_fields = 0
    for cname in sorted(built):
        nc = NC[cname]
        m = P.lookup_method(S, f"visit_{cname}")
        own = m is not None and m.cls is S
        sem = [f for f in nc.fields if f not in e7.POSITIONAL]
        inline = bool(sem) and all(T.has(cname, f) or (cname, f) in DERIVED_FIELDS for f in sem)
        rep.instance("R24.2", cname, sample={"own_handler": own, "inline": inline})
        anchor = m if own else P.lookup_method(S, "visit_Start")
        if not own and not inline:
            rep.add(_finding("R24.2", cname, anchor, anchor.node.lineno,
                             f"node class {cname} is built by the AST constructor but ASTString has no visit_{cname} of its own and no "
                             f"parent renders its fields: the inherited default handler returns nothing, so the construct vanishes from the prettified script"))
            continue
        for f in sem:
            n_fields += 1
            key = f"{cname}.{f}"
            if (cname, f) in DERIVED_FIELDS:
                rep.instance("R24.1", key, nontrivial=False)
                rep.exemption("R24.1", key, DERIVED_FIELDS[(cname, f)])
                continue
            rep.instance("R24.1", key, sample={"read_in": sorted({a for a, _ in T.reads.get((cname, f), [])})[:4]})
            if not T.has(cname, f):
                rep.add(_finding("R24.1", key, anchor, anchor.node.lineno,
                                 f"in pretty mode no ASTString code reads {cname}.{f} (or its value is discarded): that part of the "
                                 f"script is missing from prettify()'s output"))
    rep.floor("R24.1 fields", n_fields, 110)

    # ---------------- R24.3 literals ----------------
    rep.rule("R24.3", "literal rendering is lossless, type-preserving and uses the grammar's token texts; None is guarded")
    hl = _fn(P, f"{MOD}._handle_literal")
    _check_literals(P, G, rep, hl, S)

    rep.rule("R24.10", "optional scalar fields (error code / level ...) are tested for presence with `is None`, never by truth value")
    _check_presence_tests(P, rep, S, "R24.10", pretty=True)

    # ---------------- R24.4 text rewriting ----------------
    rep.rule("R24.4", "no quote-unaware rewriting of rendered text in the renderer and in the SDMX generator")
    _check_rewrites(P, rep, [f for f in P.iter_functions() if f.module is mod] +
                    [f for f in P.iter_functions() if f.module.name == "vtlengine.API._InternalApi" and "generate" in f.name] +
                    [_fn(P, "vtlengine.API.prettify")])

    # ---------------- R24.5 operator dispatch ----------------
    rep.rule("R24.5", "operator dispatch of the renderer agrees with the grammar shapes and covers every operator the constructor stores")
    _check_dispatch(P, rep, S, built)

    # ---------------- R24.6 elided defaults ----------------
    rep.rule("R24.6", "defaults the renderer elides equal the defaults assumed when the parameter is absent")
    _check_defaults(P, rep, S, built)

    # ---------------- R24.7 comments ----------------
    rep.rule("R24.7", "every comment token becomes a Comment child on every path and is written verbatim")
    _check_comments(P, rep, S)

    # ---------------- R24.8 flags ----------------
    rep.rule("R24.8", "rendering flags set in a handler are restored on every normal path out of it")
    _check_flags(P, rep, S)
    from sa import globalsx as _gx
    rep.instance("R24.8", "renderer-instances-are-per-call", sample={"stateful attributes of ASTString": sorted(_gx.stateful_attrs(P, "vtlengine.AST.ASTString.ASTString"))[:8]})
    if not _gx.stateful_attrs(P, "vtlengine.AST.ASTString.ASTString"):
        raise AnalysisError("ASTString no longer has per-call state written by its handlers: the per-call-instance rule has lost its anchor")
    _gx.report_shared_instances(P, rep, "R24.8", "vtlengine.AST.ASTString.ASTString", "a later rendering drops or adds clauses (e.g. group by / having of an aggregation)")

    # ---------------- R24.9 names ----------------
    rep.rule("R24.9", "reserved-word table covers the lexer's keywords; name-carrying fields go through the name formatter")
    _check_names(P, G, rep, S, T, NC, built)
    # the quote flag the renderer relies on is exactly "the token was written in quotes" (evaluated): VTL's IDENTIFIER is narrower than Python's
    fq = P.functions.get("vtlengine.AST.ASTConstructorModules.Terminals.is_quoted_identifier")
    if fq is None:
        raise AnalysisError("anchor vanished: Terminals.is_quoted_identifier")
    from sa.e6 import ExternalObj as _EOq, Interp as _Iq, Raised as _Rq, Unmodelled as _Uq
    # only names that VTL's IDENTIFIER rule (VtlTokens.g4: ([0-9][a-zA-Z0-9_.]*)?[a-zA-Z][a-zA-Z0-9_.]*) does NOT admit bare are decided: dropping the
    # quotes of 'A' changes nothing, dropping those of '_T1' makes the text unparseable
    for txt, term, want in (("'_T1'", True, True), ("'ÖVRIGT'", True, True), ("'X-1'", True, True), ("'a b'", True, True), ("'__x'", True, True)):
        ctx_ = _EOq({"children": [_EOq({"is_terminal": term, "text": txt})]})
        try:
            got = bool(_Iq(P).call(fq, {"ctx": ctx_}))
        except (_Uq, _Rq) as e:
            raise AnalysisError(f"R24.9: is_quoted_identifier outside the evaluator's language: {e}")
        rep.instance("R24.9", f"quote-flag/{txt}/{term}", nontrivial=True)
        if got != want:
            rep.add(_finding("R24.9", f"quote-flag/{txt}", fq, fq.node.lineno,
                             f"is_quoted_identifier says {got} for the {'terminal' if term else 'non-terminal'} token {txt}: the flag must be exactly `the name was written in quotes` - names "
                             f"that VTL's IDENTIFIER rule does not admit bare (leading underscore, non-ASCII letters, leading digit) are otherwise written back unquoted and the prettified script no longer parses"))

    rep.assumptions = ["a grammar alternative labelled #x is served by the constructor method visitX (ANTLR convention) or by the method its ctx_id dispatch names",
                       "Python's repr(float) is the shortest round-trip digit string; Decimal(repr(x)) is exact",
                       "docs are not consulted: the grammar files and the AST constructor are the reader's definition"]


# ------------------------------------------------------------------------------------------------------------------
def _str_consts(e: ast.AST) -> List[str]:
    return [x.value for x in ast.walk(e) if isinstance(x, ast.Constant) and isinstance(x.value, str)]


def _branch_of(fn: ast.AST, typename: str) -> Optional[List[ast.stmt]]:
    """body of the `isinstance(value, <typename>)` branch of the function's if-chain"""
    for n in ast.walk(fn):
        if isinstance(n, ast.If) and isinstance(n.test, ast.Call) and src(n.test.func) == "isinstance" and len(n.test.args) == 2 \
                and src(n.test.args[1]) == typename:
            return n.body
    return None


NONE_GUARD_OK: Dict[Tuple[str, str], str] = {
    ("visit_TimeAggregation", "node.period_to"): "reached only when period_to_ref is None; the constructor sets exactly one of period_to / period_to_ref (grammar: periodIndTo is mandatory)",
}


def _ctor_nullable(P: Program, G: g4.Grammar) -> Set[Tuple[str, str]]:
    """(class, field) pairs for which some constructor site can pass None (constant None, a local initialised to None,
    or the keyword omitted while the dataclass default is None)."""
    NC = e7.node_classes(P)
    out: Set[Tuple[str, str]] = set()
    for s in astctor.sites(P, G, set(NC)):
        given = {k.arg: k.value for k in s.call.keywords if k.arg}
        for fld, ann in NC[s.cls].fields.items():
            if "Optional" not in ann:
                continue
            v = given.get(fld)
            if v is None:
                out.add((s.cls, fld))
            elif isinstance(v, ast.Constant) and v.value is None:
                out.add((s.cls, fld))
            elif isinstance(v, ast.Name):
                for n in walk_no_nested(s.func.node):
                    if isinstance(n, (ast.Assign, ast.AnnAssign)) and n.value is not None and isinstance(n.value, ast.Constant) and n.value.value is None:
                        tg = n.targets if isinstance(n, ast.Assign) else [n.target]
                        if any(isinstance(t, ast.Name) and t.id == v.id for t in tg):
                            out.add((s.cls, fld))
            elif isinstance(v, ast.IfExp):
                if any(isinstance(x, ast.Constant) and x.value is None for x in (v.body, v.orelse)):
                    out.add((s.cls, fld))
    return out


def _check_literals(P: Program, G: g4.Grammar, rep: Report, hl: FuncInfo, S) -> None:  # noqa: C901
    fn = hl.node
    param = hl.params[0]
    order = [src(n.test.args[1]) for n in ast.walk(fn) if isinstance(n, ast.If) and isinstance(n.test, ast.Call)
             and src(n.test.func) == "isinstance" and len(n.test.args) == 2]
    order = sorted(set(order), key=lambda t: min(n.lineno for n in ast.walk(fn) if isinstance(n, ast.If) and isinstance(n.test, ast.Call)
                                                 and src(n.test.func) == "isinstance" and src(n.test.args[1]) == t))
    rep.instance("R24.3", "dispatch-order", sample=order)
    # bool must be decided before anything that accepts ints (int branch or the str() fall-through)
    if "bool" not in order:
        rep.add(_finding("R24.3", "bool-branch", hl, fn.lineno, "no isinstance(value, bool) branch: True/False fall through to str(value) and are written 'True'/'False', which the grammar does not read as BOOLEAN_CONSTANT"))
    elif "int" in order and order.index("int") < order.index("bool"):
        rep.add(_finding("R24.3", "bool-branch", hl, fn.lineno, "isinstance(value, int) is tested before isinstance(value, bool): booleans are ints, so true/false are written 1/0"))
    # boolean and null spellings = grammar tokens
    bool_tok = G.lexer_rules.get("BOOLEAN_CONSTANT")
    bool_texts = {e.name[1:-1] for a in (bool_tok.alts if bool_tok else []) for e in a.elems if e.kind == "lit"}
    bb = _branch_of(fn, "bool")
    if bb is not None:
        got = set()
        for st in bb:
            got |= set(_str_consts(st))
        rep.instance("R24.3", "bool-spelling", sample=sorted(got))
        if got != bool_texts:
            rep.add(_finding("R24.3", "bool-spelling", hl, bb[0].lineno, f"boolean branch writes {sorted(got)} but BOOLEAN_CONSTANT is {sorted(bool_texts)}"))
    null_text = G.tokens.get("NULL_CONSTANT")
    for mname in ("visit_Constant", "visit_ParamConstant"):
        m = S.methods.get(mname)
        if m is None:
            raise AnalysisError(f"anchor vanished: ASTString.{mname}")
        ok = False
        for n in ast.walk(m.node):
            if isinstance(n, ast.If) and re.fullmatch(r"node\.value is None", src(n.test)):
                rets = [x for x in n.body if isinstance(x, ast.Return)]
                ok = bool(rets) and _str_consts(rets[0]) == [null_text]
        rep.instance("R24.3", f"null/{mname}")
        if not ok:
            rep.add(_finding("R24.3", f"null/{mname}", m, m.node.lineno, f"{mname} does not return the NULL_CONSTANT text {null_text!r} for a None value before formatting it: a null literal would be written as 'None' or quoted"))
    # float branch
    fb = _branch_of(fn, "float")
    if fb is None:
        raise AnalysisError("anchor vanished: float branch of _handle_literal")
    rep.instance("R24.3", "float/lossless")
    blk = ast.Module(body=fb, type_ignores=[])
    for n in ast.walk(blk):
        lossy = None
        if isinstance(n, ast.FormattedValue) and n.format_spec is not None and any(isinstance(x, ast.Name) and x.id == param for x in ast.walk(n.value)):
            spec = "".join(_str_consts(n.format_spec))
            lossy = f"format spec {spec!r} applied to the float"
        elif isinstance(n, ast.Call) and isinstance(n.func, ast.Name) and n.func.id == "format" and n.args and isinstance(n.args[0], ast.Name) and n.args[0].id == param:
            lossy = "format(value, spec) applied to the float itself"
        elif isinstance(n, ast.Call) and isinstance(n.func, ast.Name) and n.func.id == "round":
            lossy = "round() on the literal"
        elif isinstance(n, ast.BinOp) and isinstance(n.op, ast.Mod) and isinstance(n.left, ast.Constant) and isinstance(n.left.value, str):
            lossy = "%-formatting of the float"
        elif isinstance(n, ast.Call) and isinstance(n.func, ast.Attribute) and n.func.attr == "format" and isinstance(n.func.value, ast.Constant):
            lossy = "str.format with a numeric spec"
        elif isinstance(n, ast.Call) and isinstance(n.func, ast.Name) and n.func.id == "int" and n.args and any(isinstance(x, ast.Name) and x.id == param for x in ast.walk(n.args[0])):
            lossy = "int() truncation of the float"
        if lossy:
            rep.add(_finding("R24.3", "float/lossless", hl, n.lineno, f"{lossy}: fixed-precision rendering drops digits (0.12345678 -> 0.123457) or produces an exponent the grammar cannot read; the prettified script denotes another number"))
    # zero stripping guarded by the decimal point
    for n in ast.walk(blk):
        if isinstance(n, ast.Call) and isinstance(n.func, ast.Attribute) and n.func.attr in ("rstrip", "strip") and n.args \
                and isinstance(n.args[0], ast.Constant) and isinstance(n.args[0].value, str) and "0" in n.args[0].value:
            base = n.func.value
            while isinstance(base, ast.Call) and isinstance(base.func, ast.Attribute):
                base = base.func.value
            var = src(base)
            rep.instance("R24.3", f"float/zero-strip/{var}")
            if not _guarded_by_point(blk, n, var):
                rep.add(_finding("R24.3", "float/zero-strip", hl, n.lineno,
                                 f"trailing zeros of `{var}` are stripped without checking that it contains a decimal point: for a whole number "
                                 f"written without '.' (repr in exponent form, e.g. 1e16 -> 10000000000000000) the stripped zeros are significant (-> '1')"))
    # Number written as integer
    for n in ast.walk(blk):
        drops = None
        if isinstance(n, ast.Call) and isinstance(n.func, ast.Attribute) and n.func.attr in ("rstrip", "strip") and n.args \
                and isinstance(n.args[0], ast.Constant) and n.args[0].value == ".":
            drops = "rstrip('.') removes the decimal point of a whole Number"
        if isinstance(n, ast.FormattedValue) and n.format_spec is not None and "g" in "".join(_str_consts(n.format_spec)):
            drops = "':g' writes whole Numbers without a decimal point"
        if drops:
            rep.instance("R24.3", "float/number-as-integer")
            rep.add(_finding("R24.3", "float/number-as-integer", hl, n.lineno,
                             f"{drops}: 3.0 is written 3, which the grammar reads as INTEGER_CONSTANT (NUMBER_CONSTANT requires digits '.' digits), "
                             f"so e.g. cast(3.0, string) becomes cast(3, string) and calc Me := 3.0 changes the measure type"))
            break
    # None guard at call sites (only for fields the constructor can leave None)
    nullable = _ctor_nullable(P, G)
    for mname, m in S.methods.items():
        for n in ast.walk(m.node):
            if isinstance(n, ast.Call) and isinstance(n.func, ast.Name) and n.func.id == "_handle_literal" and n.args:
                a = n.args[0]
                if isinstance(a, ast.Attribute) and isinstance(a.value, ast.Name):
                    key = f"none-guard/{mname}/{src(a)}"
                    ann = None
                    for cname, nc in e7.node_classes(P).items():
                        if a.attr in nc.fields and (mname == f"visit_{cname}" or a.value.id in ("rule",)):
                            ann = nc.fields[a.attr]
                    owners = [cname for cname, nc in e7.node_classes(P).items() if a.attr in nc.fields and (mname == f"visit_{cname}" or a.value.id in ("rule",))]
                    if ann is None or "Optional" not in ann or not any((o, a.attr) in nullable for o in owners):
                        rep.instance("R24.3", key, nontrivial=False)
                        continue
                    if (mname, src(a)) in NONE_GUARD_OK:
                        rep.instance("R24.3", key, nontrivial=False)
                        rep.exemption("R24.3", key, NONE_GUARD_OK[(mname, src(a))])
                        continue
                    rep.instance("R24.3", key)
                    if not _none_guarded(m.node, n, src(a)):
                        rep.add(_finding("R24.3", key, m, n.lineno, f"_handle_literal({src(a)}) is reached when the optional value is None: the clause would be written with the text 'None'"))


def _guarded_by_point(blk: ast.AST, call: ast.AST, var: str) -> bool:
    def is_point_test(t: ast.AST, positive: bool) -> bool:
        if isinstance(t, ast.Compare) and len(t.ops) == 1 and isinstance(t.left, ast.Constant) and t.left.value == "." and src(t.comparators[0]) == var:
            return isinstance(t.ops[0], ast.In) if positive else isinstance(t.ops[0], ast.NotIn)
        if isinstance(t, ast.BoolOp) and isinstance(t.op, ast.And):
            return any(is_point_test(v, positive) for v in t.values)
        return False
    parents: Dict[int, ast.AST] = {}
    for p in ast.walk(blk):
        for c in ast.iter_child_nodes(p):
            parents[id(c)] = p
    cur = call
    while id(cur) in parents:
        p = parents[id(cur)]
        if isinstance(p, ast.IfExp) and ((cur is p.body and is_point_test(p.test, True)) or (cur is p.orelse and is_point_test(p.test, False))):
            return True
        if isinstance(p, ast.If) and ((cur in p.body and is_point_test(p.test, True)) or (cur in p.orelse and is_point_test(p.test, False))):
            return True
        # early return form:  if "." not in var: return var   (earlier statement of the same block)
        body = getattr(p, "body", None)
        if isinstance(body, list) and cur in body:
            for st in body[: body.index(cur)]:
                if isinstance(st, ast.If) and is_point_test(st.test, False) and st.body and isinstance(st.body[-1], ast.Return):
                    return True
        cur = p
    return False


def _none_guarded(fn: ast.AST, call: ast.AST, expr: str) -> bool:
    parents: Dict[int, ast.AST] = {}
    for p in ast.walk(fn):
        for c in ast.iter_child_nodes(p):
            parents[id(c)] = p

    def pos(t: ast.AST) -> bool:
        s = src(t)
        return s == f"{expr} is not None" or s == expr or (isinstance(t, ast.BoolOp) and isinstance(t.op, ast.And) and any(pos(v) for v in t.values))

    def neg(t: ast.AST) -> bool:
        return src(t) == f"{expr} is None" or src(t) == f"not {expr}"
    cur = call
    while id(cur) in parents:
        p = parents[id(cur)]
        if isinstance(p, ast.IfExp) and ((cur is p.body and pos(p.test)) or (cur is p.orelse and neg(p.test))):
            return True
        if isinstance(p, ast.If) and ((cur in p.body and pos(p.test)) or (cur in p.orelse and neg(p.test))):
            return True
        body = getattr(p, "body", None)
        if isinstance(body, list) and cur in body:
            for st in body[: body.index(cur)]:
                if isinstance(st, ast.If) and neg(st.test) and st.body and isinstance(st.body[-1], (ast.Return, ast.Raise)):
                    return True
        cur = p
    return False


# ------------------------------------------------------------------------------------------------------------------
REWRITE_METHODS = {"replace", "split", "rsplit", "splitlines", "partition", "rpartition", "lower", "upper", "title", "capitalize",
                   "swapcase", "casefold", "translate", "expandtabs", "removeprefix", "removesuffix", "zfill", "center", "ljust", "rjust"}
STRIP_METHODS = {"strip", "lstrip", "rstrip"}

# (function, normalised expression) -> reason: rewrites of rendered text that exist on the reference tree and are sound
REWRITE_OK: Dict[Tuple[str, str], str] = {
    ("visit_RegularAggregation", "§[:-1]"): "removes the closing ')' of the rendered join so that the clause body is written inside the join's "
                                                   "parentheses; every rendering of a join ends with ')' (checked: all returns of visit_JoinOp end in ')')",
}


def _check_rewrites(P: Program, rep: Report, funcs: List[FuncInfo]) -> None:  # noqa: C901
    n_sites = 0
    work: List[Tuple[FuncInfo, frozenset]] = [(f, frozenset()) for f in funcs]
    done: Set[Tuple[str, frozenset]] = set()
    while work:
        f, tparams = work.pop(0)
        if (f.qualname, tparams) in done:
            continue
        done.add((f.qualname, tparams))
        fn = f.node
        if tparams:
            # the parameter holds rendered text (a str): resolve type tests on it
            facts: Dict[str, Any] = {}
            for p_ in tparams:
                facts[f"isinstance({p_}, str)"] = True
                for ty in ("float", "int", "bool", "bytes"):
                    facts[f"isinstance({p_}, {ty})"] = False
                facts[f"{p_} is None"] = False
            fn = render.specialise_facts(f.node, facts)
        tainted: Set[str] = set(tparams)
        if f.name == "_break_parentheses":
            if not tparams:
                _check_scanner(rep, f)
            continue

        def is_render_call(c: ast.AST) -> bool:
            return isinstance(c, ast.Call) and isinstance(c.func, ast.Attribute) and (c.func.attr in ("visit", "render") or c.func.attr.startswith("visit_"))

        def tainted_expr(e: ast.AST) -> bool:
            for x in ast.walk(e):
                if is_render_call(x):
                    return True
                if isinstance(x, ast.Name) and x.id in tainted:
                    return True
                if isinstance(x, ast.Call) and isinstance(x.func, ast.Name) and x.func.id == "_break_parentheses":
                    return True
            return False
        for _ in range(4):
            for n in walk_no_nested(fn):
                if isinstance(n, (ast.Assign, ast.AugAssign, ast.AnnAssign)) and n.value is not None and tainted_expr(n.value):
                    tg = n.targets if isinstance(n, ast.Assign) else [n.target]
                    for t in tg:
                        if isinstance(t, ast.Name):
                            tainted.add(t.id)
        # rendered text handed to another in-repo function: follow it (the callee's parameter is rendered text)
        for n in walk_no_nested(fn):
            if isinstance(n, ast.Call) and not is_render_call(n) and any(tainted_expr(a) for a in list(n.args) + [k.value for k in n.keywords]):
                for tq in P.resolve_call(f, n)[:3]:
                    g = P.functions.get(tq)
                    if g is None or g.name in NAME_FORMATTERS:
                        continue
                    params = [p_ for p_ in g.params if p_ not in ("self", "cls")]
                    tp = {params[i] for i, a in enumerate(n.args) if i < len(params) and tainted_expr(a)}
                    tp |= {k.arg for k in n.keywords if k.arg in params and tainted_expr(k.value)}
                    if tp:
                        work.append((g, frozenset(tp)))
        for n in walk_no_nested(fn):
            desc = None
            if isinstance(n, ast.Call) and isinstance(n.func, ast.Attribute) and tainted_expr(n.func.value):
                if n.func.attr in REWRITE_METHODS:
                    desc = f".{n.func.attr}()"
                elif n.func.attr in STRIP_METHODS and n.args:
                    desc = f".{n.func.attr}(chars)"
                elif n.func.attr in STRIP_METHODS:
                    n_sites += 1
                    rep.instance("R24.4", f"{f.name}/{norm_locals(src(n), f.node)[:50]}", nontrivial=False)
                    continue
            elif isinstance(n, ast.Call) and src(n.func) in ("re.sub", "re.subn", "re.split") and len(n.args) >= 2 and any(tainted_expr(a) for a in n.args[1:]):
                desc = src(n.func)
            elif isinstance(n, ast.Subscript) and isinstance(n.slice, ast.Slice) and tainted_expr(n.value):
                desc = "slice"
            elif isinstance(n, ast.Call) and isinstance(n.func, ast.Attribute) and n.func.attr == "join" and n.args \
                    and any(isinstance(x, ast.Call) and isinstance(x.func, ast.Attribute) and x.func.attr in ("split", "splitlines") and tainted_expr(x.func.value) for x in ast.walk(n.args[0])):
                desc = "join(split())"
            if desc is None:
                continue
            n_sites += 1
            key = f"{f.name}/{norm_locals(src(n), f.node)[:60]}"
            rep.instance("R24.4", key)
            ok = REWRITE_OK.get((f.name, norm_locals(src(n), f.node)))
            if ok:
                rep.exemption("R24.4", key, ok)
                continue
            rep.add(_finding("R24.4", key, f, n.lineno,
                             f"`{src(n)[:80]}` rewrites already rendered VTL text ({desc}) without regard to quotes: it also changes the inside of "
                             f"string constants and quoted names (e.g. a constant containing the rewritten characters), so the output denotes another script"))
    # premise of the dataset[:-1] exemption
    jo = P.cls(CLS).methods.get("visit_JoinOp")
    if jo is None:
        raise AnalysisError("anchor vanished: ASTString.visit_JoinOp")
    for r in [x for x in ast.walk(jo.node) if isinstance(x, ast.Return)]:
        rep.instance("R24.4", f"join-ends-with-paren/{r.lineno - jo.node.lineno}")
        v = r.value
        last = v.values[-1] if isinstance(v, ast.JoinedStr) and v.values else None
        if not (isinstance(last, ast.Constant) and str(last.value).endswith(")")):
            rep.add(_finding("R24.4", "join-ends-with-paren", jo, r.lineno, "a rendering of a join does not end with ')', but visit_RegularAggregation removes the last character of it to re-open the parentheses"))
    rep.floor("R24.4 rewrite sites + premises", n_sites, 1)


def _vtl_literals(text: str) -> List[str]:
    """string constants and quoted names of a VTL text, as the lexer reads them: `"` up to the next `"` (no escapes), `'` up to the next `'`"""
    out, i = [], 0
    while i < len(text):
        ch = text[i]
        if ch in ('"', "'"):
            j = text.find(ch, i + 1)
            if j < 0:
                out.append(text[i:])
                break
            out.append(text[i:j + 1])
            i = j + 1
        else:
            i += 1
    return out


SCANNER_INPUTS = ['f("(a)", x)', 'g("a" || "(b)")', 'h(\'na(me\', 1)', 'k("\\" || " (raw)")', 'k("\\") + ("(x)")', 'm("a\\b(c", (y))', 'n("" || "(" || ")")',
                  'p(\'a b\'#\'c(d\', "e)")', 'q("it\'s (so)")', "r('q\"(' + (z))"]


def _check_scanner(rep: Report, f: FuncInfo) -> None:
    """_break_parentheses evaluated on expressions whose string constants / quoted names hold parentheses, backslashes and the other quote
    character: laying the expression out must not change any literal (VTL string constants have no escape sequences: `"\\"` is complete)."""
    from sa.e6 import Interp as _I, Raised as _R, Unmodelled as _U
    evaluated = 0
    try:
        for text in SCANNER_INPUTS:
            got = str(_I(program(), max_steps=20000).call(f, {f.params[0]: text}))
            evaluated += 1
            rep.instance("R24.4", f"scanner/{text[:24]}", nontrivial=True, sample={"input": text, "laid_out": got} if evaluated <= 3 else None)
            if _vtl_literals(got) != _vtl_literals(text) or "".join(got.split()) != "".join(text.split()) and _vtl_literals(got) == _vtl_literals(text) and \
                    "".join(c for c in got if c not in "\n\t ") != "".join(c for c in text if c not in "\n\t "):
                rep.add(_finding("R24.4", f"scanner/_break_parentheses/{SCANNER_INPUTS.index(text)}", f, f.node.lineno,
                                 f"laying out `{text}` gives {got!r}: the string constants / quoted names read back from it are {_vtl_literals(got)}, the expression has "
                                 f"{_vtl_literals(text)} - a line break was inserted into a literal (VTL constants have no escape sequences, so a backslash before a quote does not continue it)"))
        return
    except (_R, _U):
        pass  # not evaluable: fall back to the structural form of the rule
    loops = [n for n in ast.walk(f.node) if isinstance(n, ast.For)]
    rep.instance("R24.4", "scanner/_break_parentheses")
    ok = False
    for lp in loops:
        chain = [st for st in lp.body if isinstance(st, ast.If)]
        if not chain:
            continue
        first = chain[0]
        tests = []
        cur: Optional[ast.If] = first
        while cur is not None:
            tests.append(cur.test)
            cur = cur.orelse[0] if len(cur.orelse) == 1 and isinstance(cur.orelse[0], ast.If) else None
        qidx = [i for i, t in enumerate(tests) if re.search(r"\bis not None\b", src(t))]
        open_idx = [i for i, t in enumerate(tests) if {'"', "'"} <= set(_str_consts(t))]
        pidx = [i for i, t in enumerate(tests) if set(_str_consts(t)) & {"(", ")"}]
        if qidx and open_idx and pidx and max(qidx[0], open_idx[0]) < min(pidx):
            ok = True
    if not ok:
        rep.add(_finding("R24.4", "scanner/_break_parentheses", f, f.node.lineno,
                         "the parenthesis breaker no longer decides 'inside a string constant or quoted name' before it handles '(' and ')': "
                         "line breaks are inserted into literals such as \"(a)\""))


# ------------------------------------------------------------------------------------------------------------------
def _op_tests(P: Program, m: FuncInfo) -> List[Tuple[ast.If, Set[str]]]:
    out = []
    for n in ast.walk(m.node):
        if isinstance(n, ast.If):
            vals: Set[str] = set()
            ok = False
            for t in ast.walk(n.test):
                if isinstance(t, ast.Compare) and src(t.left) == "node.op" and len(t.ops) == 1:
                    rhs = t.comparators[0]
                    elts = rhs.elts if isinstance(rhs, (ast.List, ast.Tuple, ast.Set)) else [rhs]
                    for e in elts:
                        cv = P.const_values(m, m.module, e)
                        if cv is None:
                            raise AnalysisError(f"{m.qualname}: operator constant {src(e)} not resolvable")
                        vals |= {str(x) for x in cv}
                    ok = True
            if ok:
                out.append((n, vals))
    return out


def _returns_call_shape(body: List[ast.stmt]) -> Optional[str]:
    """shape of the first return in this branch: 'call' if the f-string has '(' right after the {node.op} hole,
    'prefix' if node.op hole comes first and no '(', 'infix' if node.op hole is in the middle"""
    for st in body:
        for r in ast.walk(st):
            if isinstance(r, ast.Return) and isinstance(r.value, ast.JoinedStr):
                vals = r.value.values
                idx = [i for i, v in enumerate(vals) if isinstance(v, ast.FormattedValue) and src(v.value) == "node.op"]
                if not idx:
                    continue
                i = idx[0]
                nxt = vals[i + 1] if i + 1 < len(vals) else None
                if i == 0 and isinstance(nxt, ast.Constant) and str(nxt.value).startswith("("):
                    return "call"
                if i == 0:
                    return "prefix"
                return "infix"
    return None


POSITIONAL_FIELDS = {"params", "children", "operands", "clauses", "cases", "grouping", "partition_by", "order_by"}


def _check_positional(P: Program, rep: Report, S) -> None:
    """positional lists of a node (arguments, clause items) are rendered element for element: no handler iterates one of them
    with a filter (comprehension `if`, `continue` / `break` in a for) - dropping an element shifts every later argument one
    position to the left.  Expected count on a sound tree: 0 (positive example: seeded change C25_4, thorough self-test)."""
    n_iter = 0
    for name, m in sorted(S.methods.items()):
        for n in ast.walk(m.node):
            gens = []
            if isinstance(n, (ast.ListComp, ast.GeneratorExp, ast.SetComp)):
                gens = [(g.iter, g.ifs) for g in n.generators]
            elif isinstance(n, ast.For):
                skips = [x for x in ast.walk(n) if isinstance(x, (ast.Continue, ast.Break))]
                gens = [(n.iter, skips)]
            for it, filters in gens:
                fields = {x.attr for x in ast.walk(it) if isinstance(x, ast.Attribute) and isinstance(x.value, ast.Name) and x.value.id == "node"}
                if not (fields & POSITIONAL_FIELDS):
                    continue
                n_iter += 1
                rep.instance("R24.5", f"positional/{name}/{src(it)[:30]}", nontrivial=True, sample={"iteration": src(it)[:60], "filtered": bool(filters)})
                bad = [x for x in filters if not (isinstance(x, ast.Compare) and len(x.ops) == 1 and isinstance(x.ops[0], ast.IsNot)
                                                  and isinstance(x.comparators[0], ast.Constant) and x.comparators[0].value is None)]
                if bad:
                    rep.add(Finding("R24.5", f"R24.5/positional-filter/{name}/{src(it)[:30]}", m.module.rel, n.lineno, m.qualname,
                                    f"{name} renders the positional list `{src(it)[:50]}` through a filter (`{src(bad[0])[:70]}`): an element that is skipped is not written, so every "
                                    f"later argument moves one position to the left in the rendered text (e.g. substr(x, _, 3) becomes substr(x, 3))"))
    rep.floor("R24.5 positional-list iterations in the renderer", n_iter, 10)


def _check_dispatch(P: Program, rep: Report, S, built) -> None:  # noqa: C901
    _check_positional(P, rep, S)
    # ParamOp: exhaustive branches
    m = S.methods.get("visit_ParamOp")
    if m is None:
        raise AnalysisError("anchor vanished: ASTString.visit_ParamOp")
    tested: Set[str] = set()
    for _n, vals in _op_tests(P, m):
        tested |= vals
    falls_through = any(isinstance(st, ast.Return) and isinstance(st.value, ast.Constant) and st.value.value == "" for st in m.node.body)
    unresolved = 0
    n = 0
    for s in built.get("ParamOp", []):
        if s.ops is None:
            unresolved += 1
            continue
        for op in sorted(s.ops):
            n += 1
            rep.instance("R24.5", f"ParamOp/{op}/{s.func.name}")
            if op not in tested and falls_through:
                rep.add(_finding("R24.5", f"ParamOp/{op}", m, m.node.lineno,
                                 f"the constructor ({s.func.name}) builds ParamOp(op={op!r}) but visit_ParamOp has no branch for it and falls through to `return \"\"`: "
                                 f"the whole {op}(...) expression is missing from the rendered script"))
    rep.floor("R24.5 ParamOp operators", n, 12)
    if unresolved:
        rep.note(f"R24.5: {unresolved} ParamOp construction site(s) with an operator that could not be tied to a grammar alternative (not checked)")
    # BinOp shapes
    mb = S.methods.get("visit_BinOp")
    if mb is None:
        raise AnalysisError("anchor vanished: ASTString.visit_BinOp")
    call_ops: Set[str] = set()
    glued_ops: Set[str] = set()
    for ifn, vals in _op_tests(P, mb):
        sh = _returns_call_shape(ifn.body)
        if sh == "call":
            call_ops |= vals
        elif sh == "infix":
            glued_ops |= vals
    nb = 0
    for s in built.get("BinOp", []):
        if s.ops is None or s.shape is None:
            continue
        for op in sorted(s.ops):
            nb += 1
            rep.instance("R24.5", f"BinOp/{op}/{s.shape}")
            if s.shape == "call" and op not in call_ops:
                rep.add(_finding("R24.5", f"BinOp/{op}", mb, mb.node.lineno, f"{op} is read by the grammar as {op}(a, b) ({s.func.name}) but visit_BinOp renders it infix (a {op} b), which does not parse"))
            if s.shape == "infix" and op in call_ops:
                rep.add(_finding("R24.5", f"BinOp/{op}", mb, mb.node.lineno, f"{op} is an infix operator in the grammar ({s.func.name}) but visit_BinOp renders it as a function call"))
    rep.floor("R24.5 BinOp operators", nb, 10)
    # UnaryOp shapes
    mu = S.methods.get("visit_UnaryOp")
    if mu is None:
        raise AnalysisError("anchor vanished: ASTString.visit_UnaryOp")
    prefix_ops: Set[str] = set()
    for ifn, vals in _op_tests(P, mu):
        sh = _returns_call_shape(ifn.body)
        if sh == "prefix":
            prefix_ops |= vals
    default_shape = None
    for st in mu.node.body:
        if isinstance(st, ast.Return):
            default_shape = _returns_call_shape([st])
    nu = 0
    for s in built.get("UnaryOp", []):
        if s.ops is None or s.shape is None:
            continue
        for op in sorted(s.ops):
            nu += 1
            rep.instance("R24.5", f"UnaryOp/{op}/{s.shape}")
            if s.shape == "call" and (op in prefix_ops or default_shape != "call"):
                rep.add(_finding("R24.5", f"UnaryOp/{op}", mu, mu.node.lineno, f"{op} is read by the grammar as {op}(x) ({s.func.name}) but visit_UnaryOp renders it without parentheses"))
            if s.shape == "prefix" and op not in prefix_ops:
                rep.add(_finding("R24.5", f"UnaryOp/{op}", mu, mu.node.lineno, f"{op} is a prefix operator in the grammar ({s.func.name}) but visit_UnaryOp renders it as {op}(x)"))
    rep.floor("R24.5 UnaryOp operators", nu, 15)


# ------------------------------------------------------------------------------------------------------------------
def _absent_defaults(P: Program, f: FuncInfo, facts: Dict[str, Any]) -> Dict[str, Set[str]]:
    """field -> constants used when node.<field> is falsy/None:  `node.F.value if node.F else "<d>"`"""
    fn = render.specialise_facts(f.node, facts, lambda e: P.const_values(f, f.module, e))
    out: Dict[str, Set[str]] = {}
    for n in ast.walk(fn):
        if isinstance(n, ast.IfExp) and isinstance(n.orelse, ast.Constant) and isinstance(n.orelse.value, str):
            mt = re.fullmatch(r"node\.(\w+)(?: is not None)?", src(n.test))
            if mt and src(n.body) == f"node.{mt.group(1)}.value":
                out.setdefault(mt.group(1), set()).add(n.orelse.value)
    return out


def _elided(P: Program, f: FuncInfo, facts: Dict[str, Any]) -> Dict[str, Set[str]]:
    """field -> constants the renderer omits:  `node.F is not None and node.F.value != <d>` (d a constant or a local
    bound to a constant under `facts`)"""
    fn = render.specialise_facts(f.node, facts, lambda e: P.const_values(f, f.module, e))
    local: Dict[str, str] = {}
    for n in ast.walk(fn):
        if isinstance(n, ast.Assign) and len(n.targets) == 1 and isinstance(n.targets[0], ast.Name) and isinstance(n.value, ast.Constant) and isinstance(n.value.value, str):
            local[n.targets[0].id] = n.value.value
    out: Dict[str, Set[str]] = {}
    for n in ast.walk(fn):
        if isinstance(n, ast.Compare) and len(n.ops) == 1 and isinstance(n.ops[0], ast.NotEq):
            mt = re.fullmatch(r"node\.(\w+)\.value", src(n.left))
            if not mt:
                continue
            r = n.comparators[0]
            d = r.value if isinstance(r, ast.Constant) else local.get(r.id) if isinstance(r, ast.Name) else None
            if isinstance(d, str):
                out.setdefault(mt.group(1), set()).add(d)
    return out


def _check_defaults(P: Program, rep: Report, S, built, pretty: bool = True) -> None:  # noqa: C901
    consumers: Dict[str, List[str]] = {"HROperation": [], "DPValidation": []}
    for f in P.iter_functions():
        if not f.module.name.startswith(("vtlengine.Interpreter", "vtlengine.duckdb_transpiler.Transpiler")):
            continue
        for a in f.node.args.args:
            if a.annotation is not None and src(a.annotation).split(".")[-1] in consumers and a.arg == "node":
                if any(isinstance(n, ast.IfExp) and isinstance(n.orelse, ast.Constant) and isinstance(n.orelse.value, str)
                       and re.fullmatch(r"node\.\w+\.value", src(n.body)) for n in ast.walk(f.node)):
                    consumers[src(a.annotation).split(".")[-1]].append(f.qualname)
    for k, v in consumers.items():
        if len(v) < 2:
            raise AnalysisError(f"R24.6: fewer than two consumers with absent-parameter defaults found for {k}: {v}")
    rep.analysed["default_consumers"] = consumers
    n = 0
    for cname, cons in consumers.items():
        r = S.methods.get(f"visit_{cname}")
        if r is None:
            raise AnalysisError(f"anchor vanished: ASTString.visit_{cname}")
        ops = sorted({op for s in built.get(cname, []) if s.ops for op in s.ops}) or [None]
        if cname == "HROperation":
            ops = ["hierarchy", "check_hierarchy"]
        for op in ops:
            facts: Dict[str, Any] = {"self.pretty": pretty}
            if op:
                facts["node.op"] = op
            el = _elided(P, r, facts)
            for cq in cons:
                cf = _fn(P, cq)
                cfacts = {"node.op": op} if op else {}
                ab = _absent_defaults(P, cf, cfacts)
                for fld, dset in sorted(el.items()):
                    n += 1
                    key = f"{cname}.{fld}/{op}/{'.'.join(cq.split('.')[-2:])}"
                    rep.instance("R24.6", key, sample={"elided": sorted(dset), "assumed_when_absent": sorted(ab.get(fld, []))})
                    if fld not in ab:
                        continue
                    if dset != ab[fld]:
                        rep.add(_finding("R24.6", f"{cname}.{fld}/{op}", r, r.node.lineno,
                                         f"for {op or cname} the renderer omits {fld} when it is {sorted(dset)}, but {cq.split('.')[-2]} assumes {sorted(ab[fld])} when it is absent: "
                                         f"the prettified script runs with another mode"))
    rep.floor("R24.6 default comparisons", n, 10)
    # analytic default window: renderer elides exactly the tuple the constructor inserts when no window is written
    w = S.methods.get("visit_Windowing")
    if w is None:
        raise AnalysisError("anchor vanished: ASTString.visit_Windowing")
    elided: Dict[str, Any] = {}
    for st in w.node.body:
        if isinstance(st, ast.If) and st.body and isinstance(st.body[0], ast.Return) and isinstance(st.body[0].value, ast.Constant) and st.body[0].value.value == "":
            for c in ast.walk(st.test):
                if isinstance(c, ast.Compare) and len(c.ops) == 1 and isinstance(c.ops[0], ast.Eq) and src(c.left).startswith("node."):
                    rv = c.comparators[0]
                    try:
                        elided[src(c.left)[5:]] = ast.literal_eval(rv)
                    except Exception:
                        raise AnalysisError("visit_Windowing: elision test not constant")
    defaults = []
    for s in built.get("Windowing", []):
        kw = {}
        try:
            kw = {k.arg: ast.literal_eval(k.value) for k in s.call.keywords if k.arg}
        except Exception:
            continue
        defaults.append((s, kw))
    rep.instance("R24.6", "Windowing/default-frame", sample={"elided": elided, "constructor_defaults": [kw for _s, kw in defaults]})
    if not elided or not defaults:
        raise AnalysisError("default analytic window: neither the elision test nor the constructor's default Windowing(...) found")
    for s, kw in defaults:
        if {k: kw.get(k) for k in elided} != elided:
            rep.add(_finding("R24.6", "Windowing/default-frame", w, w.node.lineno,
                             f"the renderer omits the window {elided} as 'the default', but the constructor ({s.func.name}) inserts {kw} when no window is written: "
                             f"an explicitly written frame disappears and is re-read as a different one"))
    # order-by direction
    ob = S.methods.get("visit_OrderBy")
    ctor_default = set()
    for s in built.get("OrderBy", []):
        for k in s.call.keywords:
            if k.arg == "order" and isinstance(k.value, ast.Constant):
                ctor_default.add(k.value.value)
    el_ob = {c.comparators[0].value for c in ast.walk(ob.node) if isinstance(c, ast.Compare) and src(c.left) == "node.order" and isinstance(c.comparators[0], ast.Constant)} if ob else set()
    rep.instance("R24.6", "OrderBy/direction", sample={"elided": sorted(el_ob), "constructor_default": sorted(ctor_default)})
    if not el_ob or not (el_ob <= ctor_default):
        rep.add(_finding("R24.6", "OrderBy/direction", ob, ob.node.lineno, f"order-by direction {sorted(el_ob)} is omitted by the renderer but the constructor's default direction is {sorted(ctor_default)}"))


# ------------------------------------------------------------------------------------------------------------------
def _check_comments(P: Program, rep: Report, S) -> None:
    f = _fn(P, "vtlengine.AST.ASTComment.create_ast_with_comments")
    # comments = [generate_ast_comment(c) for c in comment_tokens]   (no filter), tokens from get_comments()
    comp_ok = ext_ok = False
    for n in ast.walk(f.node):
        if isinstance(n, ast.Assign) and isinstance(n.value, ast.ListComp) and any(isinstance(c, ast.Call) and src(c.func) == "generate_ast_comment" for c in ast.walk(n.value.elt)):
            g = n.value.generators[0]
            comp_ok = not g.ifs and len(n.value.generators) == 1
    rep.instance("R24.7", "all-comment-tokens-converted")
    if not comp_ok:
        rep.add(_finding("R24.7", "all-comment-tokens-converted", f, f.node.lineno, "the comment tokens returned by the parser are filtered (or no longer all converted) before they become Comment nodes: prettify() drops comments"))
    cfg = CFG(f.node)
    ext = cfg.stmt_nodes(lambda st: isinstance(st, ast.Expr) and isinstance(st.value, ast.Call) and src(st.value.func).endswith("children.extend"))
    rep.instance("R24.7", "comments-attached-on-every-path")
    if not ext:
        rep.add(_finding("R24.7", "comments-attached-on-every-path", f, f.node.lineno, "comments are never added to the tree's children"))
    else:
        p = cfg.path_avoiding(cfg.entry, lambda x: x is cfg.exit, lambda x: x in ext, follow_exc=False)
        if p is not None:
            rep.add(_finding("R24.7", "comments-attached-on-every-path", f, ext[0].lineno, "there is a normal path through create_ast_with_comments that returns without attaching the comments"))
    gen = _fn(P, "vtlengine.AST.ASTComment.generate_ast_comment")
    rep.instance("R24.7", "comment-text-verbatim")
    for n in ast.walk(gen.node):
        if isinstance(n, ast.Call) and isinstance(n.func, ast.Attribute) and n.func.attr in (REWRITE_METHODS | {"strip", "lstrip"}) and "text" in src(n.func.value):
            rep.add(_finding("R24.7", "comment-text-verbatim", gen, n.lineno, f"`{src(n)}` alters the text of a comment (only the line terminator of a single-line comment may be removed)"))
        if isinstance(n, ast.Call) and isinstance(n.func, ast.Attribute) and n.func.attr == "rstrip" and "text" in src(n.func.value):
            chars = n.args[0].value if n.args and isinstance(n.args[0], ast.Constant) else None
            if chars is None or set(chars) - set("\r\n"):
                rep.add(_finding("R24.7", "comment-text-verbatim", gen, n.lineno, f"`{src(n)}` strips more than the line terminator from a comment"))
    vc = S.methods.get("visit_Comment")
    rep.instance("R24.7", "comment-written")
    if vc is None or not any(isinstance(n, ast.AugAssign) and src(n.target) == "self.vtl_script" for n in ast.walk(vc.node)):
        rep.add(_finding("R24.7", "comment-written", vc or S.methods["visit_Start"], (vc or S.methods["visit_Start"]).node.lineno, "visit_Comment does not append the comment to the output script"))


def _check_presence_tests(P: Program, rep: Report, S, rule: str, pretty: bool = True) -> None:
    """A node field declared Optional[<scalar>] (str / int / float / bool inside the Optional) has falsy values that are not absence:
    errorlevel 0, errorcode "".  The renderer decides whether to write the clause by a test on the field; that test must be
    `is [not] None` - a truthiness test drops the clause for 0 / "" / False and the text denotes another script.
    Sites are attributed to the rendering mode by the enclosing `if self.pretty` branch."""
    A = P.module("vtlengine.AST")
    falsy_fields: Dict[str, str] = {}
    for c in A.classes.values():
        for st in c.node.body:
            if isinstance(st, ast.AnnAssign) and isinstance(st.target, ast.Name):
                ann = src(st.annotation)
                if ann.startswith("Optional[") and re.search(r"\b(str|int|float|bool)\b", ann) and "List[" not in ann:
                    falsy_fields[st.target.id] = ann
    if len(falsy_fields) < 4:
        raise AnalysisError("vtlengine.AST: Optional scalar fields (error_code, erLevel, ...) not found")
    n = 0
    for f in S.methods.values():
        parents: Dict[int, ast.AST] = {}
        for x in ast.walk(f.node):
            for ch in ast.iter_child_nodes(x):
                parents[id(ch)] = x

        def mode_of(x: ast.AST) -> Optional[bool]:
            """True: pretty only, False: compact only, None: both"""
            cur, prev = parents.get(id(x)), x
            while cur is not None:
                if isinstance(cur, ast.If) and src(cur.test) in ("self.pretty", "not self.pretty"):
                    in_body = any(prev is b for b in cur.body)
                    in_else = any(prev is b for b in cur.orelse)
                    if in_body or in_else:
                        return in_body == (src(cur.test) == "self.pretty")
                prev, cur = cur, parents.get(id(cur))
            return None
        for x in ast.walk(f.node):
            if not isinstance(x, (ast.If, ast.IfExp, ast.While)):
                continue
            t = x.test
            for o in (t.values if isinstance(t, ast.BoolOp) else [t]):
                core = o.operand if isinstance(o, ast.UnaryOp) and isinstance(o.op, ast.Not) else o
                is_none_test = isinstance(core, ast.Compare) and len(core.ops) == 1 and isinstance(core.ops[0], (ast.Is, ast.IsNot)) \
                    and isinstance(core.comparators[0], ast.Constant) and core.comparators[0].value is None and isinstance(core.left, ast.Attribute)
                attr = core.left if is_none_test else core
                if not (isinstance(attr, ast.Attribute) and isinstance(attr.value, ast.Name) and attr.value.id != "self" and attr.attr in falsy_fields):
                    continue
                md = mode_of(x)
                if md is not None and md != pretty:
                    continue
                n += 1
                rep.instance(rule, f"presence/{f.name}/{attr.attr}", nontrivial=True)
                if not is_none_test:
                    rep.add(_finding(rule, f"presence/{f.name}/{attr.attr}", f, x.lineno,
                                     f"{f.name} decides whether to write `{attr.attr}` by the truth value of `{src(attr)}` ({falsy_fields[attr.attr]}): for the legal values 0, 0.0, \"\" "
                                     f"and false the clause is left out of the rendered text, which then denotes a script without it (errorlevel 0 comes back as null)"))
    rep.floor(f"{rule} presence tests", n, 4)


def _check_flags(P: Program, rep: Report, S) -> None:
    flags = []
    for st in S.node.body:
        if isinstance(st, ast.AnnAssign) and isinstance(st.target, ast.Name) and src(st.annotation) == "bool" and st.target.id != "pretty":
            flags.append(st.target.id)
    n = 0
    for mname, m in S.methods.items():
        for flag in flags:
            sets = [x for x in ast.walk(m.node) if isinstance(x, ast.Assign) and src(x.targets[0]) == f"self.{flag}"
                    and isinstance(x.value, ast.Constant) and x.value.value is True]
            if not sets:
                continue
            if flag == "is_first_assignment":
                # consumed (reset) by the assignment handler it announces, not by the setter
                n += 1
                rep.instance("R24.8", f"{mname}/{flag}", nontrivial=False)
                continue
            cfg = CFG(m.node)
            for s_ in sets:
                n += 1
                rep.instance("R24.8", f"{mname}/{flag}")
                start = [x for x in cfg.nodes if getattr(x, "stmt", None) is s_]
                if not start:
                    raise AnalysisError(f"R24.8: statement not found in CFG of {mname}")
                resets = cfg.stmt_nodes(lambda st, fl=flag: isinstance(st, ast.Assign) and src(st.targets[0]) == f"self.{fl}"
                                        and not (isinstance(st.value, ast.Constant) and st.value.value is True))
                p = cfg.path_avoiding(start[0], lambda x: x is cfg.exit, lambda x: x in resets, follow_exc=False)
                if p is not None:
                    rep.add(_finding("R24.8", f"{mname}/{flag}", m, s_.lineno,
                                     f"self.{flag} is set to True here and there is a normal path to the end of {mname} that does not restore it: "
                                     f"everything rendered afterwards (other statements of the script) is laid out under the stale flag"))
    # the assignment flag is reset by visit_Assignment
    va = S.methods.get("visit_Assignment")
    rep.instance("R24.8", "visit_Assignment/is_first_assignment")
    if va is None or not any(isinstance(x, ast.Assign) and src(x.targets[0]) == "self.is_first_assignment" and isinstance(x.value, ast.Constant)
                             and x.value.value is False for x in ast.walk(va.node)):
        rep.add(_finding("R24.8", "visit_Assignment/is_first_assignment", va or S.methods["visit_Start"], (va or S.methods["visit_Start"]).node.lineno,
                         "visit_Assignment no longer clears is_first_assignment: nested assignments (calc items, rename) would be written as top-level statements"))
    rep.floor("R24.8 flag sites", n, 2)


# ------------------------------------------------------------------------------------------------------------------
def _fold_table(P: Program, mod, name: str) -> Optional[dict]:
    """Constant-fold a module-level dict comprehension over a list literal of strings (pure str methods only)."""
    tgt = None
    for st in mod.tree.body:
        if isinstance(st, ast.Assign) and len(st.targets) == 1 and isinstance(st.targets[0], ast.Name) and st.targets[0].id == name:
            tgt = st.value
    if tgt is None:
        return None
    if isinstance(tgt, ast.Dict):
        try:
            return ast.literal_eval(tgt)
        except Exception:
            return None
    if not isinstance(tgt, ast.DictComp) or len(tgt.generators) != 1:
        return None
    gen = tgt.generators[0]
    if not isinstance(gen.iter, ast.Name) or not isinstance(gen.target, ast.Name):
        return None
    q = P.resolve_expr(mod, gen.iter)
    src_list = None
    if q:
        mq, _, nm = q.rpartition(".")
        try:
            m2 = P.module(mq)
        except Exception:
            m2 = None
        if m2 is not None:
            for st in m2.tree.body:
                if isinstance(st, ast.Assign) and isinstance(st.targets[0], ast.Name) and st.targets[0].id == nm:
                    try:
                        src_list = ast.literal_eval(st.value)
                    except Exception:
                        src_list = None
    if src_list is None:
        return None
    allowed_calls = {"replace", "strip", "lstrip", "rstrip", "lower", "upper", "isalpha", "isalnum", "isidentifier", "startswith", "endswith", "len", "isupper", "islower"}
    walrus = {n.target.id for n in ast.walk(tgt) if isinstance(n, ast.NamedExpr) and isinstance(n.target, ast.Name)}
    for n in ast.walk(tgt):
        if isinstance(n, ast.Call):
            nm = n.func.attr if isinstance(n.func, ast.Attribute) else (n.func.id if isinstance(n.func, ast.Name) else None)
            if nm not in allowed_calls:
                return None
        if isinstance(n, ast.Name) and n.id not in (gen.target.id, gen.iter.id, "len") and n.id not in walrus:
            return None
    code = compile(ast.Expression(body=tgt), "<fold>", "eval")
    return eval(code, {"__builtins__": {"len": len}}, {gen.iter.id: src_list})  # constant folding of a literal table


def _check_names(P: Program, G: g4.Grammar, rep: Report, S, T: render.TypedReads, NC, built) -> None:  # noqa: C901
    mod = P.module(MOD)
    table = _fold_table(P, mod, "RESERVED_WORDS")
    if table is None:
        raise AnalysisError("RESERVED_WORDS is no longer a foldable table (dict literal or comprehension over a literal list with pure str methods)")
    ident_shape = re.compile(r"[A-Za-z_][A-Za-z0-9_.]*\Z")
    n = 0
    fr = _fn(P, f"{MOD}._format_reserved_word")
    for tok, text in sorted(G.tokens.items()):
        if not ident_shape.match(text):
            continue
        n += 1
        rep.instance("R24.9", f"keyword/{text}", nontrivial=True)
        if text not in table:
            rep.add(_finding("R24.9", f"keyword/{text}", fr, fr.node.lineno,
                             f"lexer keyword {tok} = '{text}' is not a key of RESERVED_WORDS: a dataset/component named '{text}' (legal when quoted) is written "
                             f"without quotes, lexes as the keyword and the prettified script does not parse"))
        elif table[text] != f"'{text}'":
            rep.add(_finding("R24.9", f"keyword/{text}", fr, fr.node.lineno, f"RESERVED_WORDS['{text}'] is {table[text]!r}, not the quoted identifier '{text}'"))
    rep.floor("R24.9 keywords", n, 150)
    # formatter returns the table entry for members, the value itself otherwise
    ok = any(isinstance(x, ast.If) and "in RESERVED_WORDS" in src(x.test) and isinstance(x.body[0], ast.Return) and src(x.body[0].value) == "RESERVED_WORDS[value]"
             for x in ast.walk(fr.node))
    rep.instance("R24.9", "formatter-shape")
    if not ok:
        rep.add(_finding("R24.9", "formatter-shape", fr, fr.node.lineno, "_format_reserved_word no longer returns the quoted form for members of RESERVED_WORDS"))
    # name fields go through the formatter
    str_fields = {(c, f) for c, nc in NC.items() for f, ann in nc.fields.items() if f not in e7.POSITIONAL and re.search(r"\bstr\b", ann) and c in built}
    for cf in sorted(NAME_FIELDS):
        if cf not in str_fields and cf[0] in built:
            raise AnalysisError(f"R24.9: name field table entry {cf} is not a str field of a constructed node class (table out of date)")
    all_sites = [x for v in built.values() for x in v]
    for (cname, fld) in sorted(NAME_FIELDS):
        if cname not in built:
            continue
        prov = astctor.field_quote_status(P, all_sites, cname, fld)
        if "stripped" not in prov or "raw" in prov:
            # quotes are kept by the constructor (the stored text is what was written) or provenance is mixed/unknown:
            # writing the stored text back is right; nothing to require
            rep.instance("R24.9", f"name/{cname}.{fld}", nontrivial=False, sample={"constructor": {k: len(v) for k, v in prov.items()}})
            continue
        sites_ = T.reads.get((cname, fld), [])
        for mname in sorted({a for a, _ in sites_}):
            fn = T.methods[mname]
            status = _name_render_status(fn, cname, fld, T, mname)
            key = f"name/{cname}.{fld}/{mname}"
            rep.instance("R24.9", key, sample=status)
            if status == "raw":
                m = S.methods[mname]
                rep.add(_finding("R24.9", f"name/{cname}.{fld}", m, m.node.lineno,
                                 f"{cname}.{fld} holds a name whose quotes the constructor removes ({'; '.join(prov['stripped'][:2])}) and {mname} writes it into the script as it is: a name that is a "
                                 f"reserved word (legal when quoted, e.g. 'date', 'time', 'value') comes out unquoted and the prettified script does not parse"))


def _name_render_status(fn: ast.AST, cname: str, fld: str, T: render.TypedReads, mname: str = "") -> str:
    """'formatted' if every output-flowing read of <x>.<fld> in fn sits inside a name-formatter call or a quoting branch,
    'raw' if some read is interpolated directly, 'test-only' if reads are only in conditions."""
    parents: Dict[int, ast.AST] = {}
    for p in ast.walk(fn):
        for c in ast.iter_child_nodes(p):
            parents[id(c)] = p
    # loop variables bound to elements of the field (for x in node.using) are followed
    elem_vars: Set[str] = set()
    for n in ast.walk(fn):
        if isinstance(n, (ast.For, ast.comprehension)) and isinstance(n.target, ast.Name):
            for x in ast.walk(n.iter):
                if isinstance(x, ast.Attribute) and x.attr == fld and cname in T.receiver_types(mname, x.value):
                    elem_vars.add(n.target.id)
    raw = formatted = tests = 0
    for n in ast.walk(fn):
        is_read = isinstance(n, ast.Attribute) and n.attr == fld and isinstance(n.ctx, ast.Load) and cname in T.receiver_types(mname, n.value)
        is_elem = isinstance(n, ast.Name) and n.id in elem_vars and isinstance(n.ctx, ast.Load)
        if not (is_read or is_elem):
            continue
        cur: ast.AST = n
        verdict = None
        while id(cur) in parents:
            p = parents[id(cur)]
            if isinstance(p, ast.Call) and isinstance(p.func, ast.Name) and p.func.id in NAME_FORMATTERS and cur in p.args:
                verdict = "formatted"
                break
            if isinstance(p, (ast.If, ast.IfExp, ast.While)) and cur is p.test:
                verdict = "test"
                break
            if isinstance(p, ast.Compare) or (isinstance(p, ast.Call) and isinstance(p.func, ast.Name) and p.func.id in ("len", "isinstance", "enumerate")):
                verdict = "test"
                break
            if isinstance(p, (ast.For, ast.comprehension)) and cur is p.iter:
                verdict = "iter"
                break
            if isinstance(p, ast.Call) and isinstance(p.func, ast.Attribute) and p.func.attr == "visit":
                verdict = "formatted"  # rendered by the visited node's own handler
                break
            if isinstance(p, ast.JoinedStr) or isinstance(p, ast.FormattedValue):
                # quoting branch:  f"'{x}'"
                js = p if isinstance(p, ast.JoinedStr) else parents.get(id(p))
                if isinstance(js, ast.JoinedStr):
                    i = [k for k, v in enumerate(js.values) if v is cur or v is p]
                    if i:
                        k = i[0]
                        before = js.values[k - 1] if k > 0 else None
                        after = js.values[k + 1] if k + 1 < len(js.values) else None
                        if isinstance(before, ast.Constant) and str(before.value).endswith("'") and isinstance(after, ast.Constant) and str(after.value).startswith("'"):
                            verdict = "formatted"
                            break
                verdict = "raw"
                break
            if isinstance(p, (ast.Return, ast.Assign, ast.AugAssign)):
                verdict = "raw"
                break
            if isinstance(p, ast.Call) and isinstance(p.func, ast.Attribute) and p.func.attr in ("join", "append"):
                verdict = "raw"
                break
            cur = p
        if verdict == "raw":
            raw += 1
        elif verdict == "formatted":
            formatted += 1
        else:
            tests += 1
    if raw:
        return "raw"
    if formatted:
        return "formatted"
    return "test-only"
